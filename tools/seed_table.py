#!/usr/bin/env python3
"""Regenerate the table of seeded changes in DESIGN.md section 14 from
seeded/<name>/meta.json and seeded/RESULTS.json (between the markers
<!-- SEED-TABLE-BEGIN --> and <!-- SEED-TABLE-END -->)."""
import json
import pathlib
import re

VERIF = pathlib.Path(__file__).resolve().parent.parent
res = json.loads((VERIF / 'seeded' / 'RESULTS.json').read_text())
rows = []
for d in sorted((VERIF / 'seeded').iterdir()):
    if not d.is_dir():
        continue
    meta = json.loads((d / 'meta.json').read_text())
    summ = re.sub(r'\s+', ' ', str(meta.get('summary', ''))).replace('|', '/')[:170]
    r = res.get(d.name, {})
    cell = []
    for key in sorted(r):
        v = r[key]
        if not isinstance(v, dict):
            continue
        first = str(v.get('first', '')).split(':')[0][:60]
        verdict = v.get('verdict', '?')
        if meta.get('obsolete_after'):
            verdict += ' (against the tree before ' + str(meta['obsolete_after']).split(':')[0] + '; obsolete after it)'
        cell.append(f"{verdict} — `{first}`" if first else verdict)
    if not cell:
        cell = ['not evaluated']
    rows.append(f"| {d.name} | {summ} | {'; '.join(cell)} |")
table = "\n".join(["| seed | change (from its `meta.json`) | verdict — first class |", "|---|---|---|"] + rows)
p = VERIF / 'DESIGN.md'
s = p.read_text()
a, b = '<!-- SEED-TABLE-BEGIN -->', '<!-- SEED-TABLE-END -->'
assert a in s and b in s, 'markers missing in DESIGN.md'
s = s[:s.index(a) + len(a)] + "\n" + table + "\n" + s[s.index(b):]
p.write_text(s)
n_caught = sum(1 for x in res.values() for v in x.values() if isinstance(v, dict) and v.get('verdict', '').startswith('caught-with-input'))
print(len(rows), 'seeds;', n_caught, 'caught-with-input')
