#!/bin/bash
# usage: tools/seed_round.sh <PROPERTY ID> <variant letters...>   e.g. tools/seed_round.sh C01 C D
# confirm the delivered seeds (demo pass/fail, pinned suite) and try the property's quick check on them
cd "$(dirname "$0")/.."
id=$1; shift
for v in "$@"; do
  python3 tools/seed_intake.py /root/mut/out/$id/$v $id-$v | cut -c1-200
  [ -d seeded/$id-$v ] && python3 tools/seed_eval.py $id-$v 2>&1 | grep -v WARNING
done
