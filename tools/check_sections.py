#!/usr/bin/env python3
"""A Variable / Hypothesis / Context outside a Section declares an axiom: refuse it.
Comments (nested) are removed before scanning."""
import pathlib, re, sys
root = pathlib.Path(__file__).resolve().parent.parent / 'coq'


def strip_comments(text):
    out, depth, i = [], 0, 0
    while i < len(text):
        if text.startswith('(*', i):
            depth += 1
            i += 2
        elif text.startswith('*)', i) and depth > 0:
            depth -= 1
            i += 2
        else:
            if depth == 0 or text[i] == '\n':
                out.append(text[i])
            i += 1
    return ''.join(out)


bad = 0
for f in sorted(root.rglob('*.v')):
    depth = 0
    for i, line in enumerate(strip_comments(f.read_text()).splitlines(), 1):
        s = line.strip()
        if re.match(r'Section\s+\w+\s*\.', s):
            depth += 1
        elif re.match(r'End\s+\w+\s*\.', s) and depth > 0:
            depth -= 1
        elif re.match(r'(Variables?|Hypothes[ie]s|Context)\b', s) and depth == 0:
            print(f'{f}:{i}: {s}  -- outside a Section', file=sys.stderr)
            bad += 1
sys.exit(2 if bad else 0)
