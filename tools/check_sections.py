#!/usr/bin/env python3
"""A Variable / Hypothesis / Context outside a Section declares an axiom: refuse it."""
import pathlib, re, sys
root = pathlib.Path(__file__).resolve().parent.parent / 'coq'
bad = 0
for f in sorted(root.rglob('*.v')):
    depth = 0
    for i, line in enumerate(f.read_text().splitlines(), 1):
        s = line.strip()
        if re.match(r'Section\s+\w+\s*\.', s):
            depth += 1
        elif re.match(r'End\s+\w+\s*\.', s) and depth > 0:
            depth -= 1
        elif re.match(r'(Variables?|Hypothes[ie]s|Context)\b', s) and depth == 0:
            print(f'{f}:{i}: {s}  -- outside a Section', file=sys.stderr)
            bad += 1
sys.exit(2 if bad else 0)
