#!/bin/bash
# coqc under a wall-clock and address-space limit (20 min, 12 GB)
ulimit -v 12000000
exec timeout 1200 coqc "$@"
