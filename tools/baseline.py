#!/usr/bin/env python3
"""Run the repository's pinned baseline (guard off) and compare with BASELINE.json."""
import json, os, subprocess, sys, tempfile, xml.etree.ElementTree as ET
b = json.load(open('/root/.vp/BASELINE.json'))
out = tempfile.mktemp(suffix='.xml', prefix='ctm_baseline_')
env = dict(os.environ)
env.pop('CELL_TYPE_MAPPER_VERIF', None)
cmd = b['cmd'].replace('<file>', out)
subprocess.run(cmd, shell=True, env=env, stdout=subprocess.DEVNULL, stderr=subprocess.DEVNULL)
passed = set()
for tc in ET.parse(out).getroot().iter('testcase'):
    if not any(ch.tag in ('failure', 'error', 'skipped') for ch in tc):
        passed.add(f"{tc.get('classname')}::{tc.get('name')}")
os.unlink(out)
want = set(b['stable_pass'])
missing = sorted(want - passed)
print(f'stable_pass expected {len(want)}, passing now {len(want & passed)}, missing {len(missing)}')
for m in missing[:40]:
    print('  MISSING', m)
sys.exit(1 if missing else 0)
