#!/usr/bin/env python3
"""Resolve a merge conflict in known_findings.json by taking the union of findings (by id)."""
import json, subprocess
def show(stage):
    return json.loads(subprocess.check_output(['git', 'show', f':{stage}:known_findings.json']))
ours, theirs = show(2), show(3)
ids = {f['id'] for f in ours['findings']}
for f in theirs['findings']:
    if f['id'] not in ids:
        ours['findings'].append(f)
    else:
        o = [x for x in ours['findings'] if x['id'] == f['id']][0]
        if o != f:
            print('DIFFERS', f['id'], '\n  ours:', o.get('property'), o.get('match'), '\n  theirs:', f.get('property'), f.get('match'))
open('known_findings.json', 'w').write(json.dumps(ours, indent=1) + '\n')
