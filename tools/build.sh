#!/bin/bash
# setup_cmd: full .vo build of the Coq development, hygiene grep, extraction,
# OCaml driver.  Offline; every step under a shell timeout.
set -euo pipefail
cd "$(dirname "$0")/.."
ROOT=$(pwd)
# one build at a time per checkout
exec 9>"$ROOT/.build.lock"
flock 9
python3 tools/gen_project.py
cd coq
# hygiene: nothing that declares an axiom or switches a check off
if grep -rnE '\b(Admitted|admit|Axiom|Axioms|Parameter|Parameters|Conjecture|Abort All)\b|Unset Guard|bypass_check|type-in-type|impredicative-set|Admit Obligations|native_compute' \
     --include='*.v' . ; then
  echo "HYGIENE FAILURE: forbidden construct in the Coq development" >&2
  exit 2
fi
python3 "$ROOT/tools/check_sections.py"
coq_makefile -f _CoqProject -o Makefile >/dev/null
timeout 3000 make -j"${VERIF_JOBS:-12}" 2>&1 | grep -v '^COQDEP\|^COQC\|^CAMLOPT' | tail -40 || true
# make's status (pipefail hides it behind grep): re-run quietly for the status
timeout 3000 make -j"${VERIF_JOBS:-12}" >/dev/null
mv -f model.ml model.mli "$ROOT/ocaml/" 2>/dev/null || true
cd "$ROOT/ocaml"
mkdir -p "$ROOT/bin"
timeout 600 ocamlfind ocamlopt -w -a -package str model.mli model.ml driver.ml -o "$ROOT/bin/driver" 
rm -f *.cmi *.cmx *.o
echo "build ok"
