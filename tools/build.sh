#!/bin/bash
# setup_cmd: full .vo build of the Coq development (make -k: one broken proof file does
# not stop the others; the per-property checks re-check their own Props/<id>.v and report
# a broken obligation as a violation of THAT property), hygiene grep, extraction,
# OCaml driver.  Offline; every step under a shell timeout.
# Exit status: 0 iff the models extracted and the driver was built.
set -uo pipefail
cd "$(dirname "$0")/.."
ROOT=$(pwd)
# one build at a time per checkout
exec 9>"$ROOT/.build.lock"
flock 9
python3 tools/gen_project.py || exit 2
cd coq
# hygiene: nothing that declares an axiom or switches a check off
if grep -rnE '\b(Admitted|admit|Axiom|Axioms|Parameter|Parameters|Conjecture|Abort All)\b|Unset Guard|bypass_check|type-in-type|impredicative-set|Admit Obligations|native_compute' \
     --include='*.v' . ; then
  echo "HYGIENE FAILURE: forbidden construct in the Coq development" >&2
  exit 2
fi
python3 "$ROOT/tools/check_sections.py" || exit 2
coq_makefile -f _CoqProject -o Makefile >/dev/null || exit 2
# each coqc under its own time/memory limit (a runaway proof search must not eat the machine)
export COQC="$ROOT/tools/coqc_limited.sh"
timeout 3000 make -k -j"${VERIF_JOBS:-12}" COQC="$COQC" 2>&1 | grep -v '^COQDEP\|^COQC\|^CAMLOPT' | tail -40
missing=""
for v in $(grep '\.v$' _CoqProject); do
  [ -f "${v}o" ] && [ ! "$v" -nt "${v}o" ] || missing="$missing $v"
done
if [ -n "$missing" ]; then
  echo "WARNING: these Coq files did not build:$missing -- the checks of the properties that need them will report it" >&2
fi
if [ ! -f Extract/Extract.vo ]; then
  echo "BUILD FAILURE: models did not extract" >&2
  exit 2
fi
[ -f model.ml ] && mv -f model.ml model.mli "$ROOT/ocaml/"
cd "$ROOT/ocaml"
mkdir -p "$ROOT/bin"
if [ ! -x "$ROOT/bin/driver" ] || [ model.ml -nt "$ROOT/bin/driver" ] || [ driver.ml -nt "$ROOT/bin/driver" ]; then
  timeout 600 ocamlfind ocamlopt -w -a -package str model.mli model.ml driver.ml -o "$ROOT/bin/driver" || exit 2
  rm -f *.cmi *.cmx *.o
fi
echo "build ok"
