#!/usr/bin/env python3
"""Write MANIFEST.json from the table below (keeps it valid and uniform)."""
import json, pathlib
ROOT = pathlib.Path(__file__).resolve().parent.parent
NOTE = ("Trusted: Coq 8.16.1 kernel (+vm_compute; no native_compute), no axioms (Print Assumptions checked on every run), "
        "extraction via ExtrOcamlBasic + ocaml/driver.ml (cross-checked by vm_compute in cases.v on every run), the "
        "correspondence harness under /verif/harness (generators, renaming, float->rational conversion, exception->enum), "
        "third-party libraries modelled by contract. ")
CHECKS = {
 'C16': dict(
   text="Theorems (Coq, for all inputs): the integer type chosen contains the rounded bounds and is the first candidate that does; "
        "every value between min and max fits after round-half-even; rounding moves a value by <= 1/2; identifier rewriting "
        "(Ensembl kept minus suffix, lookup, pairwise distinct placeholders, n_unmapped, recorded renaming = changed pairs); "
        "decision table (rejections, no-change => no file). Tie: choose_int_dtype on all type-boundary values, is_ensembl on "
        "generated strings, validate_h5ad end-to-end on generated files vs the extracted model, input digests before/after.",
   note="is_x_integers is an oracle input to the model; NaN/inf not modelled; sparse matrices without any stored value are "
        "excluded here (C05/C13); species auto-detection not exercised.",
   technique="Coq proof of hand-written Gallina model + differential correspondence check (extracted OCaml model vs real code)",
   ref="DESIGN.md section 7 C16"),
}
NOT_YET = {}
props = [json.loads(l) for l in (ROOT / 'properties.jsonl').read_text().splitlines() if l.strip()]
checks, na = [], []
for p in props:
    pid = p['id']
    if pid in CHECKS:
        c = CHECKS[pid]
        checks.append({
            'property_id': pid,
            'quick_cmd': f'./check {pid} --tier quick',
            'thorough_cmd': f'./check {pid} --tier thorough',
            'evidence_file': f'/verif/evidence/{pid}.json',
            'replay_cmd_template': f'./check {pid} --replay {{path}}',
            'engine': 'coq-model+correspondence',
            'level_claimed': {'category': 'proof', 'text': c['text'], 'design_ref': c['ref']},
            'level_note': NOTE + c['note'],
            'technique': c['technique'],
        })
    else:
        na.append({'property_id': pid, 'reason': NOT_YET.get(pid, 'check not built yet (work in progress; the technique applies, see DESIGN.md section 7)')})
m = {
 'version': 1,
 'setup_cmd': 'tools/build.sh',
 'hooks': {'guard': 'CELL_TYPE_MAPPER_VERIF', 'enable': 'no source hooks: the harness wraps module-level functions in its own interpreters (inherited by forked workers) when CELL_TYPE_MAPPER_VERIF=1',
           'baseline_off_cmd': 'python3 /verif/tools/baseline.py', 'source_commits': [], 'add_only': True},
 'engines': [{'name': 'coq-model+correspondence', 'path': '/verif/coq + /verif/harness',
              'serves_properties': [c['property_id'] for c in checks],
              'kind_free_text': 'Coq 8.16.1 development (Model/Proofs/Props), extracted to OCaml, differential harness in Python against /repo/src'}],
 'checks': checks,
 'notes': 'fix: commits in /repo: 96b10f0 (F11). Known findings: /verif/known_findings.json.',
 'not_applicable': na,
}
(ROOT / 'MANIFEST.json').write_text(json.dumps(m, indent=1) + '\n')
print(len(checks), 'checks;', len(na), 'not claimed')
