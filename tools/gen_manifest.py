#!/usr/bin/env python3
"""Write MANIFEST.json from the table below (keeps it valid and uniform)."""
import json, pathlib
ROOT = pathlib.Path(__file__).resolve().parent.parent
NOTE = ("Trusted: Coq 8.16.1 kernel (+vm_compute; no native_compute), no axioms (Print Assumptions checked on every run), "
        "extraction via ExtrOcamlBasic + ocaml/driver.ml (cross-checked by vm_compute in cases.v on every run), the "
        "correspondence harness under /verif/harness (generators, renaming, float->rational conversion, exception->enum), "
        "third-party libraries modelled by contract. ")
TECH = 'Coq proof of hand-written Gallina model + differential correspondence check (extracted OCaml model vs real code)'
CHECKS = {
 'C01': dict(
   text="Theorems (Coq, for every decision procedure returning one child of the asked parent per cell — asked only of parents with >= 2 children —, every valid taxonomy incl. "
        "single-child chains and single-node levels, every cell list and generator state): c01_path_consistent (a successful run_type_assignment yields one row per cell in "
        "cell order and every row is a root-to-leaf path of the tree), c01_total (the run does succeed), c01_election_with_the_vote (those hypotheses are met by the vote "
        "model itself, Model/VoteDecide.v: the election run with the vote is total and path-consistent) and c01_stage_one_record_per_cell (the mapping stage as a whole: for ANY "
        "split of the query into consecutive chunks, any per-chunk generator states and ANY completion order of the workers, gathering and re_order_blob yield exactly one "
        "record per query cell, in query order, each a root-to-leaf path — composing the routing model with the gather model of C04). Tie: (i) real run_type_assignment with "
        "_run_type_assignment replaced by a recorded-choice oracle on every tree shape up to 4 levels / 4-6 leaves + random trees vs the extracted model; "
        "(ii) real run_mapping pipeline runs (flatten, drop_level, both, chunk sizes, 1-4 workers, 11-40 cells, > 255 iterations, trivial chains at the top) with spec_routing, "
        "ids / order, flags and the output files checked on the observed records.",
   note="Model/VoteDecide.v composes parts that are each tied to the code (tally, votes, choose_node) with one fixed tie order; the composition itself is not run against the code. That consecutive chunks of every size tile the query is c05_chunks_cover, the completion of dropped / flattened levels is c17_backfilled_path; HDF5/anndata reading of obs "
        "and the JSON writer are not modelled. F1 (single top node -> KeyError) was repaired in /repo (df833cb).",
   technique=TECH, ref="DESIGN.md section 7 C01"),
 'C02': dict(
   text="Theorems: c02_vote_is_argmax (each bootstrap iteration votes for the first reference row whose exact Pearson correlation with the cell over the "
        "drawn marker subset is maximal), c02_key_lt_is_correlation_order (the integer comparison used IS c1/sqrt(v1) < c2/sqrt(v2)) and c02_key_order (a strict "
        "weak order), c02_subset_wellformed / c02_subset_size (an accepted draw is duplicate-free, within the n usable markers, of size max(1, round(f n)) which "
        "lies in [1, n] for every factor in (0,1]), c02_one_vote_per_iteration, c02_choose_node_meets_spec (choose_node — sort by votes, keep the first n_assign, "
        "drop vote-less runners-up — returns an outcome the acceptor check_choice accepts for EVERY permutation of the children with non-increasing votes, i.e. "
        "whatever numpy's argsort does with ties) and c02_winner_plurality (what acceptance means). Tie: choose_node on random dyadic matrices with a recording "
        "generator, and real run_mapping runs in which every (cell, node, iteration) vote is recomputed by the extracted model from the input files and the recorded "
        "subsets; winners, vote counts, runner-up multisets exact (check_choice evaluated on every reported record), correlations within 1e-9. "
        "Average correlation: c02_avg_corr_is_mean_of_own_votes / c02_aggregated_votes_exact / c02_aggregated_corr_exact (what the tally loop of tally_votes, the column sums of "
        "aggregate_votes and the quotient of choose_node leave for a reference type is the sum of the winning correlations of exactly the iterations whose nearest leaf it owns, over their "
        "number (or 1), for every number of iterations / leaves / types and every winner sequence) and c02_tally_order_irrelevant; tied by choose_node runs whose real per-iteration neighbours and "
        "correlations are recorded (correlations rounded to multiples of 2^-20 so that binary64 sums are exact): votes, probability and average correlation of the winner and every runner-up slot compared for equality (tag 203). c02_tally_array_refines_votes_for: the array built by the tally loop and aggregate_votes is the abstract vote function votes_for of the plurality theorems.",
   note="Float rounding inside np.dot/np.mean is not modelled (decisions compared, near ties with relative margin <= 1e-9 skipped and counted); "
        "rng.choice itself is not modelled (the recorded draws are checked to be duplicate-free and of the right size); dyadic bootstrap factors.",
   technique=TECH, ref="DESIGN.md section 7 C02"),
 'C03': dict(
   text="Theorems: c03_choose_node_contract (for every tie order of the sort, every vote function with `iters` votes and every n_assign >= 1 the outcome of "
        "choose_node has: a winner with the most votes and share wv/iters in (0,1]; at most n_assign-1 runners-up, distinct siblings other than the winner, strictly "
        "positive votes none above the winner's, non-increasing, the top vote getters; shares summing to <= 1 and to exactly 1 when every vote getter could be listed), "
        "c03_vote_record_accepted (every record of the modelled vote is such an outcome), the same clauses for any outcome the acceptor accepts (c03_probability_range, c03_runner_up_shape, c03_sum_at_most_one, c03_sum_exactly_one), "
        "c03_corr_range (-1 <= r <= 1 by Cauchy-Schwarz over exact integers), and at the level of run_type_assignment for every decision procedure and valid "
        "taxonomy: c03_aggregate_is_running_product and c03_single_child (a level below a single-child parent carries that child, probability 1, no runners-up and "
        "the correlation of the level above; 1 at a single top node), c03_avg_corr_range (the reported AVERAGE correlation of the winner and of every runner-up, corr_sum / where(votes>0, votes, 1), "
        "has |numerator| <= denominator whenever each per-iteration correlation lies in [-1,1]; a type without votes gets 0), c03_reported_avg_corr_ok and c03_filled_corr_in_range (after the two trailing passes of run_type_assignment - inheritance from the level above, 1.0 at the top, running product - "
        "EVERY level of every row, voted, single-child or inherited over any number of levels, carries a correlation fraction in [-1,1] whenever the voted ones are), c03_tallied_votes_total (on the array tally_votes + aggregate_votes build, the votes of the distinct types add up to the iteration count). Tie: every record of real run_mapping runs (iteration count 1, zero runners-up, more runners-up "
        "than siblings, single-child chains, flatten / dropped levels) checked against the contract through the extracted check_choice on recomputed votes.",
   note="The [-1,1] clause is checked on the implementation with a 1e-9 allowance (real outputs contain 1.0000000000000002), the model proves it "
        "exactly; aggregate probability compared with the float running product within 1e-12.",
   technique=TECH, ref="DESIGN.md section 7 C03"),
 'C04': dict(
   text="Theorems: c04_mapping_schedule_independent (shared-list path: any two completion orders give the same final list, given distinct cell ids — shown necessary by "
        "c04_duplicate_ids_refuted), c04_mapping_buffer_files_independent (the buffer-file path run_mapping uses: unconditionally), c04_final_is_query_order, "
        "c04_seeds_fixed_at_dispatch and c04_seed_of_worker_schedule_independent (the seed of chunk i is the i-th draw of the parent stream whatever the schedule and worker "
        "count), c04_same_chunks_same_result (worker counts inducing the same effective chunk size give the same mapping), c04_stats_merge_order_fixed (for a non-associative add), "
        "c04_marker_merge_sorted, c04_selection_keyed_by_parent, c04_selection_result_order_independent / _keys / _total (the returned lookup lists the parents in parent_list order whatever the completion order: finding F19c04, repaired in /repo 9a355c6), c04_pool_invariant, c04_selection_schedule_independent, c04_cache_sorted_by_reference_index / c04_cache_groups_strictly_sorted / c04_cache_independent_of_listing (the marker cache depends only on the SET of genes under each key: where hash-seed dependence would enter). Tie: the real stages (run_mapping, run_type_assignment_on_h5ad, statistics, markers, p-value mask, selection) under "
        "every completion order of 3 (quick) / 4 (thorough) workers forced by harness-side delays, worker-count sweeps 1..6, and fresh interpreters under several PYTHONHASHSEED "
        "values; outputs compared bitwise; observed chunks, completion order and per-worker seeds compared with the model.",
   note="c04_same_chunks_same_result carries 1 <= c (chunk size 0 makes the real iterator yield empty chunks for ever); c04_stats_merge_order_fixed fixes one worker count (another count is another split: sums agree to rounding only, which is what C09 promises). Worker sweep of the marker stage on references with identical twin clusters; "
        "forced completion orders always include the one that keeps both ends in place. After the audit of section 15: stats_result folds the buffers in the order read off the EStart events of the log and c04_stats_buffer_order_is_dispatch_order proves that order is seq 0 k for every world; "
        "mapping_result takes the world and the worker count (c04_same_chunks_same_result: equal effective chunking, any clean worlds, any append orders -> the sequential result; c04_small_chunk_size_used_as_given; tie tag 407); "
        "the final drain of select_all_markers no longer extends completed_parents in the model (as in the code: observed through the frame's locals), c04_pool_invariant at every state of the outer loop, c04_pool_invariant_after_final_drain. "
        "Partial by nature: real scheduling, Manager proxies and the absence of other nondeterminism (shared state, set/dict order) are established only by the bitwise runs. "
        "per-chunk work is an abstract function.",
   technique="Coq proof of hand-written Gallina model + correspondence check (real stages under controlled schedules / hash seeds, bitwise comparison and model replay)", ref="DESIGN.md section 7 C04"),
 'C05': dict(
   text="Theorems: c05_chunks_cover (for every row count and chunk size >= 1 the chunk list starts at 0, is contiguous, has no empty chunk, ends at n and concatenating "
        "the row blocks gives the matrix: every row exactly once, in file order), c05_load_csr_exact, c05_iterate_csr_exact, c05_iterate_dense_exact, "
        "c05_iterate_csc_exact (the CSC path: on-disk conversion for every memory budget and load chunk size, then CSR, returns exactly the rows of the transpose "
        "of the column-major view) and c05_encodings_agree (dense, CSR and CSC encodings of one matrix iterate to the same rows), and the get_batch theorems (see note). Tie: AnnDataRowIterator / get_batch / "
        "inner functions on generated matrices (empty rows and columns, one row, >100 stored values) x {dense, CSR, CSC} x {X, layer} x dtypes x HDF5 chunk shapes x "
        "chunk sizes x max_gb down to the enforced minima, vs the extracted model.",
   note="Last sentence of the property: c05_encodings_same_rows_for_consumers / c05_encodings_same_stream / c05_stats_same_for_all_encodings (any function of the row stream, in particular Stats.precompute, agrees across dense / CSR / CSC); "
        "operation sequences on one iterator object (next() interleaved with get_chunk / get_batch / __getitem__) are part of the tie. get_batch is proved too: c05_get_batch_exact / c05_load_disjoint_exact / _dense / _csc (every non-empty duplicate-free in-range row list returns those rows in the requested "
        "order) and c05_get_batch_rejects / _dense / _csc (empty, duplicate or out-of-range lists yield an error, never wrong rows); "
        "h5py slicing and scipy toarray are trusted; F2c (CSC matrix without any stored value made the conversion raise) was repaired in /repo (2b803dd).",
   technique=TECH, ref="DESIGN.md section 7 C05"),
 'C07': dict(
   text="Theorems over an exact-arithmetic model of the normalisation path (CPM as fractions; log2(1+.) an arbitrary function of the value): c07_scale_invariant "
        "(+ rational form), c07_raw_equals_declared_normalised (normalisation happens on the full gene set before marker down-selection), c07_gene_permutation "
        "(columns and names permuted together leave every per-parent query matrix unchanged, for every bootstrap factor since subsets index the reference-ordered marker "
        "list), c07_extra_genes_irrelevant, c07_only_marker_values_by_name_matter, c07_negative_raw_rejected, c07_normalise_after_downsample_rejected (with an example "
        "showing the guard matters). Tie: convert_to_cpm (exact stream / 1e-12 stream decided per row), CellByGeneMatrix constructor and random operation sequences, "
        "write_query_markers_to_h5 + is_data_ge_zero + AnnDataRowIterator + assemble_query_data vs prepare_query, plus paired real run_mapping runs (raw vs "
        "pre-normalised, scaling, gene permutation, extra genes, negative value rejected).",
   note="c07_float_sum_exact_every_bracketing (any binary tree of float32 additions over a row whose sum is <= 2^24 is exact: numpy's pairwise summation included). After the third audit: the *_vote theorems are corollaries by construction (c07_same_votes_is_eq: same_votes m1 m2 <-> m1 = m2; said so); the bridge with content is c07_prepared_row_is_the_compared_row (lists and indices derived from the real cache: the row prepare_query hands over is, column for column, "
        "the row the reference side of C18 is compared with). Domain: integer counts whose row sums (x k) are exact in the storage dtype (< 2^24 float32, < 2^53 float64): c07_float_sum_exact_below_2_24, c07_float_sum_order_matters; outside it the real code is generated and judged too: "
        "rounding-level change under scaling is allowed by the property, a permuted raw non-integer file that is not bitwise equal is the known finding F28. c07_guard_lost_by_downsample_cells (observation). Same-path histories (clean then negative file) are part of the tie. "
        "The theorems are about prepare_query (the per-parent query matrices); the bridge to the result is proved: c07_equal_profile_equal_vote / c07_equal_parent_matrix_equal_vote (equal rows on a parent's markers -> equal vote_record and decide_vote, generator state included) "
        "and the composed c07_scale_invariant_vote, c07_scale_invariant_rational_vote, c07_raw_equals_declared_vote, c07_gene_permutation_vote, c07_extra_genes_vote, c07_only_marker_values_by_name_vote; c07_scale_invariant_rational_matrix lifts the rational factor to the matrix. "
        "Raw counts and factors are integers (or a rational factor between two integer matrices): the harness generates integer counts and says so in its evidence; non-integer factors change log2CPM by ~1e-15 in the real code, which the property allows (bitwise only for permutation / extra genes). The only assumption about log2(1+.) is "
        "that it depends on the value of its argument alone. Floating-point rounding is outside the model: values compared exactly where every float operation is "
        "exact by construction, at 1e-12 relative otherwise; run_mapping pairs bitwise for permutation / extra genes / power-of-two scaling, 1e-9 otherwise.",
   technique=TECH, ref="DESIGN.md section 7 C07"),
 'C09': dict(
   text="Theorems: c09_additive, c09_commutative_monoid, c09_order_irrelevant; c09_partition_independent (+ pairwise form: for every split of the cells into files, every "
        "rows_at_a_time >= 1 and worker count >= 1 the written table equals the direct per-cluster computation), c09_unlabelled_contribute_nothing, c09_work_split_safe / "
        "c09_work_split_covers (no IndexError, the loads partition the chunk list), c09_rows_addressed_by_name, c09_merge_keeps_largest, c09_merge_tie_rule, "
        "c09_truncation (full: the truncated file holds the tree with the levels dropped, again valid, and for every new leaf the statistics of exactly the cells below it = direct computation against the coarser hierarchy; leaf level and several levels included), c09_truncation_total(_writer), c09_truncation_partial, c09_truncation_groups, c09_collapse_is_additive, c09_merge_idempotent, c09_merge_order_irrelevant(_without_ties), c09_merge_names_matter_with_ties. "
        "Tie: precompute_summary_stats_from_h5ad[_list_and_tree], truncate_precomputed_stats_file, merge_precompute_files on generated references x file splits x encodings "
        "x rows_at_a_time x workers vs the extracted model.",
   note="c09_unlabelled_contribute_nothing is now the file-level statement (a file with unlabelled cells gives the table of the file without them, for every chunking and worker count of either run) and c09_only_labelled_cells_matter generalises it; "
        "ge1 is modelled as the code computes it (log2(CPM+1) > 1 - 1e-6): c09_ge1_against_exact (gt1 <= exact >= 1 count <= ge1; equality on grids of step 1/D, D <= 999999, and on integer data), c09_ge1_exact_refuted (known finding F26: a cell with 0.9999986 < CPM < 1 is counted as 'at least 1'). "
        "Float summation not modelled: sums exact on dyadic inputs, within 2(n+2) eps sum|x| on raw counts. F2s (CSC file without stored values) repaired in /repo (2b803dd).",
   technique=TECH, ref="DESIGN.md section 7 C09"),
 'C11': dict(
   text="Theorems: c11_holm_tie_invariant (for every argsort result), c11_restricted_holm_equiv / _decisions (the restricted Holm variant decides exactly as full Holm at "
        "p_th), c11_boring_exact_p_ge / c11_boring_t_sound / c11_boring_t_sound_code (skipping |t| <= boring_t changes no decision, under explicit premises about scipy's CDFs: Student CDF monotone and symmetric, t_cdf(-x) >= norm_cdf(-x)), c11_boring_t_sound_partial, c11_penetrance_sound (no margin needed since the repair of F8 in /repo e33b45d), c11_penetrance_complete, c11_sound, "
        "c11_sound_full_holm, c11_complete, c11_exact_iff, c11_direction, c11_up_down_exact, c11_no_gene_both_ways, c11_up_down_cover, c11_pair_swap, c11_chunk_merge "
        "(every n_per), c11_worker_independent, c11_tables_total, c11_empty_direction_table (F17 repaired in /repo 90f7980), c11_mask_file_exact, c11_mask_file_strict_is_zero, c11_mask_route_sound, c11_mask_route_complete. Tie: correct_ttest / "
        "approx_correct_ttest / penetrance tests / score_differential_genes / _get_validity_mask on a dyadic grid where binary64 is exact, and both marker routes end to end "
        "on generated statistics files vs the extracted model.",
   note="F35 (int64 wrap of n**3 for clusters above 2^21 cells) found by auditing the model and fixed in /repo 0bfa522; c11_cells_in_int64_range_no_wrap, big-cluster tie against the exact rational formula; c11_composed_premises_and_recorded_gene (an oracle meeting the premises that records a gene). After the third audit: the from-stats theorems carry `off_threshold` (no rational score equals a threshold or floor: where one does, binary64 decides — qdiff = 7/10 is 0.7000000000000001 — counted per run under c11_threshold_hit_exactly on ~2700 enumerated count quadruples); "
        "variance, means and fold are float-faithful (Model/Welch.v `fl`: round-to-nearest-even to 53 bits in Z arithmetic; compared bit for bit with numpy on non-dyadic constants, negative float variances included); the p-value oracle is a function of the modelled statistic (t_cdf : tnu -> option Z, a table on the wire; "
        "c11_equal_statistic_equal_p, c11_nu_matters) and c11_sound_exact_welch_composed derives the skipped-gene premise from the boring premises; c11_welch_constant_gene + known finding F33 (a gene constant in both clusters with exactly-zero float variance is never a marker although maximally different; with a rounding residue it is). "
        "c11_boring_exact_p_ge / c11_boring_t_sound / _code rest on premises about scipy's Student CDF on [-boring_t, boring_t] (end points end_lo / end_hi per occurring nu, monotonicity, NaN convention) that the harness CHECKS on every (t, nu) that occurs "
        "(class c11-boring-premise-false-on-occurring-value); c11_boring_needs_end_lo shows the premise is necessary and it fails for nu above ~3e6..9e6 (known finding F22, reproduced on the real score_differential_genes). "
        "Model/Welch.v derives t^2, sign, nu, penetrances, q-scores, fold and means from summary-statistics rows (IEEE corner cases n = 0, n = 1, zero variance explicit): c11_sound_from_stats, c11_complete_from_stats, c11_sound_exact_welch, c11_welch_route_decisions, "
        "c11_welch_zero_variance / _p_nan / _empty_cluster, swap symmetry proved (c11_welch_swap_statistic / _boring / _scores / _p with c11_welch_swap_p_clip_caveat); tie tags 1150-1154 on exact-grid inputs with scipy's t.cdf as a per-gene oracle. "
        "c11_tables_transpose: the pair-major marker table is wf_comp, so C13's transpose theorems apply to it. pair_wf and 1 <= np are explicit hypotheses (ragged input / zero workers raise in Python: totalisation_cases). The big_nu approximation is not covered (both routes pass None). Known finding F16 (mask route has no n_cells_min test); F8 and F17 repaired in /repo.",
   technique=TECH, ref="DESIGN.md section 7 C11"),
 'C10': dict(
   text="20 theorems over unbounded trees about a model of validate_taxonomy_tree, get_taxonomy_tree, get_child_to_parent, convert_tree_to_leaves, get_all_leaf_pairs, _drop_level, "
        "flatten, to_str(drop_cells) and backfill_assignments: c10_validate_sound / _exact / _complete / c10_mutants_rejected (the validator accepts exactly the strict trees and "
        "rejects every one-edit mutant class, a child listed twice included — finding F3, repaired in /repo ce0265d), c10_validate_exact_dict, c10_from_labels_exact, c10_parent_child_inverse, "
        "c10_leaves_partition, c10_leaves_by_ancestor and c10_leaf_pairs_exact (now for EVERY accepted tree), c10_validator_gaps (childless inner nodes and empty levels are still accepted), "
        "c10_drop_preserves, c10_drop_errors, c10_drop_many_preserves, c10_drop_keeps_leaf_lists, c10_drop_leaf_preserves, c10_flatten_preserves, c10_roundtrip_preserves, "
        "c10_backfill_spec, c10_backfill_fills. Tie: every tree shape with <= 4 levels and <= 5 (quick) / 6 (thorough) leaves in canonical and shuffled variants, random larger trees, "
        "one-edit mutants, label tables (also through from_h5ad), random drop sequences and backfill records, through every public TaxonomyTree method vs the extracted model.",
   note="NoDup hierarchy is a stated precondition (the validator guarantees it since /repo 8a57862: finding F29, a repeated level name, fixed); leaf names with '/' are generated. Serialise / re-read: Model/TreeReread.v (clean_for_json sorts sets only; which collections are sets is an explicit flag list), c10_child_order_irrelevant, c10_reread_preserves, c10_reread_shape, tie tag 1050 against from_str(to_str()) and json round trips; "
        "queries on non-nodes: c10_queries_total_on_nodes, c10_drop_preserves_on_nodes, c10_roundtrip_on_nodes (the checked queries raise where the code raises); c10_backfill_models_agree links Tree.backfill and RunMapping.backfill; "
        "the tree must not alias the caller's dict (in-place edits of the source, all queries re-asked) is part of the tie. F3 (validator accepted a child listed twice) was repaired in /repo (ce0265d); the model follows the repaired validator and the statements that needed repetition-free child lists "
        "now hold for every accepted tree. from_data_release / from_precomputed_stats / from_json_file constructors not exercised; level names distinct and not reserved keys.",
   technique=TECH, ref="DESIGN.md section 7 C10"),
 'C12': dict(
   text="17 theorems about the model of _run_selection, for every legal choice sequence (the tie order of argsort is an input): c12_invariant (+ _initially, _preserved), "
        "c12_filled_monotone, c12_terminates (<= n_genes+1 passes), c12_progress, c12_terminates_fuel, c12_no_duplicates, c12_only_useful_genes, c12_nothing_to_discriminate, "
        "c12_coverage (every pair gets >= min(2n, available) selected markers, under 'no gene marks a pair both ways'), c12_hypothesis_checkable, c12_spec_holds, "
        "c12_pair_order_irrelevant, c12_greedy_order_irrelevant, c12_behemoth_order_is_permutation, c12_thinning_sound. Tie: trace refinement — the gene sequence returned by "
        "select_marker_genes_v2 / _run_selection is replayed through the model (every step legal, finished exactly at the end; mutilated sequences must be rejected) and census, "
        "final utility array and statistics compared; select_all_markers / create_marker_gene_lookup_from_ref_list over workers 1..4 x behemoth cut-offs {0,1,1e9}; independent census.",
   note="Composed: c12_numpy_pair_order_composed / c12_numpy_threshold_composed (for an is_argsort sorter both runs end WKDone with permuted chosen lists, same counts / flags / utility), c12_parent_run_has_pairs_batch (+ three by-construction lifts); the legality / spec theorems carry no_gene_both_ways and pairs <> [] (where Python raises AssertionError / ValueError: Examples); genes_at_a_time = 0 spins for ever in the real code (observed, outside the quantifier). numpy's own rule is proved legal: c12_numpy_rule_is_legal / _meets_spec (+ _batch for every k) for every sorter satisfying is_argsort (checked on every np.argsort result the harness hands to the model; c12_an_argsort_exists); "
        "pair-order, threshold and names theorems for every genes_at_a_time: c12_batch_pair_order_irrelevant, c12_batch_threshold_core / _irrelevant, c12_batch_selected_names_are_query_markers, c12_select_with_is_k1, c12_select_parent_is_k1 (tie tags 1264-1266, k in {2,3,5}). "
        "Every genes_at_a_time >= 1 (Model/SelectionK.v: argsort only when a slot was newly filled, k pops with nothing recomputed, breaks only between batches): c12_batch_one_is_step, c12_batch_no_duplicates, c12_batch_coverage, c12_batch_spec_holds, "
        "c12_batch_trace_legal (a batch has 1..k genes, each of positive and maximal utility; shorter than k only when nothing useful is left), c12_batch_invariant_preserved, c12_batch_terminates, c12_batch_iterations_bounded, "
        "c12_batch_length_exact, c12_batch_genes_are_markers, c12_batch_full_invariant_preserved; the model first showed that for k >= 2 the real loop selected genes marking no pair of the parent and could raise IndexError / RuntimeError on valid tables (findings F23-F25): "
        "repaired in /repo (0bb86f4: a batch stops early when no useful gene is left), and the three refutations became the positive c12_batch_in_query_and_marker, c12_batch_never_raises, c12_batch_full_spec (spec_c12 on every completed run, every k). np.argsort tie order is an input for the trace replay, and the code's own rule is modelled too: run_with / select_with for an arbitrary pick rule of the utility-array history, pick_pop = numpy's stale-argsort pop for ANY argsort (c12_pick_function_order_irrelevant, c12_rules_respect, c12_select_with_is_legal_run, c12_greedy_is_pick_instance, c12_recorded_trace_is_pick_instance; tie tags 1262-1263: the real np.argsort results handed back as a table, gene by gene); the behemoth / downsampled table is modelled (downsample_pairs) and proved to carry the same marks (c12_downsample_preserves_marks, c12_threshold_core, c12_threshold_irrelevant; tie 1260); per-parent loop with short-circuit, overlap refusal and override lookup (select_parent: c12_parent_short_circuit, c12_parent_run_has_pairs, c12_empty_overlap_refused, c12_overlap_needed, c12_override_applies_to_its_parent_only; tie 1261 against select_all_markers); c12_selected_names_are_query_markers states the clause by gene NAME of the reference file; c12_greedy_order_irrelevant is about a tie-break the code does not use (kept, labelled); the coverage theorem's hypothesis (no gene both ways) is checked on every generated table and shown "
        "necessary by an Example; several reference files, parent_list and drop_level not exercised.",
   technique="Coq proof of hand-written Gallina model + trace-refinement correspondence check (choice sequences of the real code replayed through the extracted model)", ref="DESIGN.md section 7 C12"),
 'C13': dict(
   text="Theorems: c13_count_pass (chunk-size independence), c13_transpose_exact (the Gallina model of transpose_sparse_matrix_on_disk — count pass, block loop with fuel, "
        "load chunks, next-free-slot table — equals the abstract transpose for every well-formed input, slice, elements_at_a_time and chunk sizes >= 1: monotone pointer array "
        "from 0 to nnz, indices sorted within each row, every value at its transposed position, termination within the fuel), c13_transpose_is_spec, c13_transpose_pattern, "
        "c13_block_loop_terminates, c13_transpose_empty_slice, c13_parallel_concat (the parallel version equals the serial specification, totally, for every worker count >= 1), "
        "c13_parallel_empty, c13_slices_partition, c13_copy_h5_1d/2d, c13_copy_layer_sparse/dense. Tie: every 0/1 pattern up to 3x3 (quick) / 4x4 (thorough) + random larger matrices "
        "through transpose_sparse_matrix_on_disk, csc_to_csr_on_disk, the v2 parallel version (1-4 workers), pivot_csr_h5ad, shuffle_csr_h5ad_rows, subset_csc_h5ad_columns, "
        "amalgamate_h5ad, copy_layer_to_x, copy_h5_excluding_data, with observed loop bounds compared to the model's.",
   note="value clauses of the transposition theorems carry `use_data = true -> no_dup_minor m` (with duplicate (row, col) entries np.argsort is unstable and the real values depend on the worker count: c13_example_duplicates_excluded); mixed-dtype amalgamation (F27, fixed) is generated. Guards made explicit after the audit (section 15): a slice has lo <= hi (c13_parallel_slices: the only caller never hands out another one), the pointer array is well formed in c13_transpose_is_spec / c13_parallel_concat, "
        "c13_count_pass needs minor indices < n (Python raises IndexError otherwise), c13_amalgamate's dense clause needs a source and a column; c13_parallel_exact (direct value clause), c13_copy_layer_dense_total, "
        "c13_amalgamate_rowcount_unchecked (amalgamate_csr_to_x never validates the row count: the model now does what h5py does; tie harness/props/c13_guards.py). shuffle / subset / amalgamate are proved too: c13_shuffle_rows (every permutation; the non-permutation reading refuted by c13_shuffle_rows_sublist_refuted: shuffle_csr_h5ad_rows does not "
        "validate its order), c13_subset_columns, c13_amalgamate, c13_amalgamate_join, c13_amalgamate_wire; gzip not modelled; "
        "the zero-size-chunk family (F2, F2w, F4, F4z, F4m, F2a, amalgamate-empty-piece, copy-layer-empty-sparse) was repaired in /repo (2b803dd); the model follows the repaired code.",
   technique=TECH, ref="DESIGN.md section 7 C13"),
 'C17': dict(
   text="Theorems over a model of _run_mapping's data flow (reduce -> election on the reduced tree -> directly_assigned -> backfill with the stored tree), generic in marker cache "
        "and vote: c17_drop_equals_reduced (records at all other levels equal those of the run on drop_level t L; at L the parent of the finer assignment, flagged inferred, "
        "no runner-up fields), c17_flatten_equals_one_level, c17_drop_absent_level_noop, c17_backfilled_path (the completed cell is a flagged root-to-leaf path of the stored "
        "tree), c17_no_key_error, c17_total, c17_reduced_tree_parents (ancestors in the reduced tree = stored ancestors without the dropped level). Tie: real drop_level / flatten / backfill_assignments on every tree shape up to 4 levels x every droppable level / flatten / absent "
        "level vs the model; every query (parents, children, as_leaves, leaves_to_compare) of the really reduced TaxonomyTree vs the model's reduced tree; oracle election on the really reduced tree; paired real run_mapping runs compared bitwise and replayed through the model.",
   note="Instantiated with the real marker model (Model/RunMappingMarkers.v: cache_ok := create_cache = MOk, decide reads the table through Markers.used): c17_removed_entries_same_lists, c17_drop_named_equals_reduced_filtered, c17_drop_equals_never_had_level_refuted (an entry of the removed level holding a gene unknown to the reference makes cache creation fail although validation never consults it; with the same file both real runs raise alike). "
        "Absent drop levels with prefix-like names, absent+flatten and per-level bootstrap lookups are part of the paired runs. c17_drop_equals_reduced / c17_flatten_equals_one_level compare two runs that execute the same election on the reduced tree (c17_both_runs_same_election says so); what they prove is the backfill relation; strict forms without the KeyError alternative: "
        "c17_drop_equals_reduced_strict, c17_flatten_equals_one_level_strict. Marker-table keys: Model/RunMappingKeys.v rekey, c17_marker_key_convention, c17_drop_equals_reduced_named, c17_flatten_ignores_keys, c17_removed_entries_not_consulted (tie tag 1707 against the real validate_marker_lookup on the really dropped tree). "
        "Vote, marker reconciliation, chunking and re-ordering are abstract or outside RunMapping.v (C02/C08/C01/C04); tree_ok adds 'no childless internal node' to the "
        "validator's guarantees (F3).",
   technique=TECH, ref="DESIGN.md section 7 C17"),
 'C19': dict(
   text="Theorems about an executable acceptor of file-operation traces (Model/FsModel.v): c19_acceptor_sound (every accepted trace leaves each input with its content, "
        "restores scratch after ok and strict-error returns, creates only at declared outputs), c19_stale_independence (acceptance and final outputs do not depend on stale "
        "content of scratch/output directories that avoids the fresh names), c19_concurrent_noninterference (every interleaving of two compatible accepted runs is accepted "
        "and each ends as in its solo run). Tie: the four real stages run under strace -f in child interpreters; parsed traces decided by the extracted acceptor, the model's "
        "final file system compared with the observed listing; digests, listings and results compared with an undisturbed run; histories: success after success / failure / "
        "injected worker failure, stale files under every temporary-name pattern, obsm_key, concurrent pairs replayed as one interleaving, direct calls of the type-assignment stage with a shared results_output_path (stale buffers under every plausible name), runs without a scratch directory (system temp and working directory observed).",
   note="After the fourth audit: the tracker premise demands only that no path handed to the tracker is written by the environment (the query excepted when obsm_key stores results in it: life_premise_ow), evaluated on a first run, a second run into the same output paths and an obsm run per check (c19_tracker_premise_ow, c19_tracker_premise_inputs); "
        "the probing programs make k further Stats before the probe (c19_real_probe_is_instance: k = 1, the lstat of the symlink fix). Acceptor: Stat observations (refused on stale entries: code 12), a pre-existing declared output is never deleted (code 13, c19_preexisting_output_never_deleted), programs (functions from the observation history to the next op): c19_stale_independence_program, c19_program_run_is_accepted_trace, "
        "c19_stale_independence_up_to_probes (fresh vs stale outputs: traces equal after erasing the probe ops). Tracker theorems hold relative to the set of paths the environment writes (no protocol assumed); c19_tracker_premise + tag 1954: the premise is evaluated on a recorded real run_mapping life on every run. "
        "F30 (probe through a dangling symlink) fixed in /repo ecb653f. FileTracker + mkstemp_clean + _clean_up are modelled as a state machine (Model/Tracker.v) with theorems over arbitrary op sequences of one tracker life: c19_tracker_inputs_untouched (+ _no_tmp_refuted: with tmp_dir=None the real_location IS the input), "
        "c19_tracker_scratch_empty, c19_tracker_outputs_only_where_requested, c19_tracker_location_holds_last_write, c19_tracker_copy_faithful, c19_tracker_independent_of_stale, c19_tracker_life_keeps_wf; tie tags 1950-1953 (real FileTracker lives, state compared after every call). "
        "Partial by nature: the acceptor theorems speak about accepted traces; that real runs produce accepted traces is established only for the runs traced. tempfile uniqueness, CPython "
        "destructor timing, HDF5's O_RDWR probe and stat-like probes are outside the model. F9 / F9c / F9d (result buffer and query-marker file left behind by failed runs or runs without a scratch dir) were repaired in /repo (70038ee); F9b (log appended to an earlier log) stays a known finding.",
   technique="Coq proof of hand-written Gallina acceptor model + correspondence check (strace'd traces of the real stages decided by the extracted acceptor)", ref="DESIGN.md section 7 C19"),
 'C06': dict(
   text="Theorems: c06_factor_one_subset_is_everything (with bootstrap factor 1 every acceptable draw, sorted as tally_votes sorts it, is the whole marker "
        "list 0..n-1 whatever the generator returned), c06_nearest_independent_of_draw, c06_factor_one_tally and c06_factor_one_unanimous (hence every iteration is won by the same leaf: probability 1, no runner-up, a function of the cell alone — also checked on every real factor-1 run), c06_vote_at_factor_one_is_per_cell (the vote model at factor 1 meets the per-cell hypothesis); c06_per_cell (for EVERY decision procedure whose record for a cell "
        "is a function of that cell alone, every valid taxonomy, cell list and generator state, run_type_assignment — shared previously_assigned tables, "
        "write-back by row index, visits in sorted node order — equals, row by row, the per-cell recursion map_one down the tree); corollaries "
        "c06_same_cell_same_row (permutation, subset, superset, duplication: same cell, same row, at any positions of any two runs) and c06_chunking (any split "
        "into chunks run from any generator states concatenates to the whole run). Tie: (i) real run_type_assignment with the per-cell recorded-choice oracle on "
        "cell lists and their permuted / thinned / duplicated versions vs map_one (extracted, tag 601); (ii) paired real run_mapping runs at factor 1: permutation, "
        "subset, superset, duplicated rows, other chunk sizes / worker counts / encodings, raw vs log2CPM input, joined on cell id.",
   note="That the real _run_type_assignment at factor 1 is per-cell (normalisation row-wise, correlation of a row with the reference independent of the other rows) "
        "is established by the paired runs, not proved; correlations compared within 1e-9 because BLAS may sum in a different order when the company changes.",
   technique=TECH, ref="DESIGN.md section 7 C06"),
 'C08': dict(
   text="Theorems (for every tree, marker table, query/reference gene lists, min_markers): c08_used_equals_spec (genes used for a parent with >= 2 children "
        "= own list intersected with the query if large enough, else the minimal union with the nearest ancestors / root, computed from the ORIGINAL table: "
        "ancestors are unpatched when consulted), c08_fallback_minimal, c08_fallback_bounds, c08_reported_equals_used, c08_pairing_by_name, "
        "c08_pairing_columns, c08_used_in_query_and_reference, c08_single_child_needs_none, c08_unneeded_entry_never_fails / c08_single_child_entry_never_fails / c08_not_a_parent_needs_none / c08_no_overlap_only_for_needed (finding F7, repaired in /repo 05db7b2: an entry that needs no markers never makes cache creation fail), c08_errors_root, "
        "c08_errors_unknown_to_reference, c08_errors_unknown_marker, c08_accepted_demands_nothing, c08_errors_no_shared_marker, c08_flatten_unions, c08_flatten_tree. Tie: validate_marker_lookup + "
        "create_marker_cache_from_specified_markers + serialize_markers on generated (tree, table, gene orders, min_markers 0..6), HDF5 cache re-read, "
        "error kinds through an enum, vs the extracted model.",
   note="Names contain no '/'; 'metadata'/'log' keys of the table ignored; F7 (entry of a parent that needs no markers aborted cache creation) was repaired in /repo (05db7b2); the model follows the repaired code.",
   technique=TECH, ref="DESIGN.md section 7 C08"),
 'C14': dict(
   text="Theorems: c14_pool_raises (the dispatch/drain loop with either exit-code inspector, for every world of exit codes and termination times, bound n >= 1 and worker count: "
        "never hangs; Ok implies every code is 0; some non-zero code implies a raise naming a dispatched worker and its code), c14_no_unchecked_pop, c14_single_failure_reported, "
        "c14_abnormal_codes, c14_mapping_effects / c14_failed_run_effects / c14_any_inner_failure / c14_failed_trace_has_property (a failing assignment gives run_mapping's failed-run "
        "effect trace for all 256 configurations: re-raise, log with traceback written, JSON/HDF5 with config/log/metadata only, no results, no CSV, no success message), "
        "c14_no_complete_output (none of the six stage descriptions reaches its completing effect after a failing worker), c14_result_buffer_removed_on_every_path / c14_result_buffer_cleaned (after the repair of F9 in /repo 70038ee), c14_selection_scheduler / _partition (the behemoth scheduler of select_all_markers never hangs for a duplicate-free parent list; Ok implies every parent was started and every code is 0; a non-zero code implies a raise), c14_selection_limits, c14_selection_duplicate_parent_refuted (a duplicated parent makes the loop spin: reproduced on the real code, direct API callers only). Tie: the real loops run "
        "against stand-in processes following the model's world (virtual schedules) and exhaustive fault injection with forked workers — 3 failure modes (SIGKILL, os._exit(3), raise) x "
        "3 crash points x every worker on all six stages (+ the nested transposition) — observing exception, exit codes, listings after all descendants exit, JSON/HDF5 keys, log text "
        "and whether the next stage accepts what is left.",
   note="A failure of the body AND a failure inside `finally` are both modelled (run_mapping c bf ff; propagated : ExNone | ExBody p | ExFin p ctx; fail points PLogFile, PReadUns, PJson, PHdf5): c14_body_and_finally_failure, c14_propagated_exception, c14_worker_failure_and_finally_failure, "
        "c14_log_written_after_worker_failure_refuted (known finding F34: a failing worker with log_path a directory: no log is written); the theorems about a failing body carry fin_quiet (the finally writes succeed); 11 real scenarios incl. the exception's __context__ chain; c14_raises_means_exception (SystemExit / KeyboardInterrupt are not `Exception`: tie 1407). c14_abnormal_codes needs exit_arg_ok (-2^31 <= k < 2^31: os._exit(2**31) raises OverflowError and exits 1) and terminating_signal (Model/ExitCode.v, checked with all 64 signals); failure points inside `finally`: c14_failure_in_finally_after_success, c14_hdf5_failure_effects "
        "(an unwritable HDF5 path raises after the success message: no worker failed, so outside the property's antecedent; observed). exit codes are modelled mod 256 (c14_abnormal_codes, c14_exit_256_refuted: os._exit(256) is invisible to the parent; tie tag 1406 on real forked workers); c14_failed_run_leaves_query_untouched, c14_early_failure_no_obsm; "
        "c14_failed_trace_has_property and c14_no_complete_output are finite checks GIVEN the transcription of the stages in Model/Pool.v / RunEffects.v (said so in their comments); completed_parents of the selection scheduler is observed through the frame's locals. "
        "Partial by nature: the OS, multiprocessing and the stage code's conformance to the models are validated by controlled runs, not proved. A hanging worker, a dying Manager process and a crash of the parent are not modelled. The clean-up race of the finally blocks (siblings "
        "still writing when the parent removes the scratch dir: OSError replaces RuntimeError about 1 in 300) is an oracle input.",
   technique="Coq proof of hand-written Gallina model + correspondence check (fault enumeration on the real stages and virtual-schedule runs of the real loops vs the extracted model)", ref="DESIGN.md section 7 C14"),
 'C15': dict(
   text="Theorems: c15_hdf5_roundtrip (hdf5_to_blob (blob_to_hdf5 b) = b for every well-formed blob with per-level uniform directly_assigned flags) with "
        "c15_roundtrip_without_uniform_flags_refuted (necessity), c15_csv_rows, c15_four_decimals (+ c15_csv_confidence_four_decimals_refuted), "
        "c15_query_order, c15_tree_reconstructs. Tie: generated result blobs (depth 1-5, names with commas/quotes/newlines, 0..k runners-up, inferred "
        "levels, malformed stream) through the real blob_to_csv / blob_to_hdf5 / hdf5_to_blob / re_order_blob / to_str-from_str vs the extracted model.",
   note="c15_csv_text_of_blob_roundtrip is stated for blob_to_csv_text_auto: NoDup on the readable-name STRINGS, names_defined, `sticky` / `categ` derived inside the model by the substring tests of blob_to_df (tag 1556, byte for byte); a leading unquoted U+FEFF is excluded (read_csv strips it); UTF-8 locale assumed (the file is opened with the locale's encoding). Columns are keyed by READABLE level name as in blob_to_df (c15_csv_rows under NoDup readable names; c15_csv_duplicate_readable_level_refuted: finding F31, fixed in /repo 9eca1ef); the two halves are connected: blob_to_csv_text = csv_file comments (header :: rows) with the confidence rendered by fmt4, "
        "c15_csv_text_of_blob_roundtrip, c15_fmt4_rat_text_is_percent_4f, c15_csv_confidence_text_reads_four_decimals, c15_csv_row_text_starts_nonblank (pandas looks back into its buffer only on rows starting with a blank: F32), negative values in c15_fmt4_digits_roundtrip; tag 1555 compares the whole file byte for byte; "
        "NUL and non-scalar code points excluded. CSV text and %.4f are modelled and proved (Model/CsvText.v: Python 3.12 csv.writer as pandas calls it, the pandas C tokenizer state by state, comment='#'): c15_csv_text_roundtrip, c15_csv_text_injective, c15_csv_comment_lines_safe, "
        "c15_dyadic_is_the_value, c15_fmt4_nearest, c15_fmt4_ties_even, c15_fmt4_monotone, c15_fmt4_unit_interval, c15_fmt4_digits_roundtrip; refuted with witnesses: c15_csv_hash_cell_id_row_vanishes_refuted, c15_csv_hash_in_name_truncates_row_refuted (F20), "
        "c15_csv_carriage_return_refuted (F21); tie tags 1550-1554: file text byte for byte, tokenizer output, documented read-back, '%.4f' on doubles incl. exact ties. gzip, h5py and json float printing are trusted; floats finite; F15 (column decided by substring of the level name) is a known finding.",
   technique=TECH, ref="DESIGN.md section 7 C15"),
 'C18': dict(
   text="Theorems: c18_centroid_partial (one iteration: a query row equal to leaf l's mean profile and non-constant on the drawn subset gets correlation 1 with l, "
        "so under the property's proviso the iteration is won by a leaf of l's child), c18_centroid_unanimous_partial (all iterations: that child gets every vote, every "
        "other child none) and c18_centroid_probability_one_partial (choose_node, for every tie order and runner-up count, reports that child with all votes — "
        "probability 1 — and an empty runner-up list; at every node of the path, for every bootstrap factor), with a non-trivial instance of the hypotheses; "
        "c18_flat_subset_refuted (finding F6: a subset on which the centroid is constant). First sentence of the property (identification BY NAME across stages), over "
        "Model/RefSide.v = get_leaf_means + read_precomputed_stats/aggregate_stats + the reference half of assemble_query_data + CellByGeneMatrix down-sampling with all error branches: "
        "c18_leaf_means_read_by_name, c18_statistics_file_by_name and c18_leaf_means_by_name (any row order / cluster_to_row and any gene order of the statistics file give the same means by name), "
        "c18_reference_rows_are_the_parents_leaves (rows = the leaves below the parent, sorted, once each; reference_types[i] = the parent's child above row i's leaf), "
        "c18_reference_columns_by_name and c18_columns_aligned (query column j and reference column j carry the same gene name, with the cache of C08's write_query_markers), "
        "c18_centroid_is_a_reference_row, and the composed c18_centroid_through_the_stages_partial / c18_centroid_vote_through_the_stages_partial (the centroid hypotheses discharged "
        "from the files the stages write). Tie: real get_leaf_means + assemble_query_data on generated statistics files (shuffled rows and genes, 0-cell clusters, clusters outside the tree, "
        "name styles, every parent incl. None, 17 malformed kinds) with caches written by the real create_marker_cache_from_specified_markers vs the extracted model (tags 1851-1854); the four real "
        "stages chained (statistics -> reference markers -> query markers -> mapping) on generated separable references, centroid queries in shuffled gene "
        "order, factors {0.25,0.5,0.9,1}, proviso evaluated from the recorded subsets.",
   note="Partial: the full statement is refuted by the faithful model for flat subsets (F6, known finding, documented convention of distance_utils); "
        "F12 (taxonomy with fewer than two leaves: find_markers raises UnboundLocalError) known; name styles (unpadded numbers, case-only differences, spaces) and empty leaves / branches are generated.",
   technique=TECH, ref="DESIGN.md section 7 C18"),
 'C20': dict(
   text="Theorems: c20_sinks_sanitised (under cloud_safe every string reaching config/log/log-file sinks is an image of sanitize), c20_word_sound_partial "
        "(every blank-delimited word whose quote-stripped form is or lies below an existing path is replaced by text without a rooted existing path), "
        "c20_replacement_text, c20_exposed_iff, c20_unexposed_text_unchanged; refutations of the full statement with witnesses replayed on the code: "
        "c20_no_abs_path_refuted / c20_glued_prefixes_refuted (F10), c20_top_level_entry_refuted (F14), c20_sibling_of_package_raises (F13), c20_cross_word_replacement_refuted (F18). Tie: "
        "sanitize_paths on generated strings over a real generated directory tree vs the extracted model, plus a substring scan of the output for existing absolute paths; run level: real cloud-safe run_mapping runs (success, five kinds of invalid input, injected worker failures; log_path and tmp_dir None / set) whose config and log in JSON, HDF5 and the log file are scanned and compared with run_sinks applied to the captured raw log.",
   note="Partial: the no-substring statement is refuted (F10, F13, F14, F18 known findings); third-party message contents are not modelled; names without white space.",
   technique=TECH, ref="DESIGN.md section 7 C20"),
 'C16': dict(
   text="Theorems (Coq, for all inputs): the integer type chosen contains the rounded bounds and is the first candidate that does; "
        "every value between min and max fits after round-half-even; rounding moves a value by <= 1/2; c16_dtype_float_faithful (the comparison numpy really "
        "makes for float32/float64 bounds — iinfo.max converted to the float type — coincides with the exact one away from the float boundaries) and "
        "c16_dtype_float_boundary_refuted (at 2^32 in float32 the code's choice cannot hold the bound: witness of finding F5); identifier rewriting "
        "(Ensembl kept minus suffix, lookup, pairwise distinct placeholders, n_unmapped, recorded renaming = changed pairs); "
        "decision table (rejections, no-change => no file). Tie: choose_int_dtype vs the float-faithful model on all type-boundary values in int/float/float32/float64 "
        "(agreement required on EVERY input, F5 inputs included) and vs the exact statement of the property (which flags F5), is_ensembl on "
        "generated strings, validate_h5ad end-to-end on generated files vs the extracted model, input digests before/after.",
   note="is_x_integers is an oracle input to the model; NaN/inf not modelled; sparse matrices without any stored value are "
        "excluded here (C05/C13); species auto-detection not exercised.",
   technique="Coq proof of hand-written Gallina model + differential correspondence check (extracted OCaml model vs real code)",
   ref="DESIGN.md section 7 C16"),
}
NOT_YET = {}
props = [json.loads(l) for l in (ROOT / 'properties.jsonl').read_text().splitlines() if l.strip()]
checks, na = [], []
for p in props:
    pid = p['id']
    if pid in CHECKS:
        c = CHECKS[pid]
        checks.append({
            'property_id': pid,
            'quick_cmd': f'./check {pid} --tier quick',
            'thorough_cmd': f'./check {pid} --tier thorough',
            'evidence_file': f'/verif/evidence/{pid}.json',
            'replay_cmd_template': f'./check {pid} --replay {{path}}',
            'engine': 'coq-model+correspondence',
            'level_claimed': {'category': 'proof', 'text': c['text'], 'design_ref': c['ref']},
            'level_note': NOTE + c['note'],
            'technique': c['technique'],
        })
    else:
        na.append({'property_id': pid, 'reason': NOT_YET.get(pid, 'check not built yet (work in progress; the technique applies, see DESIGN.md section 7)')})
m = {
 'version': 1,
 'setup_cmd': 'tools/build.sh',
 'hooks': {'guard': 'CELL_TYPE_MAPPER_VERIF', 'enable': 'no source hooks: the harness wraps module-level functions in its own interpreters (inherited by forked workers) when CELL_TYPE_MAPPER_VERIF=1',
           'baseline_off_cmd': 'python3 /verif/tools/baseline.py', 'source_commits': [], 'add_only': True},
 'engines': [{'name': 'coq-model+correspondence', 'path': '/verif/coq + /verif/harness',
              'serves_properties': [c['property_id'] for c in checks],
              'kind_free_text': 'Coq 8.16.1 development (Model/Proofs/Props), extracted to OCaml, differential harness in Python against /repo/src'}],
 'checks': checks,
 'notes': 'fix: commits in /repo: 96b10f0 (F11), df833cb (F1), 2b803dd (F2 family), ce0265d (F3), e33b45d (F8), 90f7980 (F17), 70038ee (F9 F9c F9d), 05db7b2 (F7), 9a355c6 (F19c04), 0bb86f4 (F23 F24 F25), 5f4b2f5 (F27), 8a57862 (F29), ecb653f (F30), 9eca1ef (F31), 0bfa522 (F35). Known findings: /verif/known_findings.json.',
 'not_applicable': na,
}
(ROOT / 'MANIFEST.json').write_text(json.dumps(m, indent=1) + '\n')
print(len(checks), 'checks;', len(na), 'not claimed')
