#!/usr/bin/env python3
"""Write MANIFEST.json from the table below (keeps it valid and uniform)."""
import json, pathlib
ROOT = pathlib.Path(__file__).resolve().parent.parent
NOTE = ("Trusted: Coq 8.16.1 kernel (+vm_compute; no native_compute), no axioms (Print Assumptions checked on every run), "
        "extraction via ExtrOcamlBasic + ocaml/driver.ml (cross-checked by vm_compute in cases.v on every run), the "
        "correspondence harness under /verif/harness (generators, renaming, float->rational conversion, exception->enum), "
        "third-party libraries modelled by contract. ")
TECH = 'Coq proof of hand-written Gallina model + differential correspondence check (extracted OCaml model vs real code)'
CHECKS = {
 'C01': dict(
   text="Theorems (Coq, for every decision procedure returning one child of the asked parent per cell, every valid taxonomy incl. single-child chains "
        "and single-node levels, every cell list and generator state): c01_path_consistent (a successful run_type_assignment yields one row per cell in "
        "cell order and every row is a root-to-leaf path of the tree) and c01_total (the run does succeed). Tie: (i) real run_type_assignment with "
        "_run_type_assignment replaced by a recorded-choice oracle on every tree shape up to 4 levels / 4-6 leaves + random trees vs the extracted model; "
        "(ii) real run_mapping pipeline runs (flatten, drop_level, chunk sizes, 1-4 workers) with spec_routing evaluated on the observed records.",
   note="Chunk dispatch/gather and re_order_blob are exercised by the pipeline runs but not yet covered by a theorem (C04); HDF5/anndata reading of obs "
        "and the JSON writer are not modelled. F1 (single top node -> KeyError) was repaired in /repo (df833cb).",
   technique=TECH, ref="DESIGN.md section 7 C01"),
 'C02': dict(
   text="Theorems: c02_vote_is_argmax (each bootstrap iteration votes for the first reference row whose exact Pearson correlation with the cell over the "
        "drawn marker subset is maximal), c02_key_lt_is_correlation_order (the integer comparison used IS c1/sqrt(v1) < c2/sqrt(v2)) and c02_key_order (a strict "
        "weak order), c02_subset_wellformed / c02_subset_size (an accepted draw is duplicate-free, within the n usable markers, of size max(1, round(f n)) which "
        "lies in [1, n] for every factor in (0,1]), c02_one_vote_per_iteration, c02_choose_node_meets_spec (choose_node — sort by votes, keep the first n_assign, "
        "drop vote-less runners-up — returns an outcome the acceptor check_choice accepts for EVERY permutation of the children with non-increasing votes, i.e. "
        "whatever numpy's argsort does with ties) and c02_winner_plurality (what acceptance means). Tie: choose_node on random dyadic matrices with a recording "
        "generator, and real run_mapping runs in which every (cell, node, iteration) vote is recomputed by the extracted model from the input files and the recorded "
        "subsets; winners, vote counts, runner-up multisets exact (check_choice evaluated on every reported record), correlations within 1e-9.",
   note="Float rounding inside np.dot/np.mean is not modelled (decisions compared, near ties with relative margin <= 1e-9 skipped and counted); "
        "rng.choice itself is not modelled (the recorded draws are checked to be duplicate-free and of the right size); dyadic bootstrap factors.",
   technique=TECH, ref="DESIGN.md section 7 C02"),
 'C03': dict(
   text="Theorems: c03_choose_node_contract (for every tie order of the sort, every vote function with `iters` votes and every n_assign >= 1 the outcome of "
        "choose_node has: a winner with the most votes and share wv/iters in (0,1]; at most n_assign-1 runners-up, distinct siblings other than the winner, strictly "
        "positive votes none above the winner's, non-increasing, the top vote getters; shares summing to <= 1 and to exactly 1 when every vote getter could be listed), "
        "the same clauses for any outcome the acceptor accepts (c03_probability_range, c03_runner_up_shape, c03_sum_at_most_one, c03_sum_exactly_one), "
        "c03_corr_range (-1 <= r <= 1 by Cauchy-Schwarz over exact integers), and at the level of run_type_assignment for every decision procedure and valid "
        "taxonomy: c03_aggregate_is_running_product and c03_single_child (a level below a single-child parent carries that child, probability 1, no runners-up and "
        "the correlation of the level above; 1 at a single top node). Tie: every record of real run_mapping runs (iteration count 1, zero runners-up, more runners-up "
        "than siblings, single-child chains, flatten / dropped levels) checked against the contract through the extracted check_choice on recomputed votes.",
   note="The [-1,1] clause is checked on the implementation with a 1e-9 allowance (real outputs contain 1.0000000000000002), the model proves it "
        "exactly; aggregate probability compared with the float running product within 1e-12.",
   technique=TECH, ref="DESIGN.md section 7 C03"),
 'C06': dict(
   text="Theorems: c06_factor_one_subset_is_everything (with bootstrap factor 1 every acceptable draw, sorted as tally_votes sorts it, is the whole marker "
        "list 0..n-1 whatever the generator returned) and c06_nearest_independent_of_draw; c06_per_cell (for EVERY decision procedure whose record for a cell "
        "is a function of that cell alone, every valid taxonomy, cell list and generator state, run_type_assignment — shared previously_assigned tables, "
        "write-back by row index, visits in sorted node order — equals, row by row, the per-cell recursion map_one down the tree); corollaries "
        "c06_same_cell_same_row (permutation, subset, superset, duplication: same cell, same row, at any positions of any two runs) and c06_chunking (any split "
        "into chunks run from any generator states concatenates to the whole run). Tie: (i) real run_type_assignment with the per-cell recorded-choice oracle on "
        "cell lists and their permuted / thinned / duplicated versions vs map_one (extracted, tag 601); (ii) paired real run_mapping runs at factor 1: permutation, "
        "subset, superset, duplicated rows, other chunk sizes / worker counts / encodings, raw vs log2CPM input, joined on cell id.",
   note="That the real _run_type_assignment at factor 1 is per-cell (normalisation row-wise, correlation of a row with the reference independent of the other rows) "
        "is established by the paired runs, not proved; correlations compared within 1e-9 because BLAS may sum in a different order when the company changes.",
   technique=TECH, ref="DESIGN.md section 7 C06"),
 'C08': dict(
   text="Theorems (for every tree, marker table, query/reference gene lists, min_markers): c08_used_equals_spec (genes used for a parent with >= 2 children "
        "= own list intersected with the query if large enough, else the minimal union with the nearest ancestors / root, computed from the ORIGINAL table: "
        "ancestors are unpatched when consulted), c08_fallback_minimal, c08_fallback_bounds, c08_reported_equals_used, c08_pairing_by_name, "
        "c08_pairing_columns, c08_used_in_query_and_reference, c08_single_child_needs_none (+ _refuted witness = finding F7), c08_errors_root, "
        "c08_errors_unknown_to_reference, c08_errors_no_shared_marker, c08_flatten_unions, c08_flatten_tree. Tie: validate_marker_lookup + "
        "create_marker_cache_from_specified_markers + serialize_markers on generated (tree, table, gene orders, min_markers 0..6), HDF5 cache re-read, "
        "error kinds through an enum, vs the extracted model.",
   note="Names contain no '/'; 'metadata'/'log' keys of the table ignored; F7 is a known finding (entry of a parent that needs no markers aborts cache creation).",
   technique=TECH, ref="DESIGN.md section 7 C08"),
 'C15': dict(
   text="Theorems: c15_hdf5_roundtrip (hdf5_to_blob (blob_to_hdf5 b) = b for every well-formed blob with per-level uniform directly_assigned flags) with "
        "c15_roundtrip_without_uniform_flags_refuted (necessity), c15_csv_rows, c15_four_decimals (+ c15_csv_confidence_four_decimals_refuted), "
        "c15_query_order, c15_tree_reconstructs. Tie: generated result blobs (depth 1-5, names with commas/quotes/newlines, 0..k runners-up, inferred "
        "levels, malformed stream) through the real blob_to_csv / blob_to_hdf5 / hdf5_to_blob / re_order_blob / to_str-from_str vs the extracted model.",
   note="pandas CSV quoting and %.4f, gzip, h5py and json float printing are trusted; floats finite; F15 (column decided by substring of the level name) is a known finding.",
   technique=TECH, ref="DESIGN.md section 7 C15"),
 'C18': dict(
   text="Theorems: c18_centroid_partial (one iteration: a query row equal to leaf l's mean profile and non-constant on the drawn subset gets correlation 1 with l, "
        "so under the property's proviso the iteration is won by a leaf of l's child), c18_centroid_unanimous_partial (all iterations: that child gets every vote, every "
        "other child none) and c18_centroid_probability_one_partial (choose_node, for every tie order and runner-up count, reports that child with all votes — "
        "probability 1 — and an empty runner-up list; at every node of the path, for every bootstrap factor), with a non-trivial instance of the hypotheses; "
        "c18_flat_subset_refuted (finding F6: a subset on which the centroid is constant). Tie: the four real "
        "stages chained (statistics -> reference markers -> query markers -> mapping) on generated separable references, centroid queries in shuffled gene "
        "order, factors {0.25,0.5,0.9,1}, proviso evaluated from the recorded subsets.",
   note="Partial: the full statement is refuted by the faithful model for flat subsets (F6, known finding, documented convention of distance_utils); "
        "F12 (taxonomy with fewer than two leaves: find_markers raises UnboundLocalError) known.",
   technique=TECH, ref="DESIGN.md section 7 C18"),
 'C20': dict(
   text="Theorems: c20_sinks_sanitised (under cloud_safe every string reaching config/log/log-file sinks is an image of sanitize), c20_word_sound_partial "
        "(every blank-delimited word whose quote-stripped form is or lies below an existing path is replaced by text without a rooted existing path), "
        "c20_replacement_text, c20_exposed_iff, c20_unexposed_text_unchanged; refutations of the full statement with witnesses replayed on the code: "
        "c20_no_abs_path_refuted / c20_glued_prefixes_refuted (F10), c20_top_level_entry_refuted (F14), c20_sibling_of_package_raises (F13). Tie: "
        "sanitize_paths on generated strings over a real generated directory tree vs the extracted model, plus a substring scan of the output for existing absolute paths.",
   note="Partial: the no-substring statement is refuted (F10, F13, F14 known findings); third-party message contents are not modelled; names without white space.",
   technique=TECH, ref="DESIGN.md section 7 C20"),
 'C16': dict(
   text="Theorems (Coq, for all inputs): the integer type chosen contains the rounded bounds and is the first candidate that does; "
        "every value between min and max fits after round-half-even; rounding moves a value by <= 1/2; c16_dtype_float_faithful (the comparison numpy really "
        "makes for float32/float64 bounds — iinfo.max converted to the float type — coincides with the exact one away from the float boundaries) and "
        "c16_dtype_float_boundary_refuted (at 2^32 in float32 the code's choice cannot hold the bound: witness of finding F5); identifier rewriting "
        "(Ensembl kept minus suffix, lookup, pairwise distinct placeholders, n_unmapped, recorded renaming = changed pairs); "
        "decision table (rejections, no-change => no file). Tie: choose_int_dtype vs the float-faithful model on all type-boundary values in int/float/float32/float64 "
        "(agreement required on EVERY input, F5 inputs included) and vs the exact statement of the property (which flags F5), is_ensembl on "
        "generated strings, validate_h5ad end-to-end on generated files vs the extracted model, input digests before/after.",
   note="is_x_integers is an oracle input to the model; NaN/inf not modelled; sparse matrices without any stored value are "
        "excluded here (C05/C13); species auto-detection not exercised.",
   technique="Coq proof of hand-written Gallina model + differential correspondence check (extracted OCaml model vs real code)",
   ref="DESIGN.md section 7 C16"),
}
NOT_YET = {}
props = [json.loads(l) for l in (ROOT / 'properties.jsonl').read_text().splitlines() if l.strip()]
checks, na = [], []
for p in props:
    pid = p['id']
    if pid in CHECKS:
        c = CHECKS[pid]
        checks.append({
            'property_id': pid,
            'quick_cmd': f'./check {pid} --tier quick',
            'thorough_cmd': f'./check {pid} --tier thorough',
            'evidence_file': f'/verif/evidence/{pid}.json',
            'replay_cmd_template': f'./check {pid} --replay {{path}}',
            'engine': 'coq-model+correspondence',
            'level_claimed': {'category': 'proof', 'text': c['text'], 'design_ref': c['ref']},
            'level_note': NOTE + c['note'],
            'technique': c['technique'],
        })
    else:
        na.append({'property_id': pid, 'reason': NOT_YET.get(pid, 'check not built yet (work in progress; the technique applies, see DESIGN.md section 7)')})
m = {
 'version': 1,
 'setup_cmd': 'tools/build.sh',
 'hooks': {'guard': 'CELL_TYPE_MAPPER_VERIF', 'enable': 'no source hooks: the harness wraps module-level functions in its own interpreters (inherited by forked workers) when CELL_TYPE_MAPPER_VERIF=1',
           'baseline_off_cmd': 'python3 /verif/tools/baseline.py', 'source_commits': [], 'add_only': True},
 'engines': [{'name': 'coq-model+correspondence', 'path': '/verif/coq + /verif/harness',
              'serves_properties': [c['property_id'] for c in checks],
              'kind_free_text': 'Coq 8.16.1 development (Model/Proofs/Props), extracted to OCaml, differential harness in Python against /repo/src'}],
 'checks': checks,
 'notes': 'fix: commits in /repo: 96b10f0 (F11). Known findings: /verif/known_findings.json.',
 'not_applicable': na,
}
(ROOT / 'MANIFEST.json').write_text(json.dumps(m, indent=1) + '\n')
print(len(checks), 'checks;', len(na), 'not claimed')
