#!/usr/bin/env python3
"""Try the registered checks against the seeded changes kept under /verif/seeded/.

usage: tools/seed_eval.py [--tier quick|thorough] [--props C01,C02] [--also C03,...] [<seed dir name> ...]

For each /verif/seeded/<name>/ (patch.diff, meta.json with "property") a scratch worktree
of /repo is created under /tmp, the patch applied there, and `./check <property>` is run
with VERIF_REPO pointing at the worktree (so /repo itself is never touched and work going
on against /repo is not disturbed; the registered commands themselves never set
VERIF_REPO).  The worktree is removed afterwards.  Results are printed and written to
/verif/seeded/RESULTS.json.  The official procedure (git -C /repo apply; run; git -C /repo
checkout -- .) gives the same verdicts; this is the non-disruptive form of it.
"""
import argparse
import json
import os
import pathlib
import shutil
import subprocess
import sys
import time

VERIF = pathlib.Path(__file__).resolve().parent.parent
SEEDED = VERIF / 'seeded'


def sh(cmd, **kw):
    return subprocess.run(cmd, shell=True, capture_output=True, text=True, **kw)


def main():
    ap = argparse.ArgumentParser()
    ap.add_argument('names', nargs='*')
    ap.add_argument('--tier', default='quick')
    ap.add_argument('--also', default='', help='comma list of further property checks to run on every seed')
    ap.add_argument('--seed', default='0')
    ap.add_argument('--timeout', type=int, default=3000)
    args = ap.parse_args()
    names = args.names or sorted(p.name for p in SEEDED.iterdir() if (p / 'patch.diff').exists())
    resf = SEEDED / 'RESULTS.json'
    results = json.loads(resf.read_text()) if resf.exists() else {}
    for name in names:
        d = SEEDED / name
        meta = json.loads((d / 'meta.json').read_text())
        props = [meta['property']] + [p for p in args.also.split(',') if p and p != meta['property']]
        wt = pathlib.Path(f'/tmp/seedeval_{name}_{os.getpid()}')
        r = sh(f'git -C /repo worktree add -q --detach {wt} HEAD')
        if r.returncode != 0:
            print(name, 'worktree failed', r.stderr)
            continue
        try:
            r = sh(f'git -C {wt} apply {d}/patch.diff')
            if r.returncode != 0:
                print(name, 'PATCH DOES NOT APPLY', r.stderr[:300])
                results.setdefault(name, {})['apply'] = 'failed'
                continue
            for pid in props:
                t0 = time.time()
                env = dict(os.environ, VERIF_REPO=str(wt), VERIF_SEED=args.seed)
                try:
                    r = subprocess.run(['./check', pid, '--tier', args.tier], cwd=VERIF, env=env,
                                       capture_output=True, text=True, timeout=args.timeout)
                    out, rc = r.stdout, r.returncode
                except subprocess.TimeoutExpired:
                    out, rc = 'TIMEOUT', 124
                vio = [l for l in out.splitlines() if l.startswith('VIOLATION')]
                with_input = [l for l in vio if 'no-failing-input-found' not in l]
                verdict = ('caught-with-input' if with_input else 'caught-no-input' if vio else
                           'timeout' if rc == 124 else 'MISSED' if rc == 0 else f'rc={rc}-no-violation-line')
                what = ''
                if vio:
                    rp = vio[0].split('replay=')[1].split()[0]
                    try:
                        rec = json.load(open(rp))
                        what = f"{rec.get('class', '')}: {rec.get('what', '')[:200]}"
                    except Exception:
                        pass
                results.setdefault(name, {})[f'{pid}:{args.tier}'] = {
                    'verdict': verdict, 'n_violation_lines': len(vio), 'first': what,
                    'wall_s': round(time.time() - t0, 1), 'seed': args.seed}
                print(f'{name:28s} {pid} {args.tier:8s} {verdict:20s} {what[:140]}', flush=True)
        finally:
            sh(f'git -C /repo worktree remove --force {wt}')
            shutil.rmtree(wt, ignore_errors=True)
            # several seed_eval processes (on disjoint properties) may run side by side: merge under a lock
            import fcntl
            with open(SEEDED / '.results.lock', 'w') as lk:
                fcntl.flock(lk, fcntl.LOCK_EX)
                cur = json.loads(resf.read_text()) if resf.exists() else {}
                if name in results:
                    cur[name] = results[name]
                resf.write_text(json.dumps(cur, indent=1, sort_keys=True) + '\n')


if __name__ == '__main__':
    main()
