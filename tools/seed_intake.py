#!/usr/bin/env python3
"""Confirm a seeded change delivered by a bug-seeding sub-agent and keep it under /verif/seeded/.

usage: tools/seed_intake.py <delivery dir with patch.diff demo.py meta.json> <name>

In a scratch worktree of /repo (under /tmp, removed afterwards):
  1. the demo PASSES (exit 0) on the pristine tree;
  2. the patch applies; the demo FAILS (exit != 0) on the changed tree;
  3. the pinned test suite still passes on the changed tree (every stable_pass test of BASELINE.json).
Only if all three hold is the change copied to /verif/seeded/<name>/ with the confirmation
recorded in meta.json (key "confirmed").
"""
import json
import os
import pathlib
import shutil
import subprocess
import sys
import tempfile
import xml.etree.ElementTree as ET

VERIF = pathlib.Path(__file__).resolve().parent.parent


def sh(cmd, **kw):
    return subprocess.run(cmd, shell=True, capture_output=True, text=True, **kw)


def baseline(d):
    b = json.load(open('/root/.vp/BASELINE.json'))
    out = tempfile.mktemp(suffix='.xml', prefix='ctm_baseline_')
    env = dict(os.environ)
    env.pop('CELL_TYPE_MAPPER_VERIF', None)
    env['PYTHONPATH'] = f'{d}/src'
    env['PYTHONDONTWRITEBYTECODE'] = '1'
    cmd = b['cmd'].replace('cd /repo', f'cd {d}').replace('<file>', out)
    subprocess.run(cmd, shell=True, env=env, stdout=subprocess.DEVNULL, stderr=subprocess.DEVNULL)
    passed = set()
    for tc in ET.parse(out).getroot().iter('testcase'):
        if not any(ch.tag in ('failure', 'error', 'skipped') for ch in tc):
            passed.add(f"{tc.get('classname')}::{tc.get('name')}")
    os.unlink(out)
    want = set(b['stable_pass'])
    return sorted(want - passed), len(want)


def demo(wt, demo_path):
    env = dict(os.environ, PYTHONPATH=f'{wt}/src', PYTHONDONTWRITEBYTECODE='1', PYTHONHASHSEED='0')
    env.pop('CELL_TYPE_MAPPER_VERIF', None)
    r = subprocess.run(['/venv/bin/python', '-W', 'ignore', str(demo_path)], cwd=wt, env=env,
                       capture_output=True, text=True, timeout=1800)
    return r.returncode, (r.stdout + r.stderr)[-600:]


def main():
    src = pathlib.Path(sys.argv[1])
    name = sys.argv[2]
    meta = json.loads((src / 'meta.json').read_text())
    wt = pathlib.Path(f'/tmp/seedintake_{name}_{os.getpid()}')
    r = sh(f'git -C /repo worktree add -q --detach {wt} HEAD')
    assert r.returncode == 0, r.stderr
    ok = False
    conf = {}
    try:
        rc0, out0 = demo(wt, src / 'demo.py')
        conf['demo_on_pristine'] = {'exit': rc0, 'tail': out0[-200:]}
        r = sh(f'git -C {wt} apply {src}/patch.diff')
        conf['patch_applies'] = r.returncode == 0
        if r.returncode == 0:
            rc1, out1 = demo(wt, src / 'demo.py')
            conf['demo_on_changed'] = {'exit': rc1, 'tail': out1[-300:]}
            missing, n = baseline(wt)
            conf['pinned_suite_on_changed'] = f'stable_pass expected {n}, passing now {n - len(missing)}, missing {len(missing)}'
            conf['missing'] = missing[:10]
            ok = rc0 == 0 and rc1 != 0 and not missing
    finally:
        sh(f'git -C /repo worktree remove --force {wt}')
        shutil.rmtree(wt, ignore_errors=True)
    conf['accepted'] = ok
    print(name, json.dumps(conf)[:700])
    if ok:
        dst = VERIF / 'seeded' / name
        dst.mkdir(parents=True, exist_ok=True)
        shutil.copy(src / 'patch.diff', dst / 'patch.diff')
        shutil.copy(src / 'demo.py', dst / 'demo.py')
        meta['confirmed'] = conf
        (dst / 'meta.json').write_text(json.dumps(meta, indent=1) + '\n')
    sys.exit(0 if ok else 1)


if __name__ == '__main__':
    main()
