
val negb : bool -> bool

type nat =
| O
| S of nat

val option_map : ('a1 -> 'a2) -> 'a1 option -> 'a2 option

val fst : ('a1 * 'a2) -> 'a1

val snd : ('a1 * 'a2) -> 'a2

val length : 'a1 list -> nat

val app : 'a1 list -> 'a1 list -> 'a1 list

type comparison =
| Eq
| Lt
| Gt

val compOpp : comparison -> comparison

val add : nat -> nat -> nat

val sub : nat -> nat -> nat

type positive =
| XI of positive
| XO of positive
| XH

type n =
| N0
| Npos of positive

type z =
| Z0
| Zpos of positive
| Zneg of positive

module Nat :
 sig
  val eqb : nat -> nat -> bool

  val leb : nat -> nat -> bool

  val ltb : nat -> nat -> bool

  val min : nat -> nat -> nat
 end

module Pos :
 sig
  type mask =
  | IsNul
  | IsPos of positive
  | IsNeg
 end

module Coq_Pos :
 sig
  val succ : positive -> positive

  val add : positive -> positive -> positive

  val add_carry : positive -> positive -> positive

  val pred_double : positive -> positive

  type mask = Pos.mask =
  | IsNul
  | IsPos of positive
  | IsNeg

  val succ_double_mask : mask -> mask

  val double_mask : mask -> mask

  val double_pred_mask : positive -> mask

  val sub_mask : positive -> positive -> mask

  val sub_mask_carry : positive -> positive -> mask

  val mul : positive -> positive -> positive

  val compare_cont : comparison -> positive -> positive -> comparison

  val compare : positive -> positive -> comparison

  val eqb : positive -> positive -> bool

  val iter_op : ('a1 -> 'a1 -> 'a1) -> positive -> 'a1 -> 'a1

  val to_nat : positive -> nat

  val of_succ_nat : nat -> positive
 end

module N :
 sig
  val succ_double : n -> n

  val double : n -> n

  val sub : n -> n -> n

  val compare : n -> n -> comparison

  val leb : n -> n -> bool

  val pos_div_eucl : positive -> n -> n * n
 end

module Z :
 sig
  val double : z -> z

  val succ_double : z -> z

  val pred_double : z -> z

  val pos_sub : positive -> positive -> z

  val add : z -> z -> z

  val opp : z -> z

  val sub : z -> z -> z

  val mul : z -> z -> z

  val compare : z -> z -> comparison

  val leb : z -> z -> bool

  val ltb : z -> z -> bool

  val eqb : z -> z -> bool

  val max : z -> z -> z

  val to_nat : z -> nat

  val of_nat : nat -> z

  val of_N : n -> z

  val pos_div_eucl : positive -> z -> z * z

  val div_eucl : z -> z -> z * z

  val div : z -> z -> z

  val modulo : z -> z -> z

  val quotrem : z -> z -> z * z

  val even : z -> bool
 end

val hd : 'a1 -> 'a1 list -> 'a1

val tl : 'a1 list -> 'a1 list

val nth : nat -> 'a1 list -> 'a1 -> 'a1

val nth_error : 'a1 list -> nat -> 'a1 option

val last : 'a1 list -> 'a1 -> 'a1

val rev : 'a1 list -> 'a1 list

val concat : 'a1 list list -> 'a1 list

val map : ('a1 -> 'a2) -> 'a1 list -> 'a2 list

val flat_map : ('a1 -> 'a2 list) -> 'a1 list -> 'a2 list

val fold_left : ('a1 -> 'a2 -> 'a1) -> 'a2 list -> 'a1 -> 'a1

val fold_right : ('a2 -> 'a1 -> 'a1) -> 'a1 -> 'a2 list -> 'a1

val existsb : ('a1 -> bool) -> 'a1 list -> bool

val forallb : ('a1 -> bool) -> 'a1 list -> bool

val filter : ('a1 -> bool) -> 'a1 list -> 'a1 list

val find : ('a1 -> bool) -> 'a1 list -> 'a1 option

val combine : 'a1 list -> 'a2 list -> ('a1 * 'a2) list

val list_prod : 'a1 list -> 'a2 list -> ('a1 * 'a2) list

val skipn : nat -> 'a1 list -> 'a1 list

val seq : nat -> nat -> nat list

val repeat : 'a1 -> nat -> 'a1 list

type sx =
| I of z
| L of sx list

val sx_Z : sx -> z option

val opt_all : 'a1 option list -> 'a1 list option

val sx_list : (sx -> 'a1 option) -> sx -> 'a1 list option

val sx_LZ : sx -> z list option

val sx_LLZ : sx -> z list list option

val sx_nat : sx -> nat option

val sx_Lnat : sx -> nat list option

val sx_LLnat : sx -> nat list list option

val sx_bool : sx -> bool option

val sx_pair :
  (sx -> 'a1 option) -> (sx -> 'a2 option) -> sx -> ('a1 * 'a2) option

val of_Z : z -> sx

val of_nat0 : nat -> sx

val of_bool : bool -> sx

val of_list : ('a1 -> sx) -> 'a1 list -> sx

val of_LZ : z list -> sx

val of_Lnat : nat list -> sx

val of_pair : ('a1 -> sx) -> ('a2 -> sx) -> ('a1 * 'a2) -> sx

val of_option : ('a1 -> sx) -> 'a1 option -> sx

val sx_ok : sx -> sx

val sx_err : z -> sx

val sx_bad : sx

val z_push : z -> z -> z

val z_pop : z -> z * z

val z_neg : z -> z

val z_is_zero : z -> bool

val z_is_neg : z -> bool

val zinsert : z -> z list -> z list

val zsort : z list -> z list

val zmem : z -> z list -> bool

val zassoc : z -> (z * 'a1) list -> 'a1 option

val znodup_b : z list -> bool

type node = z

type level = (node * z list) list

type tree = level list

val nodes : level -> node list

val children_of : level -> node -> z list

val is_nil : 'a1 list -> bool

val all_have_parent : level -> level -> bool

val scan_children :
  level -> node -> z list -> (z * z) list -> (z * z) list option

val scan_parents : level -> level -> (z * z) list -> (z * z) list option

val validate_pair : level -> level -> bool

val validate_pairs : tree -> bool

val leaf_level : tree -> level

val leaf_rows : tree -> z list

val validate : tree -> bool

val parent_of : level -> node -> node option

val ancestors : tree -> nat -> node -> (nat * node) list

val all_parents_from : nat -> tree -> (nat * node) list

val all_parents : tree -> (nat * node) option list

val leaves_from : level list -> node -> node list

val as_leaves : tree -> (node * node list) list list

val combos2 : 'a1 list -> ('a1 * 'a1) list

val order_pair : (z * z) -> z * z

val leaf_pairs : tree -> (nat * node) option -> (node * node) list

type 'a tres =
| TOk of 'a
| TErr of z

val e_FLAT : z

val e_NOLEVEL : z

val e_LEAF : z

val e_INVALID : z

val remove_nth : nat -> 'a1 list -> 'a1 list

val replace_nth : nat -> 'a1 -> 'a1 list -> 'a1 list

val mk_tree : tree -> tree tres

val drop_level_gen : tree -> nat -> bool -> tree tres

val drop_level : tree -> nat -> tree tres

val drop_leaf_level : tree -> tree tres

val flatten : tree -> tree tres

val drop_cells : tree -> tree

val add_edge : level -> z -> z -> bool -> level

val add_record : tree -> z list -> z -> tree

val tree_of_records : nat -> z list list -> z -> tree -> tree

val get_taxonomy_tree : nat -> z list list -> tree tres

val set_eqb : z list -> z list -> bool

val is_equal_to : tree -> tree -> bool

val sx_level : sx -> level option

val sx_tree : sx -> tree option

val of_level : level -> sx

val of_tree : tree -> sx

val sx_parent : sx -> (nat * node) option option

val of_tres : ('a1 -> sx) -> 'a1 tres -> sx

val of_pairsZ : (z * z) list -> sx

val run_validate : sx -> sx

val run_as_leaves : sx -> sx

val run_leaf_pairs : sx -> sx

val run_drop_level : sx -> sx

val run_flatten : sx -> sx

val run_drop_leaf : sx -> sx

val run_ancestors : sx -> sx

val run_from_records : sx -> sx

val run_all_parents : sx -> sx

val run_drop_cells : sx -> sx

val run_is_equal : sx -> sx

type frac = z * z

type rec0 = { asg : node; prob : frac; corr : frac option;
              runners : ((node * frac) * frac) list; agg : frac }

type 'a outcome =
| Ok of 'a
| ErrNoChildren
| ErrNoCorrAbove
| ErrShape

val upd : 'a1 list -> nat -> 'a1 -> 'a1 list

val pick : 'a1 list -> nat list -> 'a1 list

type pa_t = (node * nat list) list

type table = rec0 option list list

val distinct : node list -> node list

val regroup : nat list -> rec0 list -> pa_t

val write_back : table -> nat -> nat list -> rec0 list -> table

val one : frac

val trivial_rec : node -> rec0

type 'rng state = ('rng * table) * pa_t

val visit :
  ('a2 -> (nat * node) option -> node list -> 'a1 list -> rec0 list * 'a2) ->
  'a1 list -> nat -> (nat * node) option -> node list -> nat list -> 'a2
  state -> 'a2 state outcome

val fold_outcome :
  ('a1 -> 'a2 -> 'a1 outcome) -> 'a2 list -> 'a1 -> 'a1 outcome

val lookup_pa : pa_t -> node -> nat list

val do_level :
  ('a2 -> (nat * node) option -> node list -> 'a1 list -> rec0 list * 'a2) ->
  tree -> 'a1 list -> nat -> 'a2 state -> 'a2 state outcome

val levels_from :
  ('a2 -> (nat * node) option -> node list -> 'a1 list -> rec0 list * 'a2) ->
  tree -> 'a1 list -> nat -> nat -> 'a2 state -> 'a2 state outcome

val inherit0 : frac option -> rec0 option list -> rec0 list outcome

val fmul : frac -> frac -> frac

val running : frac -> rec0 list -> rec0 list

val map_outcome : ('a1 -> 'a2 outcome) -> 'a1 list -> 'a2 list outcome

val empty_table : tree -> 'a1 list -> table

val run_type_assignment :
  ('a2 -> (nat * node) option -> node list -> 'a1 list -> rec0 list * 'a2) ->
  tree -> 'a1 list -> 'a2 -> (rec0 list list * 'a2) outcome

val path_ok : tree -> rec0 list -> bool

val spec_routing : tree -> nat -> rec0 list list -> bool

val sx_frac : sx -> frac option

val of_frac : frac -> sx

val sx_runner : sx -> ((node * frac) * frac) option

val of_runner : ((node * frac) * frac) -> sx

val sx_rec : sx -> rec0 option

val of_rec : rec0 -> sx

val pkey : (nat * node) option -> z

type ctable = ((z * z) * rec0) list

val clookup : z -> z -> ctable -> rec0 option

val table_decide :
  ctable -> nat -> (nat * node) option -> node list -> z list -> rec0
  list * nat

val sx_centry : sx -> ((z * z) * rec0) option

val of_outcome : ('a1 -> sx) -> 'a1 outcome -> sx

val run_rta : sx -> sx

val sx_rec_out : sx -> rec0 option

val run_spec_routing : sx -> sx

type str = z list

val str_eqb : str -> str -> bool

val is_upper : z -> bool

val is_digit : z -> bool

val span : (z -> bool) -> str -> str * str

val is_nil0 : 'a1 list -> bool

val is_ensembl : str -> bool

val before_dot : str -> str

val lookup : str -> (str * str) list -> str option

type oname =
| Name of str
| Placeholder of nat

val oname_eqb : oname -> oname -> bool

val map_loop : (str * str) list -> nat -> str list -> oname list * nat

type 'a gres =
| GOk of 'a
| GErr of z

val e_ALL_UNMAPPED : z

val e_DUP_MAPPED : z

val e_DUP_CELL : z

val e_DUP_GENE : z

val e_EMPTY_GENE : z

val map_gene_identifiers :
  (str * str) list -> str list -> (oname list * nat) gres

val has_dup : ('a1 -> 'a1 -> bool) -> 'a1 list -> bool

val onames_eq_strs : oname list -> str list -> bool

val gene_mapping : str list -> oname list -> (str * oname) list

type vresult = { v_new_file : bool; v_genes : oname list;
                 v_mapping : (str * oname) list; v_n_mapped : nat;
                 v_rounded : bool }

val validate0 :
  (str * str) list -> str list -> str list -> bool -> bool -> bool -> vresult
  gres

val sx_str : sx -> str option

val of_oname : oname -> sx

val sx_tbl : sx -> (str * str) list option

val run_is_ensembl : sx -> sx

val run_validate0 : sx -> sx

type rat = z * z

val round_half_even : rat -> z

val candidates : (z * z) list

val fits : z -> z -> (z * z) -> bool

val first_fit : z -> z -> (z * z) list -> nat -> nat option

val choose_int_dtype : rat -> rat -> nat option

val round_values : rat list -> z list

val sx_rat : sx -> rat option

val run_choose : sx -> sx

val run_round : sx -> sx

type vec = z list

val zsum : vec -> z

val dot : vec -> vec -> z

val ccov : vec -> vec -> z

val getcols : nat list -> vec -> vec

val n_bootstrap : (z * z) -> nat -> z

val subset_ok : (z * z) -> nat -> nat list -> bool

val ckey : vec -> vec -> z * z

val key_lt : (z * z) -> (z * z) -> bool

val argmax_from : nat -> (z * z) -> nat -> (z * z) list -> nat

val argmax : (z * z) list -> nat option

val nearest : vec -> vec list -> nat list -> nat option

val tally : vec -> vec list -> nat list list -> nat list option

val count : ('a1 -> bool) -> 'a1 list -> nat

val votes_for : z list -> nat list -> z -> nat

val zdistinct : z list -> z list

val sorted_desc : nat list -> bool

val check_choice :
  z list -> (z -> nat) -> nat -> z -> nat -> (z * nat) list -> bool

val run_check_cell : sx -> sx

val run_n_bootstrap : sx -> sx

val dispatch : z -> sx -> sx
