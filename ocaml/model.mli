
val negb : bool -> bool

type nat =
| O
| S of nat

val fst : ('a1 * 'a2) -> 'a1

val snd : ('a1 * 'a2) -> 'a2

val length : 'a1 list -> nat

val app : 'a1 list -> 'a1 list -> 'a1 list

type comparison =
| Eq
| Lt
| Gt

val compOpp : comparison -> comparison

val add : nat -> nat -> nat

val sub : nat -> nat -> nat

type positive =
| XI of positive
| XO of positive
| XH

type n =
| N0
| Npos of positive

type z =
| Z0
| Zpos of positive
| Zneg of positive

module Nat :
 sig
  val add : nat -> nat -> nat

  val eqb : nat -> nat -> bool

  val leb : nat -> nat -> bool

  val ltb : nat -> nat -> bool

  val max : nat -> nat -> nat

  val min : nat -> nat -> nat

  val divmod : nat -> nat -> nat -> nat -> nat * nat

  val div : nat -> nat -> nat
 end

module Pos :
 sig
  type mask =
  | IsNul
  | IsPos of positive
  | IsNeg
 end

module Coq_Pos :
 sig
  val succ : positive -> positive

  val add : positive -> positive -> positive

  val add_carry : positive -> positive -> positive

  val pred_double : positive -> positive

  type mask = Pos.mask =
  | IsNul
  | IsPos of positive
  | IsNeg

  val succ_double_mask : mask -> mask

  val double_mask : mask -> mask

  val double_pred_mask : positive -> mask

  val sub_mask : positive -> positive -> mask

  val sub_mask_carry : positive -> positive -> mask

  val mul : positive -> positive -> positive

  val compare_cont : comparison -> positive -> positive -> comparison

  val compare : positive -> positive -> comparison

  val eqb : positive -> positive -> bool

  val iter_op : ('a1 -> 'a1 -> 'a1) -> positive -> 'a1 -> 'a1

  val to_nat : positive -> nat

  val of_succ_nat : nat -> positive
 end

module N :
 sig
  val succ_double : n -> n

  val double : n -> n

  val sub : n -> n -> n

  val compare : n -> n -> comparison

  val leb : n -> n -> bool

  val pos_div_eucl : positive -> n -> n * n
 end

module Z :
 sig
  val double : z -> z

  val succ_double : z -> z

  val pred_double : z -> z

  val pos_sub : positive -> positive -> z

  val add : z -> z -> z

  val opp : z -> z

  val sub : z -> z -> z

  val mul : z -> z -> z

  val compare : z -> z -> comparison

  val leb : z -> z -> bool

  val ltb : z -> z -> bool

  val eqb : z -> z -> bool

  val max : z -> z -> z

  val min : z -> z -> z

  val to_nat : z -> nat

  val of_nat : nat -> z

  val of_N : n -> z

  val pos_div_eucl : positive -> z -> z * z

  val div_eucl : z -> z -> z * z

  val div : z -> z -> z

  val modulo : z -> z -> z

  val quotrem : z -> z -> z * z

  val even : z -> bool
 end

val nth : nat -> 'a1 list -> 'a1 -> 'a1

val nth_error : 'a1 list -> nat -> 'a1 option

val last : 'a1 list -> 'a1 -> 'a1

val removelast : 'a1 list -> 'a1 list

val concat : 'a1 list list -> 'a1 list

val map : ('a1 -> 'a2) -> 'a1 list -> 'a2 list

val fold_left : ('a1 -> 'a2 -> 'a1) -> 'a2 list -> 'a1 -> 'a1

val fold_right : ('a2 -> 'a1 -> 'a1) -> 'a1 -> 'a2 list -> 'a1

val existsb : ('a1 -> bool) -> 'a1 list -> bool

val forallb : ('a1 -> bool) -> 'a1 list -> bool

val filter : ('a1 -> bool) -> 'a1 list -> 'a1 list

val find : ('a1 -> bool) -> 'a1 list -> 'a1 option

val combine : 'a1 list -> 'a2 list -> ('a1 * 'a2) list

val firstn : nat -> 'a1 list -> 'a1 list

val skipn : nat -> 'a1 list -> 'a1 list

val seq : nat -> nat -> nat list

val repeat : 'a1 -> nat -> 'a1 list

type sx =
| I of z
| L of sx list

val sx_Z : sx -> z option

val opt_all : 'a1 option list -> 'a1 list option

val sx_list : (sx -> 'a1 option) -> sx -> 'a1 list option

val sx_LZ : sx -> z list option

val sx_LLZ : sx -> z list list option

val sx_nat : sx -> nat option

val sx_Lnat : sx -> nat list option

val sx_bool : sx -> bool option

val sx_pair :
  (sx -> 'a1 option) -> (sx -> 'a2 option) -> sx -> ('a1 * 'a2) option

val of_nat0 : nat -> sx

val of_bool : bool -> sx

val of_list : ('a1 -> sx) -> 'a1 list -> sx

val of_LZ : z list -> sx

val of_LLZ : z list list -> sx

val of_Lnat : nat list -> sx

val of_pair : ('a1 -> sx) -> ('a2 -> sx) -> ('a1 * 'a2) -> sx

val sx_ok : sx -> sx

val sx_err : z -> sx

val sx_bad : sx

val z_push : z -> z -> z

val z_pop : z -> z * z

val z_neg : z -> z

val z_is_zero : z -> bool

val z_is_neg : z -> bool

type str = z list

val str_eqb : str -> str -> bool

val is_upper : z -> bool

val is_digit : z -> bool

val span : (z -> bool) -> str -> str * str

val is_nil : 'a1 list -> bool

val is_ensembl : str -> bool

val before_dot : str -> str

val lookup : str -> (str * str) list -> str option

type oname =
| Name of str
| Placeholder of nat

val oname_eqb : oname -> oname -> bool

val map_loop : (str * str) list -> nat -> str list -> oname list * nat

type 'a gres =
| GOk of 'a
| GErr of z

val e_ALL_UNMAPPED : z

val e_DUP_MAPPED : z

val e_DUP_CELL : z

val e_DUP_GENE : z

val e_EMPTY_GENE : z

val map_gene_identifiers :
  (str * str) list -> str list -> (oname list * nat) gres

val has_dup : ('a1 -> 'a1 -> bool) -> 'a1 list -> bool

val onames_eq_strs : oname list -> str list -> bool

val gene_mapping : str list -> oname list -> (str * oname) list

type vresult = { v_new_file : bool; v_genes : oname list;
                 v_mapping : (str * oname) list; v_n_mapped : nat;
                 v_rounded : bool }

val validate :
  (str * str) list -> str list -> str list -> bool -> bool -> bool -> vresult
  gres

val sx_str : sx -> str option

val of_oname : oname -> sx

val sx_tbl : sx -> (str * str) list option

val run_is_ensembl : sx -> sx

val run_validate : sx -> sx

type rat = z * z

val round_half_even : rat -> z

val candidates : (z * z) list

val fits : z -> z -> (z * z) -> bool

val first_fit : z -> z -> (z * z) list -> nat -> nat option

val choose_int_dtype : rat -> rat -> nat option

val round_values : rat list -> z list

val sx_rat : sx -> rat option

val run_choose : sx -> sx

val run_round : sx -> sx

type err =
| EIndex
| EReject
| EValue
| EFuel
| EWorker

val err_code : err -> z

type 'a res =
| Ok of 'a
| Err of err

val bind : 'a1 res -> ('a1 -> 'a2 res) -> 'a2 res

val res_map : ('a1 -> 'a2 res) -> 'a1 list -> 'a2 list res

val slice : 'a1 list -> nat -> nat -> 'a1 list

val upd : 'a1 list -> nat -> 'a1 -> 'a1 list

val cumsum_from : nat -> nat list -> nat list

val sum_list : nat list -> nat

val ins_by : ('a1 -> nat) -> 'a1 -> 'a1 list -> 'a1 list

val sort_by : ('a1 -> nat) -> 'a1 list -> 'a1 list

val argsort : nat list -> nat list

val index_of : nat -> nat list -> nat option

val dedup_sorted : nat list -> nat list

val unique : nat list -> nat list

val range_chunks_from : nat -> nat -> nat -> nat -> (nat * nat) list

val range_chunks : nat -> nat -> (nat * nat) list

val iter_chunks : nat -> nat -> nat -> nat -> (nat * nat) list res

val row_chunks : nat -> nat -> (nat * nat) list res

type comp = { ptr : nat list; idx : nat list; dat : z list }

type dense = z list list

val load_sparse : nat -> nat -> comp -> comp res

val set_row : z list -> nat list -> z list -> z list res

val dense_rows : nat -> nat list -> nat list -> z list -> nat -> dense res

val csr_to_dense : comp -> nat -> nat -> dense res

val load_csr : nat -> nat -> nat -> comp -> dense res

val iterate_csr : comp -> nat -> nat -> nat -> ((nat * nat) * dense) list res

val iterate_dense : dense -> nat -> nat -> ((nat * nat) * dense) list res

val merge_ranges_from : nat -> nat -> nat list -> (nat * nat) list

val merge_index_list : nat list -> (nat * nat) list res

val merge_from : nat -> comp list -> nat list * (nat list * z list)

val merge_csr : comp list -> comp res

val unsort_from :
  nat list -> nat list -> comp -> nat -> nat -> (nat list * (nat list * z
  list)) res

val load_disjoint_csr : nat list -> comp -> comp res

val csr_get_batch : nat list -> nat -> comp -> dense res

val strictly_increasing : nat list -> bool

val dense_get_batch : nat list -> nat -> dense -> dense res

val row_nonzero : z list -> (nat * z) list

val csr_of_dense : dense -> comp

val spans_from : nat -> nat list -> nat list -> nat list res

val place_ptr : nat -> nat list -> nat -> nat list res

val precompute_indptr : nat list -> nat list -> nat list res

val copy_rows : comp -> nat list -> (nat list * z list) res

val shuffle_rows : comp -> nat list -> comp res

val subset_columns : comp -> nat list -> comp res

val chunk_ok : nat -> nat -> bool

val amalgamate_csr : comp list -> nat -> comp res

val amalgamate_dense : dense list -> dense

val copy_array : 'a1 list -> nat option -> 'a1 list res

val copy_tiles : dense -> (nat * nat) list -> (nat * nat) list -> dense

val copy_dense : dense -> nat -> nat -> (nat * nat) option -> dense res

val slices_for_copy : nat list -> nat -> (nat * nat) list list

val copy_h5_1d : 'a1 list -> nat -> 'a1 list

val copy_h5_2d : dense -> nat -> nat -> nat -> dense

val of_res : ('a1 -> sx) -> 'a1 res -> sx

val of_comp : comp -> sx

val of_dense : dense -> sx

val of_ranges : (nat * nat) list -> sx

val of_blocks : ((nat * nat) * dense) list -> sx

val sx_comp : sx -> comp option

val sx_optnat : sx -> nat option option

val run_iter_csr : sx -> sx

val run_iter_dense : sx -> sx

val run_get_batch_csr : sx -> sx

val run_get_batch_dense : sx -> sx

val run_merge_index_list : sx -> sx

val run_load_disjoint : sx -> sx

val run_load_csr : sx -> sx

val run_merge_csr : sx -> sx

val run_shuffle_rows : sx -> sx

val run_subset_columns : sx -> sx

val sx_source_sparse : sx -> comp res option

val sx_source_dense : sx -> dense res option

val res_all : 'a1 res list -> 'a1 list res

val run_amalgamate_sparse : sx -> sx

val run_amalgamate_dense : sx -> sx

val run_copy_sparse : sx -> sx

val run_copy_dense : sx -> sx

val run_slices : sx -> sx

val run_copy_h5_2d : sx -> sx

val run_copy_h5_1d : sx -> sx

val run_precompute_indptr : sx -> sx

type entry = { e_minor : nat; e_major : nat; e_val : z }

val major_of : nat list -> nat -> nat

val all_entries : comp -> bool -> entry list

val in_slice : nat -> nat -> entry -> bool

val shift_minor : nat -> entry -> entry

val apply_slice : (nat * nat) option -> entry list -> entry list

val count_of : nat -> nat list -> nat

val uniq_in : nat -> nat -> nat list -> nat list

val count_chunk :
  (nat * nat) option -> (nat list * nat) -> entry list -> nat list * nat

val chunks_of : 'a1 list -> nat -> 'a1 list list

val calc_indptr :
  entry list -> nat -> (nat * nat) option -> nat -> nat list * nat

val next_block : nat list -> nat -> nat -> nat option

val put : 'a1 list -> nat -> 'a1 list -> 'a1 list

type bstate = { b_next : nat list; b_idx : nat list; b_dat : z list;
                b_ok : bool }

val fill_row : entry list -> nat -> bstate -> nat -> bstate

val fill_chunk :
  (nat * nat) option -> nat -> nat -> nat -> bstate -> entry list -> bstate

val fill_block :
  entry list list -> (nat * nat) option -> nat list -> nat list -> nat -> nat
  -> bstate

val fill_blocks :
  nat -> entry list list -> (nat * nat) option -> nat -> nat list -> nat list
  -> nat -> nat list -> z list -> ((nat list * z list) * (nat * nat) list) res

type tresult = { t_out : comp; t_blocks : (nat * nat) list;
                 t_count_chunks : (nat * nat) list;
                 t_load_chunks : (nat * nat) list }

val n_out_of : nat -> (nat * nat) option -> nat

val transpose :
  comp -> bool -> nat -> (nat * nat) option -> nat -> nat -> nat -> tresult
  res

val data_reads :
  comp -> (nat * nat) option -> nat -> (nat * nat) list -> (nat * nat) list
  list

val transpose_v2 : comp -> bool -> nat -> nat -> nat -> nat -> nat -> comp res

val iterate_csc :
  comp -> nat -> nat -> nat -> nat -> nat -> nat -> ((nat * nat) * dense)
  list res

val csc_get_batch :
  comp -> nat list -> nat -> nat -> nat -> nat -> nat -> dense res

val clamp : z -> nat -> nat

val sx_slice : sx -> (nat * nat) option option

val of_tresult : comp -> (nat * nat) option -> nat -> tresult -> sx

val run_transpose : sx -> sx

val run_transpose_v2 : sx -> sx

val run_calc_indptr : sx -> sx

val run_iter_csc : sx -> sx

val run_get_batch_csc : sx -> sx

val dispatch : z -> sx -> sx
