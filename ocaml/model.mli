
val negb : bool -> bool

type nat =
| O
| S of nat

val option_map : ('a1 -> 'a2) -> 'a1 option -> 'a2 option

val fst : ('a1 * 'a2) -> 'a1

val snd : ('a1 * 'a2) -> 'a2

val length : 'a1 list -> nat

val app : 'a1 list -> 'a1 list -> 'a1 list

type comparison =
| Eq
| Lt
| Gt

val compOpp : comparison -> comparison

val add : nat -> nat -> nat

val sub : nat -> nat -> nat

type positive =
| XI of positive
| XO of positive
| XH

type n =
| N0
| Npos of positive

type z =
| Z0
| Zpos of positive
| Zneg of positive

val eqb : bool -> bool -> bool

module Nat :
 sig
  val eqb : nat -> nat -> bool

  val leb : nat -> nat -> bool

  val ltb : nat -> nat -> bool

  val max : nat -> nat -> nat
 end

module Pos :
 sig
  type mask =
  | IsNul
  | IsPos of positive
  | IsNeg
 end

module Coq_Pos :
 sig
  val succ : positive -> positive

  val add : positive -> positive -> positive

  val add_carry : positive -> positive -> positive

  val pred_double : positive -> positive

  type mask = Pos.mask =
  | IsNul
  | IsPos of positive
  | IsNeg

  val succ_double_mask : mask -> mask

  val double_mask : mask -> mask

  val double_pred_mask : positive -> mask

  val sub_mask : positive -> positive -> mask

  val sub_mask_carry : positive -> positive -> mask

  val mul : positive -> positive -> positive

  val compare_cont : comparison -> positive -> positive -> comparison

  val compare : positive -> positive -> comparison

  val eqb : positive -> positive -> bool

  val iter_op : ('a1 -> 'a1 -> 'a1) -> positive -> 'a1 -> 'a1

  val to_nat : positive -> nat

  val of_succ_nat : nat -> positive
 end

module N :
 sig
  val succ_double : n -> n

  val double : n -> n

  val sub : n -> n -> n

  val compare : n -> n -> comparison

  val leb : n -> n -> bool

  val pos_div_eucl : positive -> n -> n * n
 end

module Z :
 sig
  val double : z -> z

  val succ_double : z -> z

  val pred_double : z -> z

  val pos_sub : positive -> positive -> z

  val add : z -> z -> z

  val opp : z -> z

  val sub : z -> z -> z

  val mul : z -> z -> z

  val compare : z -> z -> comparison

  val leb : z -> z -> bool

  val ltb : z -> z -> bool

  val eqb : z -> z -> bool

  val to_nat : z -> nat

  val of_nat : nat -> z

  val of_N : n -> z

  val pos_div_eucl : positive -> z -> z * z

  val div_eucl : z -> z -> z * z

  val div : z -> z -> z

  val modulo : z -> z -> z

  val quotrem : z -> z -> z * z

  val even : z -> bool
 end

val nth : nat -> 'a1 list -> 'a1 -> 'a1

val nth_error : 'a1 list -> nat -> 'a1 option

val last : 'a1 list -> 'a1 -> 'a1

val rev : 'a1 list -> 'a1 list

val map : ('a1 -> 'a2) -> 'a1 list -> 'a2 list

val fold_left : ('a1 -> 'a2 -> 'a1) -> 'a2 list -> 'a1 -> 'a1

val fold_right : ('a2 -> 'a1 -> 'a1) -> 'a1 -> 'a2 list -> 'a1

val existsb : ('a1 -> bool) -> 'a1 list -> bool

val forallb : ('a1 -> bool) -> 'a1 list -> bool

val filter : ('a1 -> bool) -> 'a1 list -> 'a1 list

val find : ('a1 -> bool) -> 'a1 list -> 'a1 option

val firstn : nat -> 'a1 list -> 'a1 list

val repeat : 'a1 -> nat -> 'a1 list

type sx =
| I of z
| L of sx list

val sx_Z : sx -> z option

val opt_all : 'a1 option list -> 'a1 list option

val sx_list : (sx -> 'a1 option) -> sx -> 'a1 list option

val sx_LZ : sx -> z list option

val sx_LLZ : sx -> z list list option

val sx_nat : sx -> nat option

val sx_bool : sx -> bool option

val sx_pair :
  (sx -> 'a1 option) -> (sx -> 'a2 option) -> sx -> ('a1 * 'a2) option

val of_Z : z -> sx

val of_nat0 : nat -> sx

val of_bool : bool -> sx

val of_list : ('a1 -> sx) -> 'a1 list -> sx

val of_LZ : z list -> sx

val of_LLZ : z list list -> sx

val of_pair : ('a1 -> sx) -> ('a2 -> sx) -> ('a1 * 'a2) -> sx

val of_option : ('a1 -> sx) -> 'a1 option -> sx

val sx_ok : sx -> sx

val sx_err : z -> sx

val sx_bad : sx

val z_push : z -> z -> z

val z_pop : z -> z * z

val z_neg : z -> z

val z_is_zero : z -> bool

val z_is_neg : z -> bool

type str = z list

val str_eqb : str -> str -> bool

val is_upper : z -> bool

val is_digit : z -> bool

val span : (z -> bool) -> str -> str * str

val is_nil : 'a1 list -> bool

val is_ensembl : str -> bool

val before_dot : str -> str

val lookup : str -> (str * str) list -> str option

type oname =
| Name of str
| Placeholder of nat

val oname_eqb : oname -> oname -> bool

val map_loop : (str * str) list -> nat -> str list -> oname list * nat

type 'a gres =
| GOk of 'a
| GErr of z

val e_ALL_UNMAPPED : z

val e_DUP_MAPPED : z

val e_DUP_CELL : z

val e_DUP_GENE : z

val e_EMPTY_GENE : z

val map_gene_identifiers :
  (str * str) list -> str list -> (oname list * nat) gres

val has_dup : ('a1 -> 'a1 -> bool) -> 'a1 list -> bool

val onames_eq_strs : oname list -> str list -> bool

val gene_mapping : str list -> oname list -> (str * oname) list

type vresult = { v_new_file : bool; v_genes : oname list;
                 v_mapping : (str * oname) list; v_n_mapped : nat;
                 v_rounded : bool }

val validate :
  (str * str) list -> str list -> str list -> bool -> bool -> bool -> vresult
  gres

val sx_str : sx -> str option

val of_oname : oname -> sx

val sx_tbl : sx -> (str * str) list option

val run_is_ensembl : sx -> sx

val run_validate : sx -> sx

type rat = z * z

val round_half_even : rat -> z

val candidates : (z * z) list

val fits : z -> z -> (z * z) -> bool

val first_fit : z -> z -> (z * z) list -> nat -> nat option

val choose_int_dtype : rat -> rat -> nat option

val round_values : rat list -> z list

val sx_rat : sx -> rat option

val run_choose : sx -> sx

val run_round : sx -> sx

val zmem : z -> z list -> bool

val zassoc : z -> (z * 'a1) list -> 'a1 option

type rat0 = z * z

val zero : rat0

type 'a res =
| Ok of 'a
| Err of z

val e_EMPTY : z

val e_KEY : z

val e_INDEX : z

val e_TYPE : z

val bind : 'a1 res -> ('a1 -> 'a2 res) -> 'a2 res

val mapM : ('a1 -> 'a2 res) -> 'a1 list -> 'a2 list res

type runners = { ru_assign : z list; ru_prob : rat0 list; ru_corr : rat0 list }

type lvl = { l_assign : z; l_prob : rat0; l_corr : rat0; l_agg : rat0;
             l_direct : bool; l_run : runners option }

type cell = { c_id : z; c_levels : lvl list }

type blob = cell list

val index_of : z -> z list -> nat option

type h5row = { w_assign : z; w_prob : rat0; w_agg : rat0; w_corr : rat0;
               w_ra : z list; w_rp : rat0 list; w_rc : rat0 list }

val write_runners :
  z list -> z -> nat -> z list -> rat0 list -> rat0 list -> ((z list * rat0
  list) * rat0 list) res

val write_level : nat -> z list -> lvl -> h5row res

val write_levels : nat -> z list list -> lvl list -> h5row list res

val first_flags : nat -> blob -> bool list res

type h5 = { h_direct : bool list; h_nodes : z list list; h_ids : z list;
            h_rows : h5row list list; h_width : nat }

val blob_to_hdf5 : z list list -> nat -> blob -> h5 res

val py_nth : 'a1 list -> z -> 'a1 option

val read_runners : z list -> z list -> rat0 list -> rat0 list -> runners res

val read_level : nat -> z list -> bool -> h5row -> lvl res

val read_levels :
  nat -> z list list -> bool list -> h5row list -> lvl list res

val read_cells :
  nat -> z list list -> bool list -> z list -> h5row list list -> blob res

val hdf5_to_blob : h5 -> blob res

val runners_ok : nat -> z list -> runners -> bool

val lvl_ok : nat -> z list -> lvl -> bool

val levels_ok : nat -> z list list -> lvl list -> bool

val cell_ok : nat -> z list list -> cell -> bool

val flags_of : cell -> bool list

val bools_eqb : bool list -> bool list -> bool

val flags_uniform : blob -> bool

val blob_ok : nat -> z list list -> blob -> bool

val find_last : blob -> z -> cell option

val re_order_blob : blob -> z list -> blob res

type naming = { n_hmap : (z * z) list option;
                n_tables : (z * (z * (z option * z option)) list) list option }

val label_to_name : naming -> z -> z -> bool -> z

val level_to_name : naming -> z -> z

type colkey =
| KId
| KLabel of nat
| KName of nat
| KAlias of nat
| KField of nat * nat
| KRun of nat * nat * nat

val colkey_eqb : colkey -> colkey -> bool

val col_level : colkey -> nat option

type dval =
| DName of z
| DNum of rat0
| DBool of bool

val enum_from : nat -> 'a1 list -> (nat * 'a1) list

val level_elements : nat -> lvl -> (colkey * dval) list

val level_record : naming -> bool -> nat -> z -> lvl -> (colkey * dval) list

val levels_record :
  naming -> nat -> z list -> lvl list -> (colkey * dval) list res

val cell_record : naming -> z list -> cell -> (colkey * dval) list res

val kmem : colkey -> colkey list -> bool

val add_cols : colkey list -> colkey list -> colkey list

val all_cols : (colkey * dval) list list -> colkey list

val klookup : colkey -> (colkey * 'a1) list -> 'a1 option

type frame = { f_cols : colkey list; f_rows : dval option list list }

val blob_to_df : naming -> z list -> blob -> frame res

val round_half_even0 : rat0 -> z

val fmt4 : rat0 -> z

type cval =
| CName of z
| CNum4 of z
| CNumFull of rat0
| CBool of bool
| CEmpty

val csv_cell : bool -> dval option -> cval

val col_categ : bool list -> colkey -> bool

val keep_col : nat -> bool list -> colkey -> bool

type hline =
| HMeta of z
| HHier of z list
| HReadable of z list
| HVersion of nat

val lz_eqb : z list -> z list -> bool

val csv_header : naming -> z list -> z option -> nat -> hline list

type csv = { v_comments : hline list; v_cols : colkey list;
             v_rows : cval list list }

val select : bool list -> 'a1 list -> 'a1 list

val map2 : ('a1 -> 'a2 -> 'a3) -> 'a1 list -> 'a2 list -> 'a3 list

val blob_to_csv :
  naming -> z list -> z option -> nat -> nat -> bool list -> bool list ->
  blob -> csv res

val sx_rat0 : sx -> rat0 option

val of_rat : rat0 -> sx

val sx_Lrat : sx -> rat0 list option

val sx_opt : (sx -> 'a1 option) -> sx -> 'a1 option option

val sx_runners : sx -> runners option

val sx_lvl : sx -> lvl option

val sx_cell : sx -> cell option

val sx_blob : sx -> blob option

val of_runners : runners -> sx

val of_lvl : lvl -> sx

val of_cell : cell -> sx

val of_blob : blob -> sx

val of_res : ('a1 -> sx) -> 'a1 res -> sx

val of_row : h5row -> sx

val sx_row : sx -> h5row option

val of_h5 : h5 -> sx

val sx_h5 : sx -> h5 option

val run_blob_to_hdf5 : sx -> sx

val run_hdf5_to_blob : sx -> sx

val run_roundtrip : sx -> sx

val sx_naming : sx -> naming option

val of_colkey : colkey -> sx

val of_cval : cval -> sx

val of_hline : hline -> sx

val of_csv : csv -> sx

val run_blob_to_csv : sx -> sx

val run_re_order : sx -> sx

type str0 = z list

val str_eqb0 : str0 -> str0 -> bool

val is_space : z -> bool

val split_go : str0 -> str0 -> str0 list

val split : str0 -> str0 list

val sLASH : z

val dOT : z

type path = { p_root : nat; p_parts : str0 list }

val pieces_go : str0 -> str0 -> str0 list

val pieces : str0 -> str0 list

val is_nil0 : 'a1 list -> bool

val is_dot : str0 -> bool

val root_of : str0 -> nat

val parse_path : str0 -> path

val root_str : nat -> str0

val join_slash : str0 list -> str0

val path_str : path -> str0

val path_name : path -> str0

val parts_eqb : str0 list -> str0 list -> bool

val path_eqb : path -> path -> bool

val qUOTE2 : z

val qUOTE1 : z

val strip_quotes : str0 -> str0

val word_to_path : str0 -> path

type exposure =
| Exposed
| Hidden
| Loops

val exposed_rev : (path -> bool) -> nat -> str0 list -> exposure

val is_exposed : (path -> bool) -> path -> exposure

type 'a sres =
| SOk of 'a
| SErr of z

val e_VALUE : z

val e_RECURSION : z

val e_KEY0 : z

val prefix_b : str0 -> str0 -> bool

val parts_after : str0 list -> str0 list -> str0 list option

val relative_to : path -> path -> path option

val replace_go : str0 -> str0 -> nat -> str0 -> str0

val replace_all : str0 -> str0 -> str0 -> str0

val has_key : str0 -> (str0 * str0) list -> bool

type jv =
| JStr of str0
| JList of jv list
| JDict of (str0 * jv) list
| JOther of z

val safe_path :
  (path -> bool) -> (path -> path) -> path -> str0 -> str0 sres option

val collect :
  (path -> bool) -> (path -> path) -> path -> str0 list -> (str0 * str0) list
  -> (str0 * str0) list sres

val apply_subs : (str0 * str0) list -> str0 -> str0

val sanitize_str :
  (path -> bool) -> (path -> path) -> path -> str0 -> str0 sres

val sanitize : (path -> bool) -> (path -> path) -> path -> jv -> jv sres

val k_TMP_DIR : str0

val k_EXT_DIR : str0

val pop_key : str0 -> (str0 * jv) list -> (str0 * jv) list option

val sanitize_lines :
  (path -> bool) -> (path -> path) -> path -> str0 list -> str0 list sres

type sinks = { s_config : jv; s_log : str0 list; s_log_file : str0 list }

val run_sinks :
  (path -> bool) -> (path -> path) -> path -> bool -> (str0 * jv) list ->
  str0 list -> sinks sres

val ex_of : path list -> path -> bool

val resolve_of : (path * path) list -> path -> path

val sx_str0 : sx -> str0 option

val sx_path : sx -> path option

val of_path : path -> sx

val sx_jv : nat -> sx -> jv option

val of_jv : jv -> sx

val sx_depth : sx -> nat

val of_sres : ('a1 -> sx) -> 'a1 sres -> sx

val sx_world :
  sx -> sx -> sx -> ((path list * (path * path) list) * path) option

val run_sanitize : sx -> sx

val run_run_sinks : sx -> sx

val run_split : sx -> sx

val run_word_to_path : sx -> sx

type node = z

type level = (node * z list) list

type tree = level list

val nodes : level -> node list

val children_of : level -> node -> z list

val drop_cells : tree -> tree

val set_eqb : z list -> z list -> bool

val is_equal_to : tree -> tree -> bool

val sx_level : sx -> level option

val sx_tree : sx -> tree option

val of_level : level -> sx

val of_tree : tree -> sx

val run_drop_cells : sx -> sx

val run_is_equal : sx -> sx

val dispatch : z -> sx -> sx
