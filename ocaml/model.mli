
val negb : bool -> bool

type nat =
| O
| S of nat

val fst : ('a1 * 'a2) -> 'a1

val snd : ('a1 * 'a2) -> 'a2

val length : 'a1 list -> nat

val app : 'a1 list -> 'a1 list -> 'a1 list

type comparison =
| Eq
| Lt
| Gt

val compOpp : comparison -> comparison

val sub : nat -> nat -> nat

type positive =
| XI of positive
| XO of positive
| XH

type n =
| N0
| Npos of positive

type z =
| Z0
| Zpos of positive
| Zneg of positive

module Nat :
 sig
  val eqb : nat -> nat -> bool
 end

module Pos :
 sig
  type mask =
  | IsNul
  | IsPos of positive
  | IsNeg
 end

module Coq_Pos :
 sig
  val succ : positive -> positive

  val add : positive -> positive -> positive

  val add_carry : positive -> positive -> positive

  val pred_double : positive -> positive

  type mask = Pos.mask =
  | IsNul
  | IsPos of positive
  | IsNeg

  val succ_double_mask : mask -> mask

  val double_mask : mask -> mask

  val double_pred_mask : positive -> mask

  val sub_mask : positive -> positive -> mask

  val sub_mask_carry : positive -> positive -> mask

  val mul : positive -> positive -> positive

  val compare_cont : comparison -> positive -> positive -> comparison

  val compare : positive -> positive -> comparison

  val eqb : positive -> positive -> bool

  val of_succ_nat : nat -> positive
 end

module N :
 sig
  val succ_double : n -> n

  val double : n -> n

  val sub : n -> n -> n

  val compare : n -> n -> comparison

  val leb : n -> n -> bool

  val pos_div_eucl : positive -> n -> n * n
 end

module Z :
 sig
  val double : z -> z

  val succ_double : z -> z

  val pred_double : z -> z

  val pos_sub : positive -> positive -> z

  val add : z -> z -> z

  val opp : z -> z

  val sub : z -> z -> z

  val mul : z -> z -> z

  val compare : z -> z -> comparison

  val leb : z -> z -> bool

  val ltb : z -> z -> bool

  val eqb : z -> z -> bool

  val of_nat : nat -> z

  val of_N : n -> z

  val pos_div_eucl : positive -> z -> z * z

  val div_eucl : z -> z -> z * z

  val div : z -> z -> z

  val modulo : z -> z -> z

  val quotrem : z -> z -> z * z

  val even : z -> bool
 end

val map : ('a1 -> 'a2) -> 'a1 list -> 'a2 list

val existsb : ('a1 -> bool) -> 'a1 list -> bool

type sx =
| I of z
| L of sx list

val sx_Z : sx -> z option

val opt_all : 'a1 option list -> 'a1 list option

val sx_list : (sx -> 'a1 option) -> sx -> 'a1 list option

val sx_LZ : sx -> z list option

val sx_bool : sx -> bool option

val sx_pair :
  (sx -> 'a1 option) -> (sx -> 'a2 option) -> sx -> ('a1 * 'a2) option

val of_nat0 : nat -> sx

val of_bool : bool -> sx

val of_list : ('a1 -> sx) -> 'a1 list -> sx

val of_LZ : z list -> sx

val of_pair : ('a1 -> sx) -> ('a2 -> sx) -> ('a1 * 'a2) -> sx

val sx_ok : sx -> sx

val sx_err : z -> sx

val sx_bad : sx

val z_push : z -> z -> z

val z_pop : z -> z * z

val z_neg : z -> z

val z_is_zero : z -> bool

val z_is_neg : z -> bool

type str = z list

val str_eqb : str -> str -> bool

val is_upper : z -> bool

val is_digit : z -> bool

val span : (z -> bool) -> str -> str * str

val is_nil : 'a1 list -> bool

val is_ensembl : str -> bool

val before_dot : str -> str

val lookup : str -> (str * str) list -> str option

type oname =
| Name of str
| Placeholder of nat

val oname_eqb : oname -> oname -> bool

val map_loop : (str * str) list -> nat -> str list -> oname list * nat

type 'a gres =
| GOk of 'a
| GErr of z

val e_ALL_UNMAPPED : z

val e_DUP_MAPPED : z

val e_DUP_CELL : z

val e_DUP_GENE : z

val e_EMPTY_GENE : z

val map_gene_identifiers :
  (str * str) list -> str list -> (oname list * nat) gres

val has_dup : ('a1 -> 'a1 -> bool) -> 'a1 list -> bool

val onames_eq_strs : oname list -> str list -> bool

val gene_mapping : str list -> oname list -> (str * oname) list

type vresult = { v_new_file : bool; v_genes : oname list;
                 v_mapping : (str * oname) list; v_n_mapped : nat;
                 v_rounded : bool }

val validate :
  (str * str) list -> str list -> str list -> bool -> bool -> bool -> vresult
  gres

val sx_str : sx -> str option

val of_oname : oname -> sx

val sx_tbl : sx -> (str * str) list option

val run_is_ensembl : sx -> sx

val run_validate : sx -> sx

type rat = z * z

val round_half_even : rat -> z

val candidates : (z * z) list

val fits : z -> z -> (z * z) -> bool

val first_fit : z -> z -> (z * z) list -> nat -> nat option

val choose_int_dtype : rat -> rat -> nat option

val round_values : rat list -> z list

val sx_rat : sx -> rat option

val run_choose : sx -> sx

val run_round : sx -> sx

val dispatch : z -> sx -> sx
