(* Dumb driver: one case per line  "<tag> <sx>"  ->  one result per line "<sx>".
   sx ::= integer | '(' sx* ')'.  Integers are converted with the model's own
   Z arithmetic (z_push / z_pop), so they are unbounded. *)
open Model

let rec pos_of_int n =
  if n = 1 then XH else if n land 1 = 0 then XO (pos_of_int (n lsr 1)) else XI (pos_of_int (n lsr 1))
let z_of_small n = if n = 0 then Z0 else if n > 0 then Zpos (pos_of_int n) else Zneg (pos_of_int (-n))
let rec int_of_pos = function XH -> 1 | XO p -> 2 * int_of_pos p | XI p -> 2 * int_of_pos p + 1
let small_of_z = function Z0 -> 0 | Zpos p -> int_of_pos p | Zneg p -> - (int_of_pos p)

let z_of_string s =
  let n = String.length s in
  let neg = n > 0 && s.[0] = '-' in
  let acc = ref Z0 in
  for i = (if neg then 1 else 0) to n - 1 do
    let c = Char.code s.[i] - 48 in
    if c < 0 || c > 9 then failwith ("bad integer " ^ s);
    acc := z_push !acc (z_of_small c)
  done;
  if neg then z_neg !acc else !acc

let string_of_z z =
  if z_is_zero z then "0" else begin
    let neg = z_is_neg z in
    let z = ref (if neg then z_neg z else z) in
    let buf = Buffer.create 16 in
    while not (z_is_zero !z) do
      let (q, r) = z_pop !z in
      Buffer.add_char buf (Char.chr (48 + small_of_z r));
      z := q
    done;
    let s = Buffer.contents buf in
    let n = String.length s in
    let r = String.init n (fun i -> s.[n - 1 - i]) in
    if neg then "-" ^ r else r
  end

(* parser *)
let parse (s : string) (pos : int ref) : sx =
  let n = String.length s in
  let rec skip () = if !pos < n && (s.[!pos] = ' ' || s.[!pos] = '\t') then (incr pos; skip ()) in
  let rec item () =
    skip ();
    if !pos >= n then failwith "unexpected end";
    if s.[!pos] = '(' then begin
      incr pos;
      let items = ref [] in
      let rec loop () =
        skip ();
        if !pos >= n then failwith "unclosed paren";
        if s.[!pos] = ')' then incr pos
        else begin items := item () :: !items; loop () end in
      loop ();
      L (List.rev !items)
    end else begin
      let start = !pos in
      while !pos < n && s.[!pos] <> ' ' && s.[!pos] <> '(' && s.[!pos] <> ')' do incr pos done;
      I (z_of_string (String.sub s start (!pos - start)))
    end in
  item ()

let rec print buf = function
  | I z -> Buffer.add_string buf (string_of_z z)
  | L l ->
      Buffer.add_char buf '(';
      List.iteri (fun i x -> if i > 0 then Buffer.add_char buf ' '; print buf x) l;
      Buffer.add_char buf ')'

let () =
  try
    while true do
      let line = input_line stdin in
      if String.length line > 0 then begin
        let pos = ref 0 in
        let tag = parse line pos in
        let arg = parse line pos in
        let res = match tag with I t -> dispatch t arg | L _ -> failwith "bad tag" in
        let buf = Buffer.create 256 in
        print buf res;
        print_string (Buffer.contents buf);
        print_newline ()
      end
    done
  with End_of_file -> ()
