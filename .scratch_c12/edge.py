import random, tempfile, pathlib, warnings, itertools, json, shutil
from harness.props import c12
from cell_type_mapper.marker_selection.marker_array import MarkerGeneArray
from cell_type_mapper.marker_selection.selection import select_marker_genes_v2
from cell_type_mapper.marker_selection.selection_pipeline import select_all_markers
d = pathlib.Path(tempfile.mkdtemp(prefix='c12edge_'))
rng = random.Random(5)
def mk(kind):
    w = c12.gen_world(rng)
    t = c12.table_of(w)
    ng = len(w['genes'])
    for pr in t:
        if kind == 'empty': t[pr] = ([], [])
        elif kind == 'noup': t[pr] = (t[pr][0], [])
        elif kind == 'nodown': t[pr] = ([], t[pr][1])
        elif kind == 'all': t[pr] = (list(range(0, ng//2)), list(range(ng//2, ng)))
    w['table'] = {f'{a}|{b}': v for (a, b), v in t.items()}
    return w
import collections
out = collections.Counter()
for kind in ['empty', 'noup', 'nodown', 'all']:
    for i in range(25):
        w = mk(kind)
        tree, ref, stats = c12.write_files(w, d, f'{kind}{i}')
        for parent in tree.all_parents:
            if not tree.leaves_to_compare(parent): continue
            for bh in (False, True):
                o = c12.run_function_case(w, tree, ref, parent, bh)
                if not o['ok']:
                    out[(kind, o['msg'][:100])] += 1
                else:
                    bad = c12.census(w, parent, o['selected'], o['n_per'])
                    out[(kind, 'ok', bool(bad))] += 1
        try:
            with warnings.catch_warnings(), c12.quiet_stdout():
                warnings.simplefilter('ignore')
                res, _ = select_all_markers(marker_cache_path=ref, query_gene_names=list(w['query']), taxonomy_tree=tree,
                    n_per_utility=w['n_per_utility'], n_processors=2, behemoth_cutoff=rng.choice([0,1,10**9]), tmp_dir=str(d))
            out[(kind, 'stage ok')] += 1
        except Exception as e:
            out[(kind, 'stage', repr(e)[:100])] += 1
for k, v in sorted(out.items(), key=str): print(k, v)
shutil.rmtree(d)
