# sanity of the alarm: run the C12 harness against deliberately broken variants of the real functions
# (monkeypatched in this process only; /repo is not touched)
import sys, numpy as np
from harness import core
from harness.props import c12
import cell_type_mapper.marker_selection.selection as sel
which = sys.argv[1]
if which == 'maxed':
    def bad(marker_counts, marker_census, n_per_utility):
        maxed_out = (marker_counts['marker_counts'] == marker_census)
        tot_maxed = (marker_counts['aggregate'] >= n_per_utility)      # BUG: n instead of 2n
        maxed_out[:, 0] = np.logical_or(maxed_out[:, 0], tot_maxed)
        maxed_out[:, 1] = np.logical_or(maxed_out[:, 1], tot_maxed)
        return maxed_out
    sel._get_maxed_out = bad
elif which == 'possible':
    def bad(marker_census, n_per_utility):
        return np.ones(marker_census.shape[0], dtype=bool)             # BUG: every pair "possible"
    sel._get_are_possible = bad
elif which == 'tie':
    orig = sel._choose_one_gene
    def bad(marker_gene_idx_set, marker_gene_name_list, utility_array, sorted_utility_idx, marker_gene_array,
            marker_counts, taxonomy_idx_array, chosen_idx=None):
        if chosen_idx is None and len(sorted_utility_idx) > 1:
            sorted_utility_idx[-1], sorted_utility_idx[-2] = sorted_utility_idx[-2], sorted_utility_idx[-1]   # second best
        return orig(marker_gene_idx_set, marker_gene_name_list, utility_array, sorted_utility_idx, marker_gene_array,
                    marker_counts, taxonomy_idx_array, chosen_idx=chosen_idx)
    sel._choose_one_gene = bad
ctx = core.Check('C12', 'quick', 0)
ctx.replay_path = lambda obj: 'not-written'
import types
def n(self, q, t): return max(1, q // 4)
ctx.n = types.MethodType(n, ctx)
c12.run(ctx)
import collections
print(which, 'violations:', len(ctx.violations))
for w, p, ni in ctx.violations[:4]:
    print('  ', 'corr-only' if ni else 'PROPERTY', w[:230])
import shutil; shutil.rmtree(ctx.scratch, ignore_errors=True)
