import random, json
from harness.props import c12
rng = random.Random(11)
for i in range(30):
    w = c12.gen_world(rng)
    if w['override'] and len(w['tree']['hierarchy']) >= 2: break
w = dict(w)
w['override'] = [[('None' if k is None else list(k)), v] for k, v in w['override'].items()]
json.dump({'kind': 'function', 'world': w, 'class': 'x'}, open('.scratch_c12/rec_fn.json', 'w'), default=str)
json.dump({'kind': 'stage', 'world': w, 'class': 'x'}, open('.scratch_c12/rec_st.json', 'w'), default=str)
