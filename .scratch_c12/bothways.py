import tempfile, pathlib, shutil, warnings
from harness.props import c12
from cell_type_mapper.marker_selection.marker_array import MarkerGeneArray
from cell_type_mapper.marker_selection.selection import select_marker_genes_v2
d = pathlib.Path(tempfile.mkdtemp())
world = {'tree': {'hierarchy': ['cl'], 'cl': {'a': [], 'b': []}}, 'genes': ['g0', 'g1', 'g2'],
         'table': {'a|b': ([0], [0, 1, 2])}, 'query': ['g0', 'g1', 'g2'], 'n_per_utility': 1, 'override': None,
         'small_dtype': False, 'density': 'x'}
tree, ref, stats = c12.write_files(world, d, 0)
arr = MarkerGeneArray.from_cache_path(cache_path=ref, query_gene_names=world['query'])
print(select_marker_genes_v2(marker_gene_array=arr, query_gene_names=world['query'], taxonomy_tree=tree, parent_node=None, n_per_utility=1))
shutil.rmtree(d)
