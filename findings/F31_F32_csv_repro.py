"""Reproduction of findings F31 and F32 (property C15, CSV output) against the unchanged package.

Run:  PYTHONPATH=/repo/src /venv/bin/python -W ignore findings/F31_F32_csv_repro.py

F31  two taxonomy levels with ONE readable name (hierarchy_mapper) -> the CSV silently loses the earlier level.
F32  a cell id with unquoted leading blanks whose blanks straddle pandas' 262144-byte tokenizer chunk is read back
     without (some of) them by pd.read_csv(path, comment='#'), the call of the example notebooks.
"""
import os
import tempfile
import warnings

import pandas as pd

from cell_type_mapper.taxonomy.taxonomy_tree import TaxonomyTree
from cell_type_mapper.utils.output_utils import blob_to_csv

warnings.simplefilter('ignore')


def lv(a, p):
    return {'assignment': a, 'bootstrapping_probability': p, 'avg_correlation': 0.5,
            'runner_up_assignment': [], 'runner_up_correlation': [], 'runner_up_probability': [],
            'aggregate_probability': p, 'directly_assigned': True}


with tempfile.TemporaryDirectory() as d:
    # ---- F31
    data = {'hierarchy': ['L7', 'L8'], 'L7': {'n1': ['n11', 'n12']}, 'L8': {'n11': [], 'n12': []},
            'hierarchy_mapper': {'L7': 'type', 'L8': 'type'}}
    tree = TaxonomyTree(data=data)          # accepted
    path = os.path.join(d, 'f31.csv')
    blob_to_csv(results_blob=[{'cell_id': 'c100', 'L7': lv('n1', 0.37), 'L8': lv('n11', 0.25)}], taxonomy_tree=tree,
                output_path=path, confidence_key='bootstrapping_probability',
                confidence_label='bootstrapping_probability')
    print('F31:')
    print(open(path).read())
    # -> header cell_id,type_label,type_name,type_bootstrapping_probability,type_alias ; row c100,n11,n11,0.2500,n11
    #    level L7 (n1, 0.37) appears nowhere

    # ---- F32
    tree = TaxonomyTree(data={'hierarchy': ['class'], 'class': {'A': []}})
    ids = ['   cell %06d' % i for i in range(12000)]
    path = os.path.join(d, 'f32.csv')
    print('F32:')
    for pad in (24, 25, 26):
        blob_to_csv(results_blob=[{'cell_id': c, 'class': lv('A', 0.5)} for c in ids], taxonomy_tree=tree,
                    output_path=path, confidence_key='bootstrapping_probability',
                    confidence_label='bootstrapping_probability', metadata_path='x/' + 'o' * pad + '.json')
        text = open(path).read()
        got = list(pd.read_csv(path, comment='#')['cell_id'])
        bad = [(a, b, text.index(a + ',')) for a, b in zip(ids, got) if a != b]
        print(' file of', len(text), 'bytes:', bad)
    # -> [('   cell 009354', 'cell 009354', 262141)], [(..., ' cell 009354', 262142)], [(..., '  cell 009354', 262143)]
