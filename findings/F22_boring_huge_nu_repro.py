"""Finding F22 (C11-boring-huge-nu): approximate_welch_t_test (boring_t) skips a gene whose exact Holm-corrected Welch p-value is below p_th.
boring_t_from_p_value(p_th) interpolates the NORMAL quantile linearly and lands ~6e-7 above it; for nu above a
few million the Student CDF is closer to the normal one than that, so |t| slightly below boring_t has an exact
p-value < p_th, yet the gene gets cdf = 0.5 (p = 1)."""
import numpy as np, scipy.stats as ss
from cell_type_mapper.utils.stats_utils import boring_t_from_p_value, welch_t_test
from cell_type_mapper.diff_exp.scores import score_differential_genes
p_th = 0.01
bt = boring_t_from_p_value(p_th)
n = 10 ** 7
se = np.sqrt(2.0 / n)                      # var = 1 in both clusters
d = (bt - 2.0e-7) * se                     # mean difference: t just inside (-boring_t, boring_t)
stats = {'c/a': {'n_cells': n, 'mean': np.array([8.0 + d]), 'var': np.array([1.0]), 'ge1': np.array([n])},
         'c/b': {'n_cells': n, 'mean': np.array([8.0]), 'var': np.array([1.0]), 'ge1': np.array([0])}}
tt, nu, p_exact = welch_t_test(mean1=stats['c/a']['mean'], var1=stats['c/a']['var'], n1=n,
                               mean2=stats['c/b']['mean'], var2=stats['c/b']['var'], n2=n)
print('boring_t', repr(bt), 't', repr(float(tt[0])), 'nu', float(nu[0]), 'exact p', repr(float(p_exact[0])), '< p_th:', p_exact[0] < p_th)
kw = dict(node_1='c/a', node_2='c/b', precomputed_stats=stats, p_th=p_th, q1_th=0.5, qdiff_th=0.7, log2_fold_th=0.001,
          q1_min_th=0.1, qdiff_min_th=0.1, log2_fold_min_th=0.0005, n_cells_min=2, exact_penetrance=True)
_, v_exact, _ = score_differential_genes(boring_t=None, **kw)
_, v_code, _ = score_differential_genes(boring_t=bt, **kw)      # what _find_markers_worker calls
print('marker with exact p-values:', v_exact.tolist(), ' marker as the worker computes it:', v_code.tolist())
assert v_exact.tolist() == [True] and v_code.tolist() == [False]
