"""Finding F28 (C07): permuting the gene columns of a RAW query file together with their names does not leave the
result bitwise unchanged.  convert_to_cpm sums every row with np.sum(axis=1) in the storage dtype and in column
order; a float sum depends on the order of its terms, so for raw data whose row sums are not exact (non-integer
float64 values, or float32 counts with row sum > 2^24) CPM, log2CPM and the reported avg_correlation differ in the
last bits.  Assignments and bootstrapping probabilities were equal in every run tried.
Run:  PYTHONPATH=/repo/src:/verif /venv/bin/python -W ignore findings/F28_raw_permutation_repro.py"""
import pathlib, random, shutil, tempfile
import numpy as np
from cell_type_mapper.cell_by_gene.cell_by_gene import CellByGeneMatrix

# 1. function level.  (i) the mechanism on three genes: float32 counts, row sum 2^24 + 2
from cell_type_mapper.cell_by_gene.utils import convert_to_cpm
a = np.array([[16777216, 1, 1]], dtype=np.float32)
c1, c2 = convert_to_cpm(a), convert_to_cpm(a[:, [2, 1, 0]])
print('float32 [2^24,1,1]: row sum', float(a.sum(axis=1)[0]), ' permuted [1,1,2^24]: row sum', float(a[:, [2, 1, 0]].sum(axis=1)[0]))
print('   CPM of the first gene:', repr(float(c1[0, 0])), ' after permuting the columns:', repr(float(c2[0, 2])))
assert c1[0, 0] != c2[0, 2]
# (ii) CellByGeneMatrix.to_log2CPM_in_place on 200 cells x 40 genes of float64 non-integer raw values
r0 = np.random.default_rng(1)
raw = r0.random((200, 40)) * 40.0
perm = r0.permutation(40)
names = [f'g{i}' for i in range(40)]
m1 = CellByGeneMatrix(data=raw.copy(), gene_identifiers=names, normalization='raw')
m2 = CellByGeneMatrix(data=raw[:, perm].copy(), gene_identifiers=[names[j] for j in perm], normalization='raw')
m1.to_log2CPM_in_place(); m2.to_log2CPM_in_place()
nd = int((m1.data[:, perm] != m2.data).sum())
print(f'to_log2CPM_in_place, float64 non-integer raw, permuted columns: {nd}/8000 entries not bitwise equal, '
      f'max |delta| {np.abs(m1.data[:, perm] - m2.data).max():.2e}')
assert nd > 0

# 2. the real run_mapping (through the harness' scenario writer), float64 non-integer raw, bootstrap_factor 1.0
from harness import pipeline, paired
class Ctx: pass
ctx = Ctx(); ctx.scratch = pathlib.Path(tempfile.mkdtemp(prefix='f28_'))
rng = random.Random(5)
tot = nb = asg = 0
for k in range(12):
    sc = pipeline.gen_scenario(rng, max_levels=3, max_leaves=6, n_cells=10)
    ng = len(sc.query_genes)
    raw = np.array([[rng.random() * 40 if rng.random() < 0.8 else 0.0 for _ in range(ng)] for _ in sc.cell_ids])
    v = paired.base_var(rng, sc, factor=1.0)
    perm = list(range(ng)); rng.shuffle(perm)
    ra = paired.run_once(ctx, sc, f'a{k}', query=raw, normalization='raw', **v)
    rb = paired.run_once(ctx, sc, f'b{k}', query=raw[:, perm], genes=[sc.query_genes[j] for j in perm], normalization='raw', **v)
    x, y = paired.by_cell(ra), paired.by_cell(rb)
    for cid in sc.cell_ids:
        for lv in sc.tree.levels:
            tot += 1
            asg += x[cid][lv]['assignment'] != y[cid][lv]['assignment']
            if x[cid][lv]['avg_correlation'] != y[cid][lv]['avg_correlation']:
                nb += 1
                if nb <= 3:
                    print(' ', cid, lv, repr(x[cid][lv]['avg_correlation']), 'vs', repr(y[cid][lv]['avg_correlation']))
shutil.rmtree(ctx.scratch)
print(f'run_mapping, raw float64 non-integer, gene columns permuted: {nb}/{tot} avg_correlation values not bitwise equal; '
      f'assignments differing: {asg}')
assert nb > 0 and asg == 0
