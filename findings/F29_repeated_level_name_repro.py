"""Finding F29 (C10): validate_taxonomy_tree accepts a hierarchy that repeats a level NAME (when the repeated name is
the top level: child_to_parent is keyed by level name and the top level records no parents), and TaxonomyTree silently
builds an object that is no tree.
Run:  PYTHONPATH=/repo/src /venv/bin/python -W ignore findings/F29_repeated_level_name_repro.py"""
from cell_type_mapper.taxonomy.taxonomy_tree import TaxonomyTree
d = {'hierarchy': ['a', 'b', 'a'], 'a': {'x': ['p', 'q'], 'y': ['r']}, 'b': {'p': ['x'], 'q': ['y'], 'r': []}}
t = TaxonomyTree(data=d)                                  # accepted
print('hierarchy', t.hierarchy, 'leaf level', t.leaf_level, 'leaves', t.all_leaves)
print("children('b','p') =", t.children('b', 'p'), " but parents('a','x') =", t.parents('a', 'x'))
print("children('a','x') =", t.children('a', 'x'), "-> leaves of p, q =", t.as_leaves['b']['p'], t.as_leaves['b']['q'],
      " but as_leaves['a']['x'] =", t.as_leaves['a']['x'])
print("rows_for_leaf('x') =", t.rows_for_leaf('x'), '(the names of its "children")')
print("drop_level('b') ->", t.drop_level('b').to_str())
try:
    t.flatten()
except RuntimeError as e:
    print('flatten() raises:', str(e).replace('\n', ' ')[:90])
assert t.children('b', 'p') == ['x'] and t.parents('a', 'x') == {}            # parent/child queries not inverse
assert sorted(t.as_leaves['b']['p'] + t.as_leaves['b']['q']) == ['x', 'y'] and t.as_leaves['a']['x'] == ['x']   # no partition
