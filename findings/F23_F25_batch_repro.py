"""F23 / F24 / F25 (C12, genes_at_a_time >= 2) on the real _run_selection - the three tables of
coq/Props/C12.v ex_batch_f23 / ex_batch_f24 / ex_batch_f25.

    PYTHONPATH=<checkout of cell_type_mapper>/src python findings/F23_F25_batch_repro.py

unrepaired code, k = 2:   F23 -> ['g2', 'g1', 'g0', 'g3']   (g3 marks no pair of the parent)
                          F24 -> IndexError: pop from empty list
                          F25 -> RuntimeError: Something is wrong; chose gene 4 twice
repaired (fix commit 0bb86f4 "fix: _choose_gene stops a batch early when no useful gene is left"):
                          the lists of k = 1: ['g2','g1','g0'], ['g2','g1','g0'], ['g3','g4','g2','g0','g1']"""
import numpy as np, sys
from cell_type_mapper.marker_selection.selection import _run_selection
class Arr:
    def __init__(self, n_genes, pd):            # pd: per pair (down genes, up genes)
        self.n_genes, self.n_pairs, self.pd = n_genes, len(pd), pd
        self.gene_names = [f'g{i}' for i in range(n_genes)]
    def marker_mask_from_pair_idx(self, pair_idx):
        m = np.zeros(self.n_genes, bool); u = np.zeros(self.n_genes, bool)
        d, up = self.pd[pair_idx]; m[d] = True; m[up] = True; u[up] = True
        return m, u
    def marker_mask_from_gene_idx(self, gene_idx):
        m = np.array([gene_idx in d or gene_idx in u for d, u in self.pd]); u = np.array([gene_idx in u for d, u in self.pd])
        return m, u
    def _cnt(self, pairs, col):
        r = np.zeros(self.n_genes, int)
        for p in pairs: r[self.pd[p][col]] += 1
        return r
    def up_mask_from_pair_idx_batch(self, pairs): return self._cnt(pairs, 1)
    def down_mask_from_pair_idx_batch(self, pairs): return self._cnt(pairs, 0)
def go(name, n_genes, pd, n, k):
    a = Arr(n_genes, pd)
    census = np.array([[len(d), len(u)] for d, u in pd])
    util = np.zeros(n_genes)
    for d, u in pd:
        util[d] += 1; util[u] += 1
    try:
        out = _run_selection(marker_gene_array=a, utility_array=util, marker_census=census,
                             taxonomy_idx_array=np.arange(len(pd)), n_per_utility=n, parent_node=None, genes_at_a_time=k)[0]
    except Exception as e:
        out = f'{type(e).__name__}: {e}'
    print(name, 'k =', k, '->', out)
for k in (1, 2):
    go('F23', 4, [([], [0, 1, 2])], 2, k)
    go('F24', 3, [([], [0, 1, 2])], 2, k)
    go('F25', 5, [([], [0, 1, 2]), ([], [3, 4]), ([], [])], 2, k)
