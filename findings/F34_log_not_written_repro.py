"""F34 (C14): a worker of the assignment pool fails AND log_path is an existing directory: run_mapping writes NO log.

    CELL_TYPE_MAPPER_VERIF=1 PYTHONPATH=/repo/src:/verif /venv/bin/python -W ignore findings/F34_log_not_written_repro.py

cli/from_specified_markers.py:run_mapping
    for pth in (output_path, log_path):
        if pth is not None:
            if not pth.exists():        # an existing DIRECTORY is not probed
                ...
    try: output = _run_mapping(...)      # the inspector raises RuntimeError: One of the processes exited with code 1
    except Exception: log.add_msg(traceback); raise
    finally:
        ...
        log.write_log(log_path)          # IsADirectoryError: the rest of `finally` is skipped
        ... write JSON (holds the log too) ... blob_to_hdf5
The caller sees IsADirectoryError (the worker's RuntimeError only as __context__); the output directory holds neither
log nor JSON nor HDF5.  C14: "A mapping run in that situation ... still writes its log".  The configuration is invalid
(no log can be written to a directory); the same configuration WITHOUT a worker failure raises too, after writing the CSV
and the success message.  Minimal repair: probe log_path / output_path also when they exist (reject a directory), or
guard log.write_log in `finally` so that the JSON is still written."""
import pathlib
import random
import shutil
import tempfile

from harness import faults, pipeline
from harness.props import c14

base = pathlib.Path(tempfile.mkdtemp(prefix='f34_'))
try:
    c14.mapping_inputs(random.Random(0), base, 6)
    d = base / 'run'
    d.mkdir()
    cfg = pipeline.config_for(d, base / 'query.h5ad', base / 'stats.h5', base / 'markers.json', chunk_size=3, n_processors=2)
    pathlib.Path(cfg['log_path']).mkdir()
    res = c14.call_stage(c14.mapping_call(cfg), ['mapping'],
                         fault={'stage': 'mapping', 'worker': 0, 'mode': 'raise', 'point': 'before'},
                         trace_dir=d / 'trace', poll_sleep=0.002)
    print('raised :', res['error'])
    for x in res['chain'][1:]:
        print('context:', x['etype'] + ':', x['msg'])
    print('output directory:', c14.listing(d / 'out'))
    ok = (res['etype'] == 'IsADirectoryError' and c14.listing(d / 'out') == ['log.txt']
          and any('exited with code' in x['msg'] for x in res['chain'][1:]))
    print('F34 reproduced' if ok else 'not reproduced')
finally:
    faults.uninstall()
    shutil.rmtree(base, ignore_errors=True)
