"""F30 (C19): run_mapping's write probe leaves 'junk' at the target of a dangling symbolic link.

    PYTHONPATH=/repo/src:/verif /venv/bin/python -W ignore findings/F30_dangling_symlink_output_repro.py

cli/from_specified_markers.py:run_mapping
    for pth in (output_path, log_path):
        if pth is not None:
            if not pth.exists():                 # follows the link: False for a dangling link
                with open(pth, 'w') as out_file: # follows the link: creates the TARGET
                    out_file.write('junk')
                pth.unlink()                     # removes the LINK
The run succeeds; afterwards elsewhere/target.json holds b'junk' (a file created outside the requested output
locations, in a directory the run was never given) and out/result.json is a regular file.
Minimal repair: `if not os.path.lexists(pth)` (or skip the probe for symbolic links), or unlink pth.resolve()."""
import contextlib
import io
import os
import pathlib
import random
import shutil
import tempfile

from harness.props import c19

base = pathlib.Path(tempfile.mkdtemp(prefix='f30_'))
try:
    src = base / 'src'
    c19.mapping_inputs(random.Random(3), src)
    sb = c19.sandbox(base, 'box')
    (sb / 'elsewhere').mkdir()
    cfg = c19.mapping_job('x', sb, src, 't')['args']['config']
    link = pathlib.Path(cfg['extended_result_path'])
    os.symlink(sb / 'elsewhere' / 'target.json', link)
    print('before: elsewhere/ =', sorted(p.name for p in (sb / 'elsewhere').iterdir()),
          '| out/result is a link:', link.is_symlink(), '| exists():', link.exists())
    from cell_type_mapper.cli.from_specified_markers import run_mapping
    with contextlib.redirect_stdout(io.StringIO()), contextlib.redirect_stderr(io.StringIO()):
        run_mapping(cfg, output_path=cfg['extended_result_path'], log_path=cfg['log_path'],
                    hdf5_output_path=cfg['hdf5_result_path'])
    left = {p.name: p.read_bytes()[:10] for p in (sb / 'elsewhere').iterdir()}
    print('after:  elsewhere/ =', left, '| out/result is a link:', link.is_symlink())
    print('F30 reproduced' if left.get('target.json') == b'junk' else 'not reproduced')
finally:
    shutil.rmtree(base, ignore_errors=True)
