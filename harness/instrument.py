"""Harness-side wrappers (no source hook): installed in the checking interpreter,
inherited by the forked workers of the mapping stage.  They record, per worker
process, every bootstrap subset drawn in tally_votes together with the parent node
and the gene / leaf lists of that node, as JSON lines in TRACE_DIR/<pid>.jsonl."""
import json
import os

import numpy as np

STATE = {'dir': None, 'chunk': None, 'parent': None, 'installed': False, 'saved': {}}


def _emit(rec):
    d = STATE['dir']
    if d is None:
        return
    with open(os.path.join(d, f'{os.getpid()}.jsonl'), 'a') as f:
        f.write(json.dumps(rec) + '\n')


class _RngProxy:
    def __init__(self, rng, log):
        self._rng = rng
        self._log = log

    def choice(self, a, size=None, replace=True, **kw):
        out = self._rng.choice(a, size, replace=replace, **kw)
        self._log.append([int(x) for x in np.asarray(out).reshape(-1)])
        return out

    def __getattr__(self, name):
        return getattr(self._rng, name)


def install(trace_dir):
    from cell_type_mapper.type_assignment import election
    if STATE['installed']:
        STATE['dir'] = str(trace_dir)
        return
    STATE['dir'] = str(trace_dir)
    STATE['installed'] = True
    s = STATE['saved']
    s['worker'] = election._run_type_assignment_on_h5ad_worker
    s['rta'] = election._run_type_assignment
    s['assemble'] = election.assemble_query_data
    s['tally'] = election.tally_votes

    def worker(*args, **kwargs):
        STATE['chunk'] = [int(kwargs['r0']), int(kwargs['r1'])]
        _emit({'ev': 'chunk', 'chunk': STATE['chunk'], 'names': list(kwargs['query_cell_names'])})
        return s['worker'](*args, **kwargs)

    def rta(*args, **kwargs):
        STATE['parent'] = kwargs.get('parent_node')
        return s['rta'](*args, **kwargs)

    def assemble(*args, **kwargs):
        out = s['assemble'](*args, **kwargs)
        p = kwargs.get('parent_node')
        _emit({'ev': 'node', 'chunk': STATE['chunk'], 'parent': None if p is None else list(p),
               'genes': list(out['query_data'].gene_identifiers),
               'leaves': list(out['reference_data'].cell_identifiers),
               'types': list(out['reference_types']),
               'n_cells': int(out['query_data'].n_cells)})
        return out

    def tally(*args, **kwargs):
        log = []
        kwargs = dict(kwargs)
        kwargs['rng'] = _RngProxy(kwargs['rng'], log)
        out = s['tally'](*args, **kwargs)
        p = STATE['parent']
        _emit({'ev': 'subsets', 'chunk': STATE['chunk'], 'parent': None if p is None else list(p),
               'n_markers': int(kwargs['query_gene_data'].shape[1]),
               'factor': float(kwargs['bootstrap_factor']), 'subsets': log})
        return out

    election._run_type_assignment_on_h5ad_worker = worker
    election._run_type_assignment = rta
    election.assemble_query_data = assemble
    election.tally_votes = tally


def uninstall():
    from cell_type_mapper.type_assignment import election
    if not STATE['installed']:
        return
    s = STATE['saved']
    election._run_type_assignment_on_h5ad_worker = s['worker']
    election._run_type_assignment = s['rta']
    election.assemble_query_data = s['assemble']
    election.tally_votes = s['tally']
    STATE['installed'] = False
    STATE['dir'] = None


def read_trace(trace_dir):
    recs = []
    for name in sorted(os.listdir(trace_dir)):
        if name.endswith('.jsonl'):
            with open(os.path.join(trace_dir, name)) as f:
                for line in f:
                    recs.append(json.loads(line))
    return recs
