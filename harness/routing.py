"""Function-level tie for election.run_type_assignment: the real function is run with
_run_type_assignment replaced by a table-driven oracle (a harness-side wrapper; no
source hook) and compared with Model/Election.v:run_type_assignment (tag 101)."""
from fractions import Fraction

import numpy as np

from harness import trees


def gen_choices(rng, gt, cell_ids):
    """A choice for every (parent with >= 2 children, cell)."""
    table = {}
    parents = [(None, [n for n, _ in gt.model[0]])]
    for li, lv in enumerate(gt.model[:-1]):
        for node, kids in lv:
            parents.append(((li, node), kids))
    for parent, kids in parents:
        if len(kids) < 2:
            continue
        for c in cell_ids:
            k = rng.choice(kids)
            others = [x for x in kids if x != k]
            rng.shuffle(others)
            nr = rng.randrange(0, min(3, len(others)) + 1)
            runners = []
            for o in others[:nr]:
                runners.append((o, rng.random() < 0.8, Fraction(rng.randrange(-64, 65), 64),
                                Fraction(rng.randrange(1, 33), 64)))
            table[(parent, c)] = (k, Fraction(rng.randrange(1, 65), 64),
                                  Fraction(rng.randrange(-64, 65), 64), runners)
    return table


def pkey(parent):
    return -1 if parent is None else parent[0] * 4294967296 + parent[1]


def fr(f):
    return [f.numerator, f.denominator]


def model_case(gt, cell_ids, table):
    tb = []
    for (parent, c), (k, p, co, runners) in table.items():
        tb.append([pkey(parent), c, [k, fr(p), fr(co), [[o, fr(rp), fr(rc)] for (o, valid, rc, rp) in runners if valid]]])
    return (101, [gt.model, list(cell_ids), tb])


def run_impl(gt, cell_ids, table, n_assignments=4):
    """Run the real run_type_assignment with the oracle. Returns (result, n_calls) or raises."""
    from cell_type_mapper.type_assignment import election
    from cell_type_mapper.taxonomy.taxonomy_tree import TaxonomyTree
    from cell_type_mapper.cell_by_gene.cell_by_gene import CellByGeneMatrix
    tree = TaxonomyTree(data=gt.data)
    calls = []

    def oracle(full_query_gene_data, leaf_node_matrix, marker_gene_cache_path, taxonomy_tree, parent_node,
               bootstrap_factor, bootstrap_iteration, rng, gpu_index=0, timers=None, n_assignments=10):
        ids = [int(v) for v in full_query_gene_data.data[:, 0]]
        parent = None if parent_node is None else (gt.levels.index(parent_node[0]), trees.GenTree.num(parent_node[1]))
        calls.append(parent)
        asg, prob, corr, rup = [], [], [], []
        for c in ids:
            k, p, co, runners = table[(parent, c)]
            asg.append(gt.name(k))
            prob.append(float(p))
            corr.append(float(co))
            rup.append([(gt.name(o), valid, float(rc), float(rp)) for (o, valid, rc, rp) in runners])
        return np.array(asg), np.array(prob), np.array(corr), rup
    saved = election._run_type_assignment
    election._run_type_assignment = oracle
    try:
        data = np.array([[float(c), 1.0] for c in cell_ids])
        q = CellByGeneMatrix(data=data, gene_identifiers=['g0', 'g1'], normalization='log2CPM')
        lookup = {lv: 0.5 for lv in gt.levels}
        lookup['None'] = 0.5
        res = election.run_type_assignment(
            full_query_gene_data=q, leaf_node_matrix=None, marker_gene_cache_path=None,
            taxonomy_tree=tree, bootstrap_factor_lookup=lookup, bootstrap_iteration=7,
            rng=np.random.default_rng(1), n_assignments=n_assignments)
    finally:
        election._run_type_assignment = saved
    return res, len(calls)


def canon_impl(gt, res):
    """Implementation result -> the model's wire form (rows of (asg prob corr runners agg))."""
    rows = []
    for cell in res:
        row = []
        for lv in gt.levels:
            r = cell[lv]
            p = Fraction(float(r['bootstrapping_probability']))
            c = r['avg_correlation']
            cc = [] if c is None else [fr(Fraction(float(c)))]
            runners = [[trees.GenTree.num(a), fr(Fraction(float(pp))), fr(Fraction(float(co)))]
                       for a, pp, co in zip(r['runner_up_assignment'], r['runner_up_probability'],
                                            r['runner_up_correlation'])]
            row.append([trees.GenTree.num(r['assignment']), fr(p), cc, runners,
                        fr(Fraction(float(r['aggregate_probability'])))])
        rows.append(row)
    return rows


def canon_model(rows):
    """Reduce the model's unreduced fractions."""
    def red(f):
        q = Fraction(f[0], f[1])
        return [q.numerator, q.denominator]
    out = []
    for row in rows:
        nr = []
        for a, p, c, runners, g in row:
            nr.append([a, red(p), [red(x) for x in c], [[o, red(rp), red(rc)] for o, rp, rc in runners], red(g)])
        out.append(nr)
    return out
