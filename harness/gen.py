"""Generators and file helpers shared by the property modules."""
import hashlib
import pathlib
from fractions import Fraction

import anndata
import h5py
import numpy as np
import pandas as pd
import scipy.sparse as sp


def rat(x):
    """Exact rational of a python/numpy number as [numerator, denominator]."""
    if isinstance(x, (int, np.integer)):
        return [int(x), 1]
    f = Fraction(float(x))
    return [f.numerator, f.denominator]


def digest(path):
    h = hashlib.sha256()
    with open(path, 'rb') as f:
        while True:
            b = f.read(1 << 20)
            if not b:
                break
            h.update(b)
    return h.hexdigest()


def encode_matrix(M, encoding):
    if encoding == 'dense':
        return np.array(M)
    if encoding == 'csr':
        return sp.csr_matrix(M)
    if encoding == 'csc':
        return sp.csc_matrix(M)
    raise ValueError(encoding)


def rechunk(path, key, chunks):
    """Rewrite HDF5 dataset `key` with the given chunk shape (None = contiguous)."""
    with h5py.File(path, 'a') as f:
        d = f[key]
        data = d[()]
        attrs = dict(d.attrs)
        del f[key]
        if chunks is not None:
            chunks = tuple(max(1, min(c, s)) for c, s in zip(chunks, data.shape))
            if any(s == 0 for s in data.shape):
                chunks = None
        nd = f.create_dataset(key, data=data, chunks=chunks)
        for k, v in attrs.items():
            nd.attrs.create(name=k, data=v)


def write_h5ad(path, M, obs_names, var_names, encoding='dense', layer=None,
               obs_cols=None, var_cols=None, chunks=None, x_other=None, uns=None, chunk_shape=None):
    """Write M (2-d ndarray, dtype preserved) to `path` as X or as layers[layer].
    chunks: None (leave as anndata writes) | 'contiguous' | int n (n-element / n x n chunks).
    chunk_shape: optional (r, c) - a dense matrix is stored in r x c HDF5 chunks (clipped to the
    shape of the matrix) instead of the square ones `chunks` gives; sparse encodings ignore it."""
    obs = pd.DataFrame(obs_cols or {}, index=pd.Index([str(o) for o in obs_names]))
    var = pd.DataFrame(var_cols or {}, index=pd.Index([str(v) for v in var_names]))
    if layer is None:
        a = anndata.AnnData(X=encode_matrix(M, encoding), obs=obs, var=var, uns=uns or {})
    else:
        other = x_other if x_other is not None else np.zeros(M.shape, dtype=np.float32)
        a = anndata.AnnData(X=other, obs=obs, var=var, layers={layer: encode_matrix(M, encoding)},
                            uns=uns or {})
    a.write_h5ad(path)
    if chunks is not None:
        key = 'X' if layer is None else f'layers/{layer}'
        c = None if chunks == 'contiguous' else chunks
        if encoding == 'dense':
            if chunk_shape is None:
                rechunk(path, key, None if c is None else (c, c))
        else:
            for sub in ('data', 'indices', 'indptr'):
                rechunk(path, f'{key}/{sub}', None if c is None else (c,))
    if chunk_shape is not None and encoding == 'dense':
        rechunk(path, 'X' if layer is None else f'layers/{layer}', tuple(int(v) for v in chunk_shape))
    return path


def read_x_dense(path, layer=None):
    a = anndata.read_h5ad(path)
    X = a.X if layer is None else a.layers[layer]
    if sp.issparse(X):
        X = X.toarray()
    return np.asarray(X), a


def str_codes(s):
    return [ord(c) for c in s]
