"""Pipeline-level tie shared by C01/C02/C03 (and reused by C06/C07/C17/C18):
a real run_mapping on a generated scenario, its recorded bootstrap subsets, and
the recomputation of every vote by the extracted model (Vote.v, tag 201)."""
import json
import pathlib
import math
from fractions import Fraction

import numpy as np

from harness import trees, pipeline

SCALE = 8          # all generated values are multiples of 1/8


def reduced_model(sc, flatten, drop_level):
    """The taxonomy the election runs on, as (level names, model levels)."""
    levels = list(sc.tree.levels)
    model = [[[n, list(c)] for n, c in lv] for lv in sc.tree.model]
    if drop_level is not None and drop_level in levels and len(levels) > 1 and drop_level != levels[-1]:
        li = levels.index(drop_level)
        if li > 0:
            dropped = dict((n, c) for n, c in model[li])
            model[li - 1] = [[n, [g for c in cs for g in dropped[c]]] for n, cs in model[li - 1]]
        del model[li]
        del levels[li]
    if flatten:
        model = [model[-1]]
        levels = [levels[-1]]
    return levels, model


def parent_of(model, li, child):
    """parent at level li-1 of `child` at level li."""
    for n, cs in model[li - 1]:
        if child in cs:
            return n
    return None


def exact_corr(q, r):
    """Pearson correlation from exact integer vectors, constant-row convention -> 0."""
    n = len(q)
    sq, sr = sum(q), sum(r)
    c = n * sum(a * b for a, b in zip(q, r)) - sq * sr
    vq = n * sum(a * a for a in q) - sq * sq
    vr = n * sum(b * b for b in r) - sr * sr
    if vq == 0 or vr == 0:
        return 0.0, Fraction(0)
    val = c / math.sqrt(vq * vr)
    key = Fraction(c * abs(c), vr)      # sign(c) c^2 / vr : monotone in the correlation for fixed q
    return val, key


def structurally_zero(q, r):
    n = len(q)
    vq = n * sum(a * a for a in q) - sum(q) ** 2
    vr = n * sum(b * b for b in r) - sum(r) ** 2
    return vq == 0 or vr == 0


def vote_margins(q, refs, owners, subsets, winners):
    """(near_tie?, {owner: [winning correlations]}) for one cell at one node.
    A near tie = some iteration whose winning leaf is matched within 1e-9 (relative, in
    sign(c) c^2 / v) by a leaf of ANOTHER child, unless both values are exactly 0.0 in
    floating point as well (constant query or constant reference row)."""
    near = False
    corr_sum = {}
    for S, w in zip(subsets, winners):
        qs = [q[j] for j in S]
        rows = [[rr[j] for j in S] for rr in refs]
        vals = [exact_corr(qs, row) for row in rows]
        best = vals[w][1]
        for j, (_, kk) in enumerate(vals):
            if owners[j] != owners[w]:
                scale = max(abs(best), abs(kk), Fraction(1, 10 ** 6))
                if abs(best - kk) <= scale * Fraction(1, 10 ** 9):
                    if not (structurally_zero(qs, rows[j]) and structurally_zero(qs, rows[w])):
                        near = True
        corr_sum.setdefault(owners[w], []).append(vals[w][0])
    return near, corr_sum


def analyse_run(ctx, sc, cfg, res, label):
    """Checks one successful run. Returns list of (kind, message, class) problems;
    kind in {'property', 'corr'}; also updates ctx counters."""
    problems = []
    out = res['output']
    ta = cfg['type_assignment']
    iters = ta['bootstrap_iteration']
    n_assign = ta['n_runners_up'] + 1
    factor = Fraction(ta['bootstrap_factor'])
    results = out['results']
    gt = sc.tree
    stored_levels = gt.levels
    rlevels, rmodel = reduced_model(sc, cfg['flatten'], cfg['drop_level'])
    # ---------------- C01: one record per cell, in order, every stored level, flags
    if [r.get('cell_id') for r in results] != list(sc.cell_ids):
        problems.append(('property', f'cell ids / order differ: {[r.get("cell_id") for r in results]} vs {sc.cell_ids}',
                         'c01-ids-order'))
        return problems
    rows = []
    for r in results:
        row = []
        for lv in stored_levels:
            if lv not in r:
                problems.append(('property', f'cell {r["cell_id"]} lacks stored level {lv}', 'c01-level-missing'))
                return problems
            a = r[lv]
            want_direct = lv in rlevels
            if bool(a.get('directly_assigned')) != want_direct:
                problems.append(('property', f'cell {r["cell_id"]} level {lv}: directly_assigned={a.get("directly_assigned")}, '
                                 f'expected {want_direct}', 'c01-flag'))
            row.append([trees.GenTree.num(a['assignment']), [1, 1], [], [], [1, 1]])
        rows.append(row)
    spec = ctx.model([(102, [gt.model, len(sc.cell_ids), rows])])[0]
    if spec != [0, 1]:
        problems.append(('property', 'assignments are not one root-to-leaf path of the stored taxonomy per cell', 'c01-path'))
    # ---------------- trace lookup
    trace = res['trace'] or []
    chunk_of = {}
    for ev in trace:
        if ev['ev'] == 'chunk':
            for nm in ev['names']:
                chunk_of[nm] = tuple(ev['chunk'])
    nodes_ev, subs_ev = {}, {}
    for ev in trace:
        key = (tuple(ev['chunk']), None if ev.get('parent') is None else tuple(ev['parent'])) if ev['ev'] != 'chunk' else None
        if ev['ev'] == 'node':
            nodes_ev[key] = ev
        elif ev['ev'] == 'subsets':
            subs_ev[key] = ev
    # chunking as documented: effective chunk = min(max(1, ceil(n/p)), chunk_size)
    n = len(sc.cell_ids)
    eff = min(max(1, -(-n // ta['n_processors'])), ta['chunk_size'])
    want_chunks = [(a, min(n, a + eff)) for a in range(0, n, eff)]
    got_chunks = sorted(set(chunk_of.values()))
    if got_chunks != want_chunks:
        problems.append(('corr', f'chunks {got_chunks} differ from the documented chunking {want_chunks}', 'corr:Chunk.chunks'))
    for i, nm in enumerate(sc.cell_ids):
        ch = chunk_of.get(nm)
        if ch is None or not (ch[0] <= i < ch[1]):
            problems.append(('property', f'cell {nm} (row {i}) was processed in chunk {ch}', 'c01-name-pairing'))
    ref_pos = {pipeline.gname(g): j for j, g in enumerate(sc.ref_genes)}
    qpos = {pipeline.gname(g): j for j, g in enumerate(sc.query_genes)}
    mg = out.get('marker_genes', {})
    # ---------------- C08 at run level: the genes reported for every branching parent of the reduced tree are
    # the parent's listed markers that occur in the query, patched with its ancestors' lists (nearest first,
    # finally the root's) only while fewer than the CONFIGURED minimum remain -- computed from the table
    if not cfg['flatten']:
        Q = {pipeline.gname(g) for g in sc.query_genes}
        m_min = ta['min_markers']
        up = {}
        for li in range(len(rmodel) - 1):
            for x, kids_ in rmodel[li]:
                for c_ in kids_:
                    up[(li + 1, c_)] = (li, x)

        def tb(key_):
            v = sc.markers.get(key_)
            return None if v is None else {pipeline.gname(g) for g in v}
        branching = [(None, [x for x, _ in rmodel[0]])] + [((li, x), kids_) for li in range(len(rmodel) - 1) for x, kids_ in rmodel[li]]
        for par, kids_ in branching:
            if len(kids_) < 2:
                # nothing is decided at a single-child parent: no gene is used there, whatever the table lists
                key_ = 'None' if par is None else f'{rlevels[par[0]]}/{gt.name(par[1])}'
                # (the root's list is always demanded by the cache builder and always reported: exempt)
                if par is not None and mg.get(key_):
                    problems.append(('property', f'parent {key_} has a single child (no vote, no gene used) but the embedded '
                                     f'marker table lists {mg.get(key_)}', 'c15-marker-table-lists-unused-genes'))
                ctx.dist('run_parent_markers', 'single-child')
                continue
            key_ = 'None' if par is None else f'{rlevels[par[0]]}/{gt.name(par[1])}'
            own = tb(key_) or set()
            want_g = own & Q
            if par is not None and len(want_g) < m_min:
                new_, patched, cur = set(own), False, par
                while cur in up:
                    cur = up[cur]
                    a_ = tb(f'{rlevels[cur[0]]}/{gt.name(cur[1])}')
                    if a_ is None:
                        continue
                    new_ |= a_
                    patched = True
                    if len(new_ & Q) >= m_min:
                        break
                if len(new_ & Q) < m_min and tb('None') is not None:
                    new_ |= tb('None')
                    patched = True
                if patched:
                    want_g = new_ & Q
            got_g = mg.get(key_)
            if got_g is None or set(got_g) != want_g or len(set(got_g)) != len(got_g):
                problems.append(('property', f'parent {key_}: the run reports the genes {sorted(got_g) if got_g is not None else None}; '
                                 f'the marker table, the query and min_markers={m_min} imply {sorted(want_g)}', 'c08-run-genes-differ-from-spec'))
            ctx.dist('run_parent_markers', 'patched' if want_g != (own & Q) else 'own')
    # ---------------- per cell, per level of the reduced tree
    cases, meta = [], []
    for ci, r in enumerate(results):
        parent = None
        agg = 1.0
        last_real_corr = None
        for li, lv in enumerate(rlevels):
            a = r[lv]
            kids = [x for x, _ in rmodel[0]] if parent is None else dict((x, c) for x, c in rmodel[li - 1])[parent[1]]
            asg = trees.GenTree.num(a['assignment'])
            p = a['bootstrapping_probability']
            agg *= p
            if abs(a['aggregate_probability'] - agg) > 1e-12:
                problems.append(('property', f'cell {r["cell_id"]} level {lv}: aggregate_probability {a["aggregate_probability"]} '
                                 f'is not the running product {agg}', 'c03-aggregate'))
            c = a['avg_correlation']
            if c is None or not (-1 - 1e-9 <= c <= 1 + 1e-9):
                problems.append(('property', f'cell {r["cell_id"]} level {lv}: correlation {c} outside [-1,1]', 'c03-corr-range'))
            la, lp, lc = a['runner_up_assignment'], a['runner_up_probability'], a['runner_up_correlation']
            if not (len(la) == len(lp) == len(lc)):
                problems.append(('property', f'cell {r["cell_id"]} level {lv}: runner-up lists differ in length', 'c03-runner-shape'))
            if len(kids) == 1:
                if not (asg == kids[0] and p == 1.0 and la == [] and
                        (c == last_real_corr if last_real_corr is not None else c == 1.0)):
                    problems.append(('property', f'cell {r["cell_id"]} level {lv}: single-child parent gave {a} '
                                     f'(correlation of the nearest real choice above: {last_real_corr})', 'c03-single-child'))
                ctx.dist('node_kind', 'single-child')
            else:
                key = (chunk_of.get(r['cell_id']), None if parent is None else (rlevels[parent[0]], gt.name(parent[1])))
                nev, sev = nodes_ev.get(key), subs_ev.get(key)
                if nev is None or sev is None:
                    problems.append(('corr', f'no recorded vote for cell {r["cell_id"]} at parent {key}', 'corr:trace-missing'))
                else:
                    mkey = 'None' if parent is None else f'{rlevels[parent[0]]}/{gt.name(parent[1])}'
                    rep = mg.get(mkey)
                    if rep is None or sorted(rep, key=lambda g: ref_pos[g]) != nev['genes']:
                        problems.append(('property', f'genes used at {mkey} {nev["genes"]} are not the reported ones {rep} '
                                         'in reference order', 'c08-reported-vs-used'))
                    genes = nev['genes']
                    q = [int(round(sc.query[ci][qpos[g]] * SCALE)) for g in genes]
                    leaves = [trees.GenTree.num(x) for x in nev['leaves']]
                    if leaves != sorted(leaves):
                        problems.append(('corr', f'reference rows {leaves} are not the sorted leaves', 'corr:Vote.assemble'))
                    # the leaves below the parent, and the child owning each, from the tree itself
                    own_of = {}
                    for kid in kids:
                        front = [kid]
                        for lj in range(li, len(rmodel) - 1):
                            cm = dict((x, c_) for x, c_ in rmodel[lj])
                            front = [g_ for x in front for g_ in cm[x]]
                        for lf in front:
                            own_of[lf] = kid
                    got_own = [trees.GenTree.num(x) for x in nev['types']]
                    if leaves != sorted(own_of) or got_own != [own_of.get(lf) for lf in leaves]:
                        problems.append(('property', f'cell {r["cell_id"]} level {lv}: the vote at {mkey} compared the cell with leaves {leaves} '
                                         f'owned by {got_own}; the leaves below that node are {sorted(own_of)} owned by '
                                         f'{[own_of[lf] for lf in sorted(own_of)]}', 'c02-reference-rows'))
                    refs = [[int(round(sc.means[lf][int(g[1:])] * SCALE)) for g in genes] for lf in leaves]
                    owners = [trees.GenTree.num(x) for x in nev['types']]
                    votes_w = p * iters
                    if abs(votes_w - round(votes_w)) > 1e-9:
                        problems.append(('property', f'cell {r["cell_id"]} level {lv}: probability {p} is not k/{iters}', 'c03-prob-fraction'))
                    rs = [[trees.GenTree.num(x), int(round(pp * iters))] for x, pp in zip(la, lp)]
                    qf = [float(sc.query[ci][qpos[g]]) for g in genes]
                    if len(qf) > 1 and len(set(qf)) == 1 and qf[0] != 0.0 and (qf[0] * 8.0) != int(qf[0] * 8.0):
                        # a cell that is constant and not dyadic on this node's genes: in exact arithmetic every leaf
                        # is tied at correlation 0 (constant-row convention); in floats mean(x) != x, the residual is
                        # a constant ~1e-16 and rounding decides every iteration.  The exact plurality is not demanded
                        # of such a cell; its correlations must be 0 up to rounding, never NaN
                        ctx.extra['flat_cell_votes_excused'] = ctx.extra.get('flat_cell_votes_excused', 0) + 1
                        if not all(abs(v) <= 1e-9 for v in [c] + list(lc)):
                            problems.append(('property', f'cell {r["cell_id"]} level {lv}: a cell constant on the node\'s genes has '
                                             f'correlations {[c] + list(lc)} (0 up to rounding expected)', 'c02-constant-row-correlation'))
                    else:
                        cases.append((201, [q, refs, owners, sev['subsets'], [factor.numerator, factor.denominator], n_assign,
                                            [asg, int(round(votes_w)), rs]]))
                        meta.append((r['cell_id'], lv, a, q, refs, owners, sev['subsets'], kids, iters, leaves))
                last_real_corr = c
                ctx.dist('node_kind', 'vote')
            if asg not in kids:
                problems.append(('property', f'cell {r["cell_id"]} level {lv}: {asg} is not a child of {parent}', 'c01-path'))
            parent = (li, asg)
        # inferred levels repeat the numbers of the voted descendant without runner-up fields
        for k in range(len(stored_levels) - 1, -1, -1):
            lv = stored_levels[k]
            if lv in rlevels:
                continue
            below = next((x for x in stored_levels[k + 1:] if True), None)
            a, b = r[lv], r[below]
            extra = [kk for kk in a if kk.startswith('runner_up')]
            same = all(a.get(kk) == b.get(kk) for kk in ('bootstrapping_probability', 'avg_correlation', 'aggregate_probability'))
            if extra or not same:
                problems.append(('property', f'cell {r["cell_id"]} inferred level {lv}: {a} vs descendant {b}', 'c03-inferred'))
    mres = ctx.model(cases)
    for (cid, lv, a, q, refs, owners, subsets, kids, iters_, leaves), m in zip(meta, mres):
        ctx.count((label, cid, lv), nontrivial=True)
        if m[0] != 0:
            problems.append(('corr', f'model could not evaluate the vote of cell {cid} at {lv}: {m}', 'corr:Vote.tally'))
            continue
        subsets_ok, votes, winners, accepted = m[1]
        if not subsets_ok:
            problems.append(('property', f'cell {cid} level {lv}: a drawn subset is not duplicate-free / in range / of size '
                             f'max(1, round(factor*n)): {subsets} for {len(q)} markers', 'c02-subset'))
            continue
        near, corr_sum = vote_margins(q, refs, owners, subsets, winners)
        if near:
            ctx.extra['near_ties_skipped'] = ctx.extra.get('near_ties_skipped', 0) + 1
            continue
        if not accepted:
            problems.append(('property', f'cell {cid} level {lv}: reported {a} is not a plurality outcome of the recomputed votes '
                             f'{votes} (subsets {subsets})', 'c02-votes'))
            continue
        ctx.traces_validated += 1
        # average correlations (floats: tolerance)
        asg = trees.GenTree.num(a['assignment'])
        exp = sum(corr_sum[asg]) / len(corr_sum[asg])
        if abs(exp - a['avg_correlation']) > 1e-9:
            problems.append(('property', f'cell {cid} level {lv}: avg_correlation {a["avg_correlation"]} but the mean winning '
                             f'correlation over its own votes is {exp}', 'c02-avg-corr'))
        for x, cc in zip(a['runner_up_assignment'], a['runner_up_correlation']):
            xx = trees.GenTree.num(x)
            e2 = sum(corr_sum[xx]) / len(corr_sum[xx])
            if abs(e2 - cc) > 1e-9:
                problems.append(('property', f'cell {cid} level {lv}: runner-up {x} correlation {cc} vs recomputed {e2}', 'c02-avg-corr'))
        tot = a['bootstrapping_probability'] + sum(a['runner_up_probability'])
        if tot > 1 + 1e-9 or (len(kids) <= len(a['runner_up_assignment']) + 1 and abs(tot - 1) > 1e-9) or \
                (cfg['type_assignment']['n_runners_up'] + 1 >= len(kids) and abs(tot - 1) > 1e-9):
            problems.append(('property', f'cell {cid} level {lv}: winner + runners-up sum to {tot}', 'c03-sum'))
    return problems



def output_files_problems(sc, cfg, res):
    """C15 / C03 on the files of a real run: the HDF5 output read back with hdf5_to_blob and the CSV must
    tell the same story as the JSON results; the embedded taxonomy must be the STORED taxonomy (not the
    reduced one) without its cell lists."""
    problems = []
    out = res['output']
    results = out['results']
    gt = sc.tree
    # embedded taxonomy
    try:
        emb = json.loads(out['taxonomy_tree']) if isinstance(out.get('taxonomy_tree'), str) else out.get('taxonomy_tree')
    except Exception:
        emb = None
    if emb is None:
        problems.append(('property', 'no taxonomy_tree in the JSON output', 'c15-embedded-tree'))
    else:
        want = gt.data
        if emb.get('hierarchy') != want['hierarchy']:
            problems.append(('property', f"embedded taxonomy has hierarchy {emb.get('hierarchy')}, the input taxonomy {want['hierarchy']}",
                             'c15-embedded-tree'))
        else:
            for lv in want['hierarchy'][:-1]:
                a = {k: sorted(v) for k, v in emb.get(lv, {}).items()}
                b = {k: sorted(v) for k, v in want[lv].items()}
                if a != b:
                    problems.append(('property', f'embedded taxonomy differs from the input taxonomy at level {lv}', 'c15-embedded-tree'))
                    break
            leaf = want['hierarchy'][-1]
            if sorted(emb.get(leaf, {}).keys()) != sorted(want[leaf].keys()):
                problems.append(('property', 'embedded taxonomy has other leaves than the input taxonomy', 'c15-embedded-tree'))
    # flatten: the root's marker list is the union of EVERY list of the table (c08_flatten_unions), restricted to the
    # genes of the query; and it is the only list reported
    if cfg.get('flatten'):
        mg = out.get('marker_genes', {})
        qset = set(pipeline.gname(g) for g in sc.query_genes)
        rset = set(pipeline.gname(g) for g in sc.ref_genes)
        union = set(pipeline.gname(g) for v in sc.markers.values() for g in v)
        want = sorted(g for g in union if g in qset and g in rset)
        got = sorted(mg.get('None', []))
        if got != want:
            problems.append(('property', f'flattened run: the root uses / reports {got}, the union of all marker lists present in the query '
                             f'is {want}', 'c08-flatten-union'))
    # HDF5 output read back
    h5 = cfg.get('hdf5_result_path')
    if h5 and pathlib.Path(h5).exists():
        try:
            from cell_type_mapper.utils.output_utils import hdf5_to_blob
            back = hdf5_to_blob(h5)
            br = back['results']
        except Exception as e:
            problems.append(('property', f'hdf5_to_blob cannot read the HDF5 output of the run: {type(e).__name__}: {e}', 'c15-hdf5-unreadable'))
            br = None
        if br is not None:
            if [r.get('cell_id') for r in br] != [r.get('cell_id') for r in results]:
                problems.append(('property', 'HDF5 output lists other cells / another order than the JSON output', 'c15-hdf5-vs-json'))
            else:
                done = False
                for a, b in zip(results, br):
                    for lv in gt.levels:
                        x, y = a.get(lv), b.get(lv)
                        if (x is None) != (y is None):
                            problems.append(('property', f"cell {a['cell_id']}: level {lv} present in only one of JSON / HDF5", 'c15-hdf5-vs-json'))
                            done = True
                            break
                        if x is None:
                            continue
                        for k in ('assignment', 'directly_assigned'):
                            if x.get(k) != y.get(k):
                                problems.append(('property', f"cell {a['cell_id']} level {lv}: {k} {x.get(k)!r} in JSON, {y.get(k)!r} in HDF5", 'c15-hdf5-vs-json'))
                                done = True
                        for k in ('bootstrapping_probability', 'avg_correlation', 'aggregate_probability'):
                            if x.get(k) is None or y.get(k) is None or abs(x[k] - y[k]) > 1e-12:
                                problems.append(('property', f"cell {a['cell_id']} level {lv}: {k} {x.get(k)!r} in JSON, {y.get(k)!r} in HDF5", 'c15-hdf5-vs-json'))
                                done = True
                        for k in ('runner_up_assignment', 'runner_up_probability', 'runner_up_correlation'):
                            u, v = x.get(k), y.get(k)
                            if (u is None) != (v is None) or (u is not None and (len(u) != len(v) or any(
                                    (p != q) if isinstance(p, str) else abs(p - q) > 1e-12 for p, q in zip(u, v)))):
                                problems.append(('property', f"cell {a['cell_id']} level {lv}: {k} {u!r} in JSON, {v!r} in HDF5", 'c15-hdf5-vs-json'))
                                done = True
                        if done:
                            break
                    if done:
                        break
    # CSV: one row per record, in order, label columns = JSON assignments
    cp = cfg.get('csv_result_path')
    if cp and pathlib.Path(cp).exists():
        import csv as _csv
        lines = [ln for ln in open(cp, newline='').read().splitlines(True) if not ln.startswith('#')]
        rows = list(_csv.reader(lines))
        if rows:
            header, body = rows[0], rows[1:]
            if [r[header.index('cell_id')] for r in body] != [r['cell_id'] for r in results]:
                problems.append(('property', 'CSV rows are not one per record in query order', 'c15-csv-vs-json'))
            else:
                for r, row in zip(results, body):
                    rowd = dict(zip(header, row))
                    for lv in gt.levels:
                        if rowd.get(f'{lv}_label') != r[lv]['assignment']:
                            problems.append(('property', f"cell {r['cell_id']}: CSV {lv}_label {rowd.get(lv + '_label')!r}, JSON {r[lv]['assignment']!r}",
                                             'c15-csv-vs-json'))
                            break
    return problems


def gen_config_variation(rng, sc):
    lv = sc.tree.levels
    drop = None
    flatten = False
    r = rng.random()
    if r < 0.25 and len(lv) > 1:
        drop = rng.choice(lv[:-1])
    elif r < 0.35:
        drop = absent_level_name(rng, lv)
    elif r < 0.5:
        flatten = True
    elif r < 0.58 and len(lv) > 1:
        flatten = True                     # both: a level is dropped, then the rest is flattened
        drop = rng.choice(lv[:-1])
    return dict(flatten=flatten, drop_level=drop,
                chunk_size=rng.randrange(1, len(sc.cell_ids) + 4),
                n_processors=rng.randrange(1, 5),
                bootstrap_factor=rng.choice([0.5, 0.75, 1.0, 0.25, 0.875]),
                bootstrap_iteration=rng.choice([1, 2, 5, 8, 8, 5, 2, 1, 260]),
                rng_seed=rng.randrange(1, 10 ** 6),
                n_runners_up=rng.choice([0, 1, 2, 5]),
                min_markers=rng.choice([0, 1, 2, 3, 5]))


# Scenarios that random generation reaches too rarely; they open every batch.
# (non-leaf child counts per level, n_cells, config overrides)
SPECIAL = [
    # a single top node with a single child above a real choice: the trivial chain at the top
    ([[1], [1], [3]], None, dict(flatten=False, drop_level=None)),
    ([[1], [1], [1], [2]], None, dict(flatten=False, drop_level=None)),
    # single-child parents below a real choice
    ([[2], [1, 2], [1, 1, 2]], None, dict(flatten=False, drop_level=None)),
    # many cells in small chunks: chunk start rows with different numbers of digits (0, 7, 14, 21 ...)
    ([[2], [2, 2]], 23, dict(chunk_size=7, n_processors=1, flatten=False, drop_level=None)),
    ([[3]], 31, dict(chunk_size=3, n_processors=4)),
    # more bootstrap iterations than a byte can count
    ([[2], [2, 1]], 4, dict(bootstrap_iteration=300, bootstrap_factor=0.5, flatten=False, drop_level=None)),
    ([[3]], 3, dict(bootstrap_iteration=700, bootstrap_factor=1.0)),
    # a level dropped AND the rest flattened: the root must still pool every list of the table
    ([[2], [2, 2], [2, 2, 2, 2]], None, dict(flatten=True, drop_level='L1')),
    ([[2], [2, 3]], None, dict(flatten=True, drop_level='L0')),
    # every node with >= 2 children shares its name with one of its children (names are unique
    # within a level only): what is a leaf must be decided by the level, never by the name
    ([[2], [3, 2]], 12, dict(flatten=False, drop_level=None, _collide=True)),
    ([[2], [2, 2], [2, 3, 2, 2]], 14, dict(flatten=False, drop_level=None, _collide=True)),
    # no runner-up requested, split votes: an empty runner-up list does not mean a unanimous vote
    ([[3], [2, 2, 2]], 9, dict(n_runners_up=0, bootstrap_factor=0.5, bootstrap_iteration=9, flatten=False, drop_level=None)),
]


def absent_level_name(rng, levels):
    """A drop_level that is NOT a level of the taxonomy: unrelated, a proper prefix of a level name, a level name
    extended, the root key, a 'level/node' key."""
    cands = ['nonexistent_level', levels[0][:1], levels[-1][:1], levels[0] + 'x', 'None', levels[0] + '/n000']
    return rng.choice([c for c in cands if c and c not in levels])


def run_batch(ctx, n_runs, prefixes, label, max_levels=4, max_leaves=8, raise_is_violation=False):
    """n_runs real mapping runs on fresh scenarios; problems whose class starts with one of
    `prefixes` are reported for ctx.pid."""
    rng = ctx.rng
    for k in range(n_runs):
        if k < len(SPECIAL):
            shape, ncell, over = SPECIAL[k]
            over = dict(over)
            collide = over.pop('_collide', False)
            sc = pipeline.gen_scenario(rng, tree=trees.build(shape, rng, collide=collide), n_cells=ncell)
            var = gen_config_variation(rng, sc)
            var.update(over)
            if over.get('flatten') and over.get('drop_level'):
                # the parents of the dropped level hold genes that no other list of the table has
                usable = [g for g in sc.ref_genes if g in sc.query_genes]
                keys = [k for k in sc.markers if k.startswith(over['drop_level'] + '/')]
                for mk_, g in zip(keys, usable):
                    for kk in sc.markers:
                        if kk != mk_ and g in sc.markers[kk] and len(sc.markers[kk]) > 1:
                            sc.markers[kk] = [x for x in sc.markers[kk] if x != g]
                    if g not in sc.markers[mk_]:
                        sc.markers[mk_] = list(sc.markers[mk_]) + [g]
            ctx.dist('special_scenario', k)
        else:
            sc = pipeline.gen_scenario(rng, max_levels=max_levels, max_leaves=max_leaves,
                                       n_cells=rng.randrange(11, 41) if rng.random() < 0.15 else None)
            var = gen_config_variation(rng, sc)
        enc = rng.choice(['dense', 'csr', 'csc'])
        d = ctx.scratch / f'{label}_{k}'
        d.mkdir()
        pipeline.write_stats(d / 'stats.h5', sc)
        pipeline.write_markers(d / 'markers.json', sc)
        pipeline.write_query(d / 'query.h5ad', sc, encoding=enc)
        cfg = pipeline.config_for(d, d / 'query.h5ad', d / 'stats.h5', d / 'markers.json', **var)
        res = pipeline.run_mapping(cfg, trace_dir=d / 'trace')
        desc = {'kind': 'run_mapping', 'tree': sc.tree.data, 'ref_genes': sc.ref_genes, 'query_genes': sc.query_genes,
                'means': {str(a): b for a, b in sc.means.items()}, 'markers': sc.markers, 'cell_ids': sc.cell_ids,
                'query': sc.query.tolist(), 'encoding': enc, 'config': var}
        ctx.dist('run_config', f"flatten={var['flatten']} drop={'none' if var['drop_level'] is None else ('absent' if var['drop_level'] not in sc.tree.levels else 'level')}")
        ctx.dist('encoding', enc)
        ctx.dist('levels', len(sc.tree.levels))
        if k < 2:
            ctx.sample({'tree': sc.tree.data, 'markers': sc.markers, 'config': var, 'n_cells': len(sc.cell_ids)})
        if not res['ok']:
            ctx.count((label, k, 'failed'), nontrivial=False)
            ctx.extra['failed_runs'] = ctx.extra.get('failed_runs', 0) + 1
            if raise_is_violation:
                desc['class'] = 'c01-run-raises'
                desc['error'] = res['error']
                desc['traceback'] = (res.get('traceback') or '')[-1500:]
                ctx.disagreements_checked += 1
                ctx.violation(f"run_mapping raised on a valid taxonomy with usable root markers: {res['error']}", desc)
            import shutil
            shutil.rmtree(d, ignore_errors=True)
            continue
        problems = analyse_run(ctx, sc, cfg, res, f'{label}{k}') + output_files_problems(sc, cfg, res)
        for kind, msg, cls in problems:
            if not any(cls.startswith(p) for p in prefixes):
                continue
            ctx.disagreements_checked += 1
            dd = dict(desc)
            dd['class'] = cls
            ctx.violation(f'{label} run {k}: {msg}', dd, no_input=(kind == 'corr'))
        import shutil
        shutil.rmtree(d, ignore_errors=True)
