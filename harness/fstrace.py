"""C19 tie: run the REAL pipeline stages in a child interpreter under strace, parse the
log into the operation alphabet of coq/Model/FsModel.v, and snapshot directories.
The alphabet has the effects (OpenR/OpenW/Create/Mkdir/Unlink/Rmdir/Rename), the listing of
a directory (ListDir) and every other OBSERVATION of the file system (`Stat p answer`: stat,
lstat, newfstatat, statx, access, faccessat, readlink; opening a directory; every call that
failed with an errno that tells whether the path exists) -- see to_ops.

Parent side:   run_jobs(jobs, workdir) -> list of per-run records (ops, snapshots, results)
Child side:    python -m harness.fstrace <jobs.json>   (started under strace by run_jobs)

One child executes several runs one after the other (python start-up is the
dominant cost); runs are delimited in the strace log by marker system calls
(mkdir below a directory that does not exist -> ENOENT, visible in the log,
without effect).  Everything between `begin` and `end` belongs to the run, what
happens between `end` and `settled` (descendants still alive after the stage
returned) is kept separately as `late` operations."""
import codecs
import contextlib
import hashlib
import io
import json
import os
import pathlib
import re
import subprocess
import sys
import time

TRACE_SET = ('openat,open,creat,mkdir,mkdirat,unlink,unlinkat,rmdir,rename,renameat,'
             'renameat2,getdents64,chdir,'
             # observations without effect (FsModel `Stat p r`): what exists()/is_file()/is_dir()/os.stat/os.access/
             # os.path.realpath make
             'stat,lstat,newfstatat,statx,access,faccessat,faccessat2,readlink,readlinkat')
MARK = '/ctmverif_fs_marker'
PY = '/venv/bin/python'
VERIF = pathlib.Path(__file__).resolve().parent.parent


# ------------------------------------------------------------------ snapshots
def digest(path):
    h = hashlib.sha256()
    with open(path, 'rb') as f:
        while True:
            b = f.read(1 << 20)
            if not b:
                break
            h.update(b)
    return h.hexdigest()


def snapshot(roots):
    """{absolute path: 'dir' | sha256} for the roots and everything below them."""
    out = {}
    for r in roots:
        r = str(r)
        if not os.path.lexists(r):
            continue
        if not os.path.isdir(r):
            out[r] = digest(r)
            continue
        out[r] = 'dir'
        for dp, dns, fns in os.walk(r):
            for d in dns:
                out[os.path.join(dp, d)] = 'dir'
            for f in fns:
                p = os.path.join(dp, f)
                try:
                    out[p] = digest(p)
                except OSError as e:       # vanished while walking (a descendant still running)
                    out[p] = f'unreadable:{type(e).__name__}'
    return out


# ------------------------------------------------------------------ strace log parser
_LINE = re.compile(r'^(\d+)\s+(\d+\.\d+)\s+(.*)$')
_STR = r'"((?:[^"\\]|\\.)*)"'
_FD = r'(?:AT_FDCWD|-?\d+)(?:<((?:[^>\\]|\\.)*)>(?:\(deleted\))?)?'   # strace marks descriptors of unlinked files '(deleted)'
_RET = r'\s*=\s*(-?\d+)(?:<[^>]*>(?:\(deleted\))?)?(?:\s+(E[A-Z]+))?'
PATTERNS = {
    'openat': re.compile(r'^openat\(' + _FD + r', ' + _STR + r', ([A-Z_|0-9a-fx]+)(?:, [0-7]+)?\)' + _RET),
    'open': re.compile(r'^open\(' + _STR + r', ([A-Z_|0-9a-fx]+)(?:, [0-7]+)?\)' + _RET),
    'creat': re.compile(r'^creat\(' + _STR + r', [0-7]+\)' + _RET),
    'mkdir': re.compile(r'^mkdir\(' + _STR + r', [0-7]+\)' + _RET),
    'mkdirat': re.compile(r'^mkdirat\(' + _FD + r', ' + _STR + r', [0-7]+\)' + _RET),
    'unlink': re.compile(r'^unlink\(' + _STR + r'\)' + _RET),
    'unlinkat': re.compile(r'^unlinkat\(' + _FD + r', ' + _STR + r', ([A-Z_|0-9a-fx]+)\)' + _RET),
    'rmdir': re.compile(r'^rmdir\(' + _STR + r'\)' + _RET),
    'rename': re.compile(r'^rename\(' + _STR + r', ' + _STR + r'\)' + _RET),
    'renameat': re.compile(r'^renameat\(' + _FD + r', ' + _STR + r', ' + _FD + r', ' + _STR + r'\)' + _RET),
    'renameat2': re.compile(r'^renameat2\(' + _FD + r', ' + _STR + r', ' + _FD + r', ' + _STR + r', [A-Z_|0-9a-fx]+\)' + _RET),
    'chdir': re.compile(r'^chdir\(' + _STR + r'\)' + _RET),
    'stat': re.compile(r'^stat\(' + _STR + r', (.*)\)' + _RET),
    'lstat': re.compile(r'^lstat\(' + _STR + r', (.*)\)' + _RET),
    'newfstatat': re.compile(r'^newfstatat\(' + _FD + r', ' + _STR + r', (.*), ([A-Z_|0-9a-fx]+)\)' + _RET),
    'statx': re.compile(r'^statx\(' + _FD + r', ' + _STR + r', ([A-Z_|0-9a-fx]+), [A-Z_|0-9a-fx]+, (.*)\)' + _RET),
    'access': re.compile(r'^access\(' + _STR + r', [A-Z_|0-9a-fx]+\)' + _RET),
    'faccessat': re.compile(r'^faccessat\(' + _FD + r', ' + _STR + r', [A-Z_|0-9a-fx]+(?:, [A-Z_|0-9a-fx]+)?\)' + _RET),
    'faccessat2': re.compile(r'^faccessat2\(' + _FD + r', ' + _STR + r', [A-Z_|0-9a-fx]+, [A-Z_|0-9a-fx]+\)' + _RET),
    'readlink': re.compile(r'^readlink\(' + _STR + r', (.*)\)' + _RET),
    'readlinkat': re.compile(r'^readlinkat\(' + _FD + r', ' + _STR + r', (.*)\)' + _RET),
    'getdents64': re.compile(r'^getdents64\(' + r'-?\d+(?:<((?:[^>\\]|\\.)*)>(?:\(deleted\))?)?' + r',\s*.*\)' + _RET),
}


def _unq(s):
    if '\\' not in s:
        return s
    return codecs.decode(s, 'unicode_escape').encode('latin1').decode('utf-8', 'replace')


def _abs(base, p, cwd):
    p = _unq(p)
    if not p.startswith('/'):
        b = _unq(base) if base else cwd
        p = os.path.join(b, p)
    return os.path.normpath(p)


class ParseError(Exception):
    pass


def _kind_of(struct_text):
    """'file' | 'dir' | 'other' from the st_mode / stx_mode strace prints; None when the call failed."""
    m = re.search(r'stx?_mode=(S_IF[A-Z]+)', struct_text or '')
    if not m:
        return None
    return {'S_IFREG': 'file', 'S_IFDIR': 'dir'}.get(m.group(1), 'other')


def parse_log(path, cwd):
    """-> list of raw events dict(pid, t, sys, ok, ...).  Every line naming one of the traced
    system calls must be understood: an unparsable line is an error (never skipped silently)."""
    pending = {}
    events = []
    # working directories: the child changes into the run's working directory before a run (job['cwd']) and
    # back afterwards; processes forked in between inherit it.  A relative path is resolved against the last
    # chdir of its own process, else against the most recent chdir of any process, else against `cwd`.
    last_cwd = cwd
    cwd_of = {}
    with open(path, errors='replace') as f:
        for raw in f:
            m = _LINE.match(raw.rstrip('\n'))
            if not m:
                continue
            pid, t, rest = int(m.group(1)), float(m.group(2)), m.group(3)
            if rest.startswith('+++') or rest.startswith('---'):
                continue
            if rest.endswith('<unfinished ...>'):
                pending[pid] = rest[:-len('<unfinished ...>')]
                continue
            mr = re.match(r'^<\.\.\. (\w+) resumed>\s*(.*)$', rest)
            if mr:
                if pid not in pending:
                    continue
                head = pending.pop(pid).rstrip()
                rest = head + (' ' if head.endswith(',') else '') + mr.group(2)
            name = rest.split('(', 1)[0]
            if name not in PATTERNS:
                continue
            if rest.rstrip().endswith('= ?'):
                continue                     # process killed inside the call
            mm = PATTERNS[name].match(rest)
            if not mm:
                raise ParseError(f'cannot parse strace line: {raw!r}')
            g = mm.groups()
            cw = cwd_of.get(pid, last_cwd)
            if name == 'chdir':
                if int(g[1]) == 0:
                    last_cwd = cwd_of[pid] = _abs(None, g[0], cw)
                continue
            ev = {'pid': pid, 't': t, 'sys': name}
            if name == 'openat':
                ev.update(path=_abs(g[0], g[1], cw), flags=g[2].split('|'), ret=int(g[3]))
            elif name == 'open':
                ev.update(path=_abs(None, g[0], cw), flags=g[1].split('|'), ret=int(g[2]))
            elif name == 'creat':
                ev.update(path=_abs(None, g[0], cw), flags=['O_WRONLY', 'O_CREAT', 'O_TRUNC'], ret=int(g[1]))
            elif name == 'mkdir':
                ev.update(path=_abs(None, g[0], cw), ret=int(g[1]))
            elif name == 'mkdirat':
                ev.update(path=_abs(g[0], g[1], cw), ret=int(g[2]))
            elif name == 'unlink':
                ev.update(path=_abs(None, g[0], cw), ret=int(g[1]))
            elif name == 'unlinkat':
                ev.update(path=_abs(g[0], g[1], cw), ret=int(g[3]))
                ev['sys'] = 'rmdir' if 'AT_REMOVEDIR' in g[2].split('|') else 'unlink'
            elif name == 'rmdir':
                ev.update(path=_abs(None, g[0], cw), ret=int(g[1]))
            elif name == 'rename':
                ev.update(path=_abs(None, g[0], cw), path2=_abs(None, g[1], cw), ret=int(g[2]))
            elif name in ('renameat', 'renameat2'):
                ev.update(path=_abs(g[0], g[1], cw), path2=_abs(g[2], g[3], cw), ret=int(g[4]))
                ev['sys'] = 'rename'
            elif name in ('stat', 'lstat', 'access', 'readlink'):
                ev.update(path=_abs(None, g[0], cw), ret=int(g[-2]), sys='stat',
                          kind=_kind_of(g[1]) if name in ('stat', 'lstat') else None)
            elif name in ('newfstatat', 'statx', 'faccessat', 'faccessat2', 'readlinkat'):
                if g[1] == '':
                    # AT_EMPTY_PATH: fstat of a descriptor that is already open -- the open is the observation
                    continue
                st = g[2] if name == 'newfstatat' else (g[3] if name == 'statx' else None)
                ev.update(path=_abs(g[0], g[1], cw), ret=int(g[-2]), sys='stat', kind=_kind_of(st) if st else None)
            elif name == 'getdents64':
                if g[0] is None:
                    raise ParseError(f'getdents64 without a decoded descriptor: {raw!r}')
                ev.update(path=os.path.normpath(_unq(g[0])), ret=int(g[1]))
            ev['err'] = g[-1]
            events.append(ev)
    return events


def below(p, roots):
    return any(p == r or p.startswith(r + '/') for r in roots)


def split_runs(events):
    """Cut the event list at the marker calls.  -> {label: {'main': [...], 'late': [...]}}"""
    runs = {}
    cur, phase = None, None
    for ev in events:
        p = ev.get('path', '')
        if ev['sys'] == 'mkdir' and p.startswith(MARK + '/'):
            what, label = p[len(MARK) + 1:].split(':', 1)
            if what == 'begin':
                cur, phase = label, 'main'
                runs[cur] = {'main': [], 'late': [], 'pid': ev['pid'], 't0': ev['t']}
            elif what == 'end' and cur == label:
                phase = 'late'
                runs[cur]['t1'] = ev['t']
            elif what == 'settled' and cur == label:
                cur, phase = None, None
            elif what.startswith('tk') and cur == label:
                # entry / exit of a recorded FileTracker call (record_tracker jobs, _install_tracker_recorder)
                runs[cur].setdefault('marks', []).append((what, ev['t'], ev['pid']))
            continue
        if cur is not None:
            # after `end` the child itself only takes snapshots; what counts as late is what
            # descendants of the run still do
            if phase == 'late' and ev['pid'] == runs[cur]['pid']:
                continue
            runs[cur][phase].append(ev)
    return runs


ABSENT_ERRNO = ('ENOENT', 'ENOTDIR')


def failed_probe(ev):
    """What a FAILED call on path p has told the process about p: 'absent' | 'exists' | 'dir' | None (nothing that
    the model distinguishes / unknown -- counted in notes['failed_unmapped'], which the check refuses)."""
    s, err = ev['sys'], ev.get('err')
    if err in ABSENT_ERRNO:
        return 'absent'
    if err == 'EEXIST' and s in ('mkdir', 'mkdirat', 'openat', 'open', 'creat'):
        return 'exists'
    if err == 'EISDIR':
        return 'dir'
    if err == 'EINVAL' and s == 'stat':
        return 'exists'                  # readlink of something that is not a symbolic link
    if err == 'ENOTEMPTY' and s == 'rmdir':
        return 'dir'
    return None


def causal_order(ops, notes):
    """strace -f writes a line when IT handles the exit of a system call; for calls of DIFFERENT processes that
    finish within the same instant this need not be the order in which the kernel performed them (orphaned workers
    still reading while run_mapping's `finally` removes the files).  A call that SUCCEEDED on p, or was told that p
    exists, cannot have happened after p was removed and before anybody made p again: when the log shows such a call
    of one process behind the removal of p by another process, it is moved in front of that removal."""
    notes['reordered'] = 0
    out = []
    for o in ops:
        proves = (o['k'] in ('OpenR', 'OpenW', 'ListDir')
                  or (o['k'] == 'Stat' and o['r'] != 'absent'))
        if proves:
            j = None
            for i in range(len(out) - 1, -1, -1):
                x = out[i]
                made = (x['k'] in ('Create', 'Mkdir') and x['p'] == o['p']) or (x['k'] == 'Rename' and x.get('q') == o['p'])
                if made:
                    break
                if x['k'] in ('Unlink', 'Rmdir', 'Rename') and x['p'] == o['p']:
                    if x['pid'] != o['pid'] and abs(o['t'] - x['t']) < 0.05:
                        j = i
                    break
            if j is not None:
                out.insert(j, o)
                notes['reordered'] += 1
                continue
        out.append(o)
    # the mirror image: a call of one process that was told p is ABSENT, logged while -- in the order of the log -- p
    # exists, just in front of the removal of p by another process: it happened behind that removal
    res, known, deferred = [], {}, []          # deferred: (index in `out` of the removal to wait for, op)
    for i, o in enumerate(out):
        if o['k'] == 'Stat' and o['r'] == 'absent' and known.get(o['p']) is True:
            j = next((k for k in range(i + 1, len(out))
                      if out[k]['k'] in ('Unlink', 'Rmdir', 'Rename') and out[k]['p'] == o['p']), None)
            if j is not None and out[j]['pid'] != o['pid'] and abs(out[j]['t'] - o['t']) < 0.05 and \
                    not any((x['k'] in ('Create', 'Mkdir') and x['p'] == o['p']) or x.get('q') == o['p'] for x in out[i + 1:j]):
                deferred.append((j, o))
                notes['reordered'] += 1
                continue
        res.append(o)
        if o['k'] in ('Create', 'Mkdir', 'OpenR', 'OpenW', 'ListDir') or (o['k'] == 'Stat' and o['r'] != 'absent'):
            known[o['p']] = True
        elif o['k'] in ('Unlink', 'Rmdir'):
            known[o['p']] = False
        elif o['k'] == 'Rename':
            known[o['p']] = False
            known[o['q']] = True
        elif o['k'] == 'Stat':
            known[o['p']] = False
        for j, d in [x for x in deferred if x[0] == i]:
            res.append(d)
        deferred = [x for x in deferred if x[0] != i]
    return res


def to_ops(events, roots):
    """Operations on paths below the sandbox roots, in the alphabet of FsModel.
    -> (ops, notes).  op = (kind, path[, path2 | trunc | r], t, pid).
    Besides the successful effects, every OBSERVATION is an operation `Stat p r` (r: 'absent' | 'file' | 'dir' |
    'exists'): stat / lstat / newfstatat / statx / access / faccessat / readlink (what exists(), is_file(), is_dir(),
    realpath() make), opening a directory (O_DIRECTORY, O_PATH), and every FAILED call (ENOENT: the path is absent;
    EEXIST: it exists ...).  Listing a directory (getdents64) is `ListDir`."""
    ops, notes = [], {'h5_probe_dropped': 0, 'dir_opens': 0, 'failed': 0, 'stats': 0, 'failed_unmapped': []}
    for ev in events:
        if ev['ret'] < 0:
            if ev['sys'] == 'rename':
                if below(ev['path'], roots) or below(ev['path2'], roots):
                    notes['failed_unmapped'].append(f"rename {ev['path']} {ev['path2']} {ev.get('err')}")
                continue
            if below(ev.get('path', ''), roots):
                notes['failed'] += 1
                r = failed_probe(ev)
                if r is None:
                    notes['failed_unmapped'].append(f"{ev['sys']} {ev['path']} {ev.get('err')}")
                else:
                    ops.append({'k': 'Stat', 'p': ev['path'], 'r': r, 't': ev['t'], 'pid': ev['pid'],
                                'via': ev['sys'] + ':' + str(ev.get('err'))})
            continue
        p = ev['path']
        s = ev['sys']
        if s == 'rename':
            if below(p, roots) or below(ev['path2'], roots):
                ops.append({'k': 'Rename', 'p': p, 'q': ev['path2'], 't': ev['t'], 'pid': ev['pid']})
            continue
        if not below(p, roots):
            continue
        base = {'p': p, 't': ev['t'], 'pid': ev['pid']}
        if s == 'stat':
            notes['stats'] += 1
            k = ev.get('kind')
            ops.append(dict(base, k='Stat', r=k if k in ('file', 'dir') else 'exists', via='stat'))
        elif s in ('openat', 'open', 'creat'):
            fl = ev['flags']
            if 'O_DIRECTORY' in fl or ('O_PATH' in fl):
                notes['dir_opens'] += 1
                ops.append(dict(base, k='Stat', r='dir' if 'O_DIRECTORY' in fl else 'exists', via='open-dir'))
                continue
            wr = 'O_WRONLY' in fl or 'O_RDWR' in fl
            if not wr:
                if 'O_CREAT' in fl or 'O_TRUNC' in fl:
                    ops.append(dict(base, k='Create', trunc=True))
                else:
                    ops.append(dict(base, k='OpenR'))
            elif 'O_CREAT' in fl:
                # O_EXCL: the call succeeded, so the file is new -- nothing older can show through
                ops.append(dict(base, k='Create', trunc=('O_TRUNC' in fl or 'O_EXCL' in fl)))
            elif 'O_TRUNC' in fl:
                ops.append(dict(base, k='OpenW', trunc=True))
            else:
                ops.append(dict(base, k='OpenW', trunc=False))
        elif s in ('mkdir', 'mkdirat'):
            ops.append(dict(base, k='Mkdir'))
        elif s == 'unlink':
            ops.append(dict(base, k='Unlink'))
        elif s == 'rmdir':
            ops.append(dict(base, k='Rmdir'))
        elif s == 'getdents64':
            if ev['ret'] > 0:
                ops.append(dict(base, k='ListDir'))
    ops = causal_order(ops, notes)
    # HDF5's H5Fcreate(H5F_ACC_TRUNC) first opens an existing file O_RDWR (to find out whether
    # this process already has it open), closes it and then opens it O_RDWR|O_CREAT|O_TRUNC.
    # The probe is dropped when the very next operation of that process on that path is the
    # truncating create.
    out = []
    for i, o in enumerate(ops):
        if o['k'] == 'OpenW' and not o['trunc']:
            nxt = next((x for x in ops[i + 1:] if x['pid'] == o['pid'] and x['p'] == o['p'] and x['k'] != 'Stat'), None)
            if nxt is not None and nxt['k'] == 'Create' and nxt['trunc']:
                notes['h5_probe_dropped'] += 1
                continue
        out.append(o)
    return out, notes


# ------------------------------------------------------------------ parent side
def have_seccomp():
    r = subprocess.run(['strace', '-f', '--seccomp-bpf', '-o', '/dev/null', '-e', 'trace=mkdir', '/bin/true'],
                       capture_output=True)
    return r.returncode == 0


_SECCOMP = None


def start_child(jobfile, logfile, cwd):
    global _SECCOMP
    if _SECCOMP is None:
        _SECCOMP = have_seccomp()
    cmd = ['strace', '-f'] + (['--seccomp-bpf'] if _SECCOMP else []) + \
          ['-y', '-ttt', '-o', str(logfile), '-e', 'trace=' + TRACE_SET,
           PY, '-W', 'ignore', '-m', 'harness.fstrace', str(jobfile)]
    env = dict(os.environ)
    # CTMVERIF_SRC: run the traced stages from another source tree (experiments with patched copies)
    env['PYTHONPATH'] = f"{os.environ.get('CTMVERIF_SRC', os.environ.get('VERIF_REPO', '/repo') + '/src')}:{VERIF}"
    env['PYTHONDONTWRITEBYTECODE'] = '1'
    env['CELL_TYPE_MAPPER_VERIF'] = '1'
    for k in ('OMP_NUM_THREADS', 'OPENBLAS_NUM_THREADS', 'MKL_NUM_THREADS', 'NUMEXPR_NUM_THREADS'):
        env[k] = '1'
    return subprocess.Popen(cmd, cwd=str(cwd), env=env, stdout=subprocess.PIPE, stderr=subprocess.STDOUT,
                            text=True)


def run_children(batches, workdir, timeout=900):
    """batches: list of job lists; all children are started together (concurrent runs).
    -> list (per batch) of list (per job) of records."""
    workdir = pathlib.Path(workdir)
    workdir.mkdir(parents=True, exist_ok=True)
    procs = []
    for i, jobs in enumerate(batches):
        jf = workdir / f'jobs{i}.json'
        lf = workdir / f'strace{i}.log'
        rf = workdir / f'results{i}.json'
        jf.write_text(json.dumps({'jobs': jobs, 'results': str(rf)}))
        procs.append((start_child(jf, lf, workdir), lf, rf, jobs))
    out = []
    for pr, lf, rf, jobs in procs:
        try:
            so, _ = pr.communicate(timeout=timeout)
        except subprocess.TimeoutExpired:
            pr.kill()
            so, _ = pr.communicate()
            raise RuntimeError('traced child timed out: ' + so[-2000:])
        if pr.returncode != 0 or not rf.exists():
            raise RuntimeError(f'traced child failed (rc={pr.returncode}): ' + so[-3000:])
        results = json.loads(rf.read_text())
        events = parse_log(lf, str(workdir))
        runs = split_runs(events)
        recs = []
        for job, res in zip(jobs, results):
            r = runs.get(job['label'])
            if r is None:
                raise RuntimeError(f'no markers for run {job["label"]} in the strace log')
            roots = [os.path.normpath(x) for x in job['roots']]
            ops, notes = to_ops(r['main'], roots)
            late, _ = to_ops(r['late'], roots)
            recs.append({'job': job, 'res': res, 'ops': ops, 'late': late, 'notes': notes,
                         't0': r['t0'], 't1': r.get('t1'), 'marks': r.get('marks', []), 'main_pid': r['pid']})
        out.append(recs)
    return out


# ------------------------------------------------------------------ what a run produced (child side)
def h5_content(path, skip=('metadata', 'log', 'config')):
    out = {}
    if not os.path.exists(path):
        return None
    import h5py
    import numpy as np
    with h5py.File(path, 'r') as f:
        def visit(name, obj):
            if isinstance(obj, h5py.Dataset) and name.split('/')[-1] not in skip and name not in skip:
                v = obj[()]
                if isinstance(v, bytes):
                    sv = v.decode('utf-8', 'replace')
                    try:
                        # serialized taxonomy trees carry {'metadata': {timestamp, host path of the input}}
                        js = json.loads(sv)
                        if isinstance(js, dict) and 'metadata' in js:
                            js.pop('metadata')
                            sv = json.dumps(js, sort_keys=True)
                    except ValueError:
                        pass
                    out[name] = sv
                else:
                    a = np.asarray(v)
                    out[name] = [str(a.dtype), list(a.shape), gen_hash(a)]
        f.visititems(visit)
    return out


def gen_hash(a):
    import numpy as np
    if a.dtype.kind in 'OSU':
        return hashlib.sha256(repr(a.tolist()).encode()).hexdigest()[:16]
    return hashlib.sha256(np.ascontiguousarray(a).tobytes()).hexdigest()[:16]


def result_of(job, rec):
    """What the run produced, without time stamps / host paths / temporary names."""
    a = job['args']
    st = job['stage']
    if st == 'mapping':
        cfg = a['config']
        out = {}
        p = cfg['extended_result_path']
        if os.path.exists(p):
            blob = json.load(open(p))
            out['json_results'] = blob.get('results')
            out['json_keys'] = sorted(k for k in blob if k not in ('gene_identifier_mapping',))
            out['marker_genes'] = blob.get('marker_genes')
            out['taxonomy_tree'] = blob.get('taxonomy_tree')
        if cfg.get('csv_result_path') and os.path.exists(cfg['csv_result_path']):
            out['csv'] = [l for l in open(cfg['csv_result_path']).read().splitlines() if not l.startswith('#')]
        if cfg.get('hdf5_result_path'):
            out['h5'] = h5_content(cfg['hdf5_result_path'])
        if cfg.get('obsm_key') and rec['ok']:
            import h5py
            with h5py.File(cfg['query_path'], 'r') as f:
                out['obsm_present'] = cfg['obsm_key'] in f['obsm']
        return out
    if st in ('stats', 'refmarkers'):
        return {'h5': h5_content(a['out'])}
    if st == 'qmarkers':
        return {'lookup': rec['returned']}
    if st == 'assign':
        return {'assignments': rec['returned']}
    raise ValueError(st)


# ------------------------------------------------------------------ stale files (child side, between runs)
# every name pattern the stages use for temporary files (grep mkdtemp/mkstemp/prefix= in /repo/src)
STALE_DIRS = ['cell_type_mapper_20200101000000_stale', 'result_buffer_stale', 'results_buffer_stale',
              'file_tracker_stale', 'anndata_iterator_stale', 'precomputation_data_buffer_stale',
              'find_markers_stale', 'transposition_stale', 'tmpstale000', 'markers_from_p_values_stale',
              'round_x_to_integers_staging_stale']
STALE_FILES = ['0_4_assignment.json', '0_1_assignment.json', '0_3_assignment.json', 'columns_0_10_stale.h5',
               'precomputation_buffer_stale.h5', 'query_marker_stale.h5', 'unthinned_stale.h5', 'transposed_stale.h5',
               'transpose_0_10_stale.h5', 'query_stale.h5ad', 'stats_stale.h5', 'query.h5ad_as_csr_stale.h5ad',
               'reference_markers_stale.h5', 'data_as_int_stale.h5', 'p_values_stale.h5', 'ref.h5ad_stale']
STALE_TEXT = json.dumps([{'cell_id': 'stale_cell', 'stale': True}])


def plant_stale(dirs, seed):
    """Files and directories under every temporary-name pattern, in each given directory (also
    inside the stale directories: e.g. a results_buffer with assignment files of another run)."""
    import random
    rng = random.Random(seed)
    for d in dirs:
        d = pathlib.Path(d)
        for nm in STALE_DIRS:
            (d / nm).mkdir(exist_ok=True)
            for fn in rng.sample(STALE_FILES, 4):
                (d / nm / fn).write_text(STALE_TEXT)
        (d / 'result_buffer_stale' / 'results_buffer_inner').mkdir(exist_ok=True)
        (d / 'result_buffer_stale' / 'results_buffer_inner' / '0_4_assignment.json').write_text(STALE_TEXT)
        for fn in STALE_FILES:
            if not (d / fn).exists():
                (d / fn).write_text(STALE_TEXT)


def chunk_files(cells, chunk_size):
    """What the workers of election.run_type_assignment_on_h5ad_cpu leave in the buffer directory of a
    run over `cells` (the list the stage returned) with row chunks of `chunk_size`:
    {'<r0>_<r1>_assignment.json': text}.  (`directly_assigned` is added by the stage after the
    files have been collected, so it is not in them.)"""
    out = {}
    for r0 in range(0, len(cells), chunk_size):
        r1 = min(len(cells), r0 + chunk_size)
        blob = []
        for c in cells[r0:r1]:
            c = json.loads(json.dumps(c))
            for v in c.values():
                if isinstance(v, dict):
                    v.pop('directly_assigned', None)
            blob.append(c)
        out[f'{r0}_{r1}_assignment.json'] = json.dumps(blob)
    return out


def _pre(job, returned=None):
    pre = job.get('pre') or {}
    if pre.get('plant'):
        plant_stale(pre['plant']['dirs'], pre['plant']['seed'])
    for p, text in (pre.get('write') or {}).items():
        pathlib.Path(p).write_text(text)
    for d in pre.get('mkdirs') or []:
        pathlib.Path(d).mkdir(parents=True, exist_ok=True)
    for link, target in (pre.get('symlinks') or {}).items():
        if os.path.lexists(link):
            os.unlink(link)
        os.symlink(target, link)
    sc = pre.get('stale_chunks')
    if sc:
        # the per-chunk files an earlier run (label sc['from'], executed by this child) would have left
        # behind had it been killed before collecting them, in every given buffer directory
        cells = (returned or {}).get(sc['from'])
        if cells is None:
            raise RuntimeError(f"stale_chunks: no returned value of run {sc['from']}")
        files = chunk_files(cells, int(sc['chunk_size']))
        for d in sc['dirs']:
            d = pathlib.Path(d)
            d.mkdir(parents=True, exist_ok=True)
            for fn, text in files.items():
                (d / fn).write_text(text)


# ------------------------------------------------------------------ child side
def _mark(what, label):
    try:
        os.mkdir(f'{MARK}/{what}:{label}')
    except OSError:
        pass


def _install_fault(fault):
    """Harness-side wrapper (no source hook), inherited by the forked workers: the worker that
    gets the chunk starting at row `r0` dies with os._exit(code) / raises."""
    from cell_type_mapper.type_assignment import election
    orig = election._run_type_assignment_on_h5ad_worker

    def worker(*args, **kwargs):
        if int(kwargs.get('r0', -1)) == int(fault['r0']):
            # 'delay': the worker dies late (its siblings have finished by then), so that whether orphaned
            # workers are still writing when the stage raises is not left to a race
            time.sleep(float(fault.get('delay', 0)))
            if fault['how'] == 'exit':
                os._exit(int(fault.get('code', 3)))
            raise RuntimeError('injected worker failure')
        return orig(*args, **kwargs)
    election._run_type_assignment_on_h5ad_worker = worker
    return lambda: setattr(election, '_run_type_assignment_on_h5ad_worker', orig)


def _install_tracker_recorder(job):
    """Harness-side wrapper (no source hook) around the methods of the real FileTracker: every call of the run's
    main process is recorded (arguments, result / exception, the tracker's tmp_dir and the location add_file chose)
    and bracketed by two marker system calls `tk<n>a` / `tk<n>b`, so that the parent can tell, in the strace log,
    what the tracker itself did (between the brackets, main process) from what its ENVIRONMENT did while it lived.
    A snapshot of the roots is taken when the constructor is entered (the f0 of Model/Tracker.v), when __del__ is
    entered and when it returns.  Only for dedicated jobs: the snapshots read every file (their trace is not given
    to the acceptor)."""
    from cell_type_mapper.file_tracker import file_tracker as ft
    cls = ft.FileTracker
    names = ('__init__', 'add_file', 'real_location', 'file_exists', '__del__')
    orig = {n: cls.__dict__[n] for n in names}
    calls = []
    pid = os.getpid()

    def wrap(name):
        f = orig[name]

        def g(self, *a, **kw):
            if os.getpid() != pid:
                return f(self, *a, **kw)
            n = len(calls)
            call = {'n': n, 'kind': name, 'obj': id(self), 'ok': None}
            calls.append(call)
            if name == '__init__':
                td = kw.get('tmp_dir', a[0] if a else None)
                call['tmp_dir_arg'] = None if td is None else str(pathlib.Path(td).resolve().absolute())
            elif name != '__del__':
                fp = kw.get('file_path', a[0] if a else None)
                call['path'] = str(pathlib.Path(fp).resolve().absolute())
                if name == 'add_file':
                    call['input_only'] = bool(kw.get('input_only', a[1] if len(a) > 1 else True))
            _mark(f'tk{n}a', job['label'])
            try:
                if name == '__init__':
                    call['snap0'] = snapshot(job['roots'])
                if name == '__del__':
                    call['snap_before'] = snapshot(job['roots'])
                    call['to_write_out'] = list(getattr(self, '_to_write_out', []))
                    call['locations'] = dict(getattr(self, '_path_to_location', {}))
                r = f(self, *a, **kw)
                call['ok'] = True
                if name == '__init__':
                    call['tmp_dir'] = None if self.tmp_dir is None else str(self.tmp_dir)
                elif name == 'add_file':
                    call['location'] = self._path_to_location.get(call['path'])
                elif name == 'real_location':
                    call['result'] = str(r)
                elif name == 'file_exists':
                    call['result'] = bool(r)
                elif name == '__del__':
                    call['snap_after'] = snapshot(job['roots'])
                return r
            except Exception as e:      # noqa
                call['ok'] = False
                call['error'] = f'{type(e).__name__}: {e}'[:300]
                raise
            finally:
                _mark(f'tk{n}b', job['label'])
        return g
    for n in names:
        setattr(cls, n, wrap(n))

    def undo():
        for n in names:
            setattr(cls, n, orig[n])
    return {'calls': calls, 'undo': undo}


def _reap(limit=30.0):
    """Wait until every descendant process has exited (bounded: a helper process that lives as
    long as the interpreter must not hang the check).  -> True iff none is left."""
    import multiprocessing
    for p in multiprocessing.active_children():
        p.join(limit)
    t0 = time.time()
    while time.time() - t0 < limit:
        try:
            pid, _ = os.waitpid(-1, os.WNOHANG)
        except ChildProcessError:
            return True
        except OSError:
            return True
        if pid == 0:
            time.sleep(0.01)
    return False


def _run_stage(job):
    st = job['stage']
    a = job['args']
    if st == 'mapping':
        from cell_type_mapper.cli.from_specified_markers import run_mapping
        cfg = a['config']
        run_mapping(cfg, output_path=cfg['extended_result_path'], log_path=cfg['log_path'],
                    hdf5_output_path=cfg['hdf5_result_path'])
        return None
    if st == 'stats' and a.get('copy_data_over'):
        # the non-default option of the same stage (the reference is first copied into the scratch directory):
        # precompute_summary_stats_from_h5ad is precompute_summary_stats_from_h5ad_and_tree with the tree read
        # from the file and copy_data_over=False
        from cell_type_mapper.diff_exp.precompute_from_anndata import precompute_summary_stats_from_h5ad_and_tree
        from cell_type_mapper.taxonomy.taxonomy_tree import TaxonomyTree
        tree = TaxonomyTree.from_h5ad(h5ad_path=pathlib.Path(a['h5ad']), column_hierarchy=list(a['levels']))
        precompute_summary_stats_from_h5ad_and_tree(
            data_path=pathlib.Path(a['h5ad']), taxonomy_tree=tree, output_path=pathlib.Path(a['out']),
            rows_at_a_time=a['rows_at_a_time'], normalization='raw', tmp_dir=a['tmp_dir'],
            n_processors=a['n_processors'], copy_data_over=True)
        return None
    if st == 'stats':
        from cell_type_mapper.diff_exp.precompute_from_anndata import precompute_summary_stats_from_h5ad
        precompute_summary_stats_from_h5ad(pathlib.Path(a['h5ad']), a['levels'], None, pathlib.Path(a['out']),
                                           rows_at_a_time=a['rows_at_a_time'], normalization='raw',
                                           tmp_dir=a['tmp_dir'], n_processors=a['n_processors'])
        return None
    if st == 'refmarkers':
        from cell_type_mapper.diff_exp.markers import find_markers_for_all_taxonomy_pairs
        from cell_type_mapper.taxonomy.taxonomy_tree import TaxonomyTree
        tree = TaxonomyTree.from_precomputed_stats(pathlib.Path(a['stats']))
        find_markers_for_all_taxonomy_pairs(pathlib.Path(a['stats']), tree, pathlib.Path(a['out']),
                                            n_processors=a['n_processors'], tmp_dir=a['tmp_dir'], max_gb=1)
        return None
    if st == 'qmarkers':
        from cell_type_mapper.type_assignment.marker_cache_v2 import create_marker_gene_lookup_from_ref_list
        lookup = create_marker_gene_lookup_from_ref_list([a['refm']], a['query_genes'],
                                                         n_per_utility=a['n_per_utility'],
                                                         n_per_utility_override=None,
                                                         n_processors=a['n_processors'],
                                                         behemoth_cutoff=a['behemoth_cutoff'],
                                                         tmp_dir=a['tmp_dir'])
        return {k: v for k, v in lookup.items() if k not in ('metadata', 'log')}
    if st == 'assign':
        # the stage run_mapping calls (cli/from_specified_markers.py:_run_mapping), called directly
        import h5py
        import numpy as np
        from cell_type_mapper.taxonomy.taxonomy_tree import TaxonomyTree
        from cell_type_mapper.type_assignment.election_runner import run_type_assignment_on_h5ad
        from cell_type_mapper.utils.utils import clean_for_json
        with h5py.File(a['stats'], 'r') as f:
            tree = TaxonomyTree.from_str(serialized_dict=f['taxonomy_tree'][()].decode('utf-8'))
        lookup = {level: a['bootstrap_factor'] for level in tree.hierarchy[:-1]}
        lookup['None'] = a['bootstrap_factor']
        result = run_type_assignment_on_h5ad(
            query_h5ad_path=pathlib.Path(a['query']),
            precomputed_stats_path=pathlib.Path(a['stats']),
            marker_gene_cache_path=pathlib.Path(a['marker_cache']),
            taxonomy_tree=tree,
            n_processors=a['n_processors'],
            chunk_size=a['chunk_size'],
            bootstrap_factor_lookup=lookup,
            bootstrap_iteration=a['bootstrap_iteration'],
            rng=np.random.default_rng(a['rng_seed']),
            n_assignments=a['n_assignments'],
            normalization=a['normalization'],
            tmp_dir=a['tmp_dir'],
            log=None,
            max_gb=1,
            results_output_path=a['results_output_path'])
        return json.loads(json.dumps(clean_for_json(result)))
    raise ValueError(st)


def child_main(jobfile):
    import gc
    import traceback
    spec = json.loads(pathlib.Path(jobfile).read_text())
    results = []
    # import the heavy modules before the first run so that no run's trace contains imports
    import cell_type_mapper.cli.from_specified_markers  # noqa: F401
    import cell_type_mapper.diff_exp.precompute_from_anndata  # noqa: F401
    import cell_type_mapper.diff_exp.markers  # noqa: F401
    import cell_type_mapper.type_assignment.marker_cache_v2  # noqa: F401
    import cell_type_mapper.type_assignment.election_runner  # noqa: F401
    import tempfile
    returned = {}
    home = os.getcwd()
    for job in spec['jobs']:
        _pre(job, returned)
        rec = {'label': job['label'], 'ok': True, 'error': None}
        # what `TMPDIR=<dir> python ...` started in directory <cwd> does: the system temporary directory
        # and the working directory of this run (both inside the sandbox, so that they are observed)
        old_tmp = (os.environ.get('TMPDIR'), tempfile.tempdir)
        if job.get('systmp'):
            os.environ['TMPDIR'] = job['systmp']
            tempfile.tempdir = None
            if tempfile.gettempdir() != job['systmp']:
                raise RuntimeError(f"could not make {job['systmp']} the system temporary directory")
        if job.get('cwd'):
            os.chdir(job['cwd'])
        rec['before'] = snapshot(job['roots'])
        undo = _install_fault(job['fault']) if job.get('fault') else None
        tkrec = _install_tracker_recorder(job) if job.get('record_tracker') else None
        buf = io.StringIO()
        ret = None
        if job.get('wait_for'):
            # concurrent histories: start together with the partner child
            pathlib.Path(job['wait_for']['mine']).write_text('ready')
            t0 = time.time()
            while not os.path.exists(job['wait_for']['other']) and time.time() - t0 < 120:
                time.sleep(0.002)
        _mark('begin', job['label'])
        try:
            with contextlib.redirect_stdout(buf), contextlib.redirect_stderr(buf):
                try:
                    ret = _run_stage(job)
                except Exception as e:     # noqa
                    rec['ok'] = False
                    rec['error'] = f'{type(e).__name__}: {e}'[:2000]
                    rec['traceback'] = traceback.format_exc()[-3000:]
                # destructors of the stage's helper objects (FileTracker.__del__, iterators)
                e = None
                gc.collect()
        finally:
            _mark('end', job['label'])
        if tkrec is not None:
            tkrec['undo']()
            rec['tracker_life'] = tkrec['calls']
        rec['at_return'] = snapshot(job['roots'])
        rec['all_descendants_exited'] = _reap()
        _mark('settled', job['label'])
        if undo:
            undo()
        if job.get('cwd'):
            os.chdir(home)
        if job.get('systmp'):
            if old_tmp[0] is None:
                os.environ.pop('TMPDIR', None)
            else:
                os.environ['TMPDIR'] = old_tmp[0]
            tempfile.tempdir = old_tmp[1]
        returned[job['label']] = ret
        rec['after'] = snapshot(job['roots'])
        rec['returned'] = ret
        try:
            rec['collected'] = result_of(job, rec)
        except Exception as e:     # noqa
            rec['collected'] = {'collect_error': f'{type(e).__name__}: {e}'}
        rec['stdout_tail'] = buf.getvalue()[-1500:]
        results.append(rec)
    pathlib.Path(spec['results']).write_text(json.dumps(results))


if __name__ == '__main__':
    child_main(sys.argv[1])
