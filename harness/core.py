"""Shared machinery of the checks: wire format, model driver, Coq re-check of the
property theorems, cases.v cross-check, evidence, known findings, verdicts."""
import json
import os
import pathlib
import random
import re
import shutil
import subprocess
import sys
import tempfile
import time
import traceback

VERIF = pathlib.Path(__file__).resolve().parent.parent
COQ = VERIF / 'coq'
DRIVER = VERIF / 'bin' / 'driver'
REPO = pathlib.Path(os.environ.get('VERIF_REPO', '/repo'))

ALLOWED_AXIOMS = set()   # the development targets "Closed under the global context"

TRUSTED_BASE = [
    "Coq 8.16.1 kernel (coqc); vm_compute is used, native_compute is not",
    "axioms: none (Print Assumptions under every property theorem must say "
    "'Closed under the global context')",
    "extraction with ExtrOcamlBasic only (no Extract Constant / Extract Inductive of "
    "our own), OCaml 4.13.1 ocamlopt, ocaml/driver.ml (sx parser/printer); guarded by "
    "the cases.v vm_compute cross-check",
    "correspondence harness (/verif/harness): generators, order-preserving renaming "
    "of names to integers, exception-to-enum mapping, float-to-exact-rational "
    "conversion",
    "third-party semantics (numpy, scipy, h5py, anndata, pandas, json, multiprocessing) "
    "are modelled at the level of their documented contracts, not verified",
]


# ---------------------------------------------------------------- wire format
def sx_dump(x):
    if isinstance(x, bool):
        return '1' if x else '0'
    if isinstance(x, int):
        return str(x)
    if isinstance(x, (list, tuple)):
        return '(' + ' '.join(sx_dump(e) for e in x) + ')'
    if hasattr(x, 'tolist'):
        return sx_dump(x.tolist())
    if hasattr(x, '__int__') and float(x) == int(x):
        return str(int(x))
    raise TypeError(f'cannot encode {x!r} ({type(x)})')


def sx_load(s):
    toks = re.findall(r'\(|\)|-?\d+', s)
    pos = 0

    def item():
        nonlocal pos
        t = toks[pos]
        pos += 1
        if t == '(':
            out = []
            while toks[pos] != ')':
                out.append(item())
            pos += 1
            return out
        return int(t)
    v = item()
    return v


def sx_coq(x):
    """Render as a Coq term of type sx."""
    if isinstance(x, bool):
        x = int(x)
    if isinstance(x, int):
        return f'I ({x})' if x < 0 else f'I {x}'
    return 'L [' + '; '.join(sx_coq(e) for e in x) + ']'


def ensure_built(pid=None):
    """Build the Coq development / driver if something this property needs is missing
    or stale.  Only the models (extraction) and Props/<pid>.v with what it imports are
    required: a broken proof file of another property does not block this check."""
    targets = ['Extract/Extract.vo'] + ([f'Props/{pid}.vo'] if pid else [])
    coqc = str(VERIF / 'tools' / 'coqc_limited.sh')

    def stale(tg):
        if not DRIVER.exists() or not (COQ / 'Makefile').exists():
            return True
        r = subprocess.run(['make', '-q', '-C', str(COQ), 'COQC=' + coqc] + tg, capture_output=True)
        return r.returncode != 0
    if stale(targets):
        r = subprocess.run([str(VERIF / 'tools' / 'build.sh')], capture_output=True, text=True,
                           timeout=3600)
        # a proof file that does not build is reported by check_theorems() as a broken
        # obligation of this property; only a missing model/driver stops the check here
        if r.returncode != 0 or stale(targets[:1]):
            return False, (r.stdout + r.stderr)[-4000:]
    return True, ''


def run_model(cases):
    """cases: list of (tag, sx value).  Returns the list of decoded results."""
    if not cases:
        return []
    inp = '\n'.join(f'{tag} {sx_dump(x)}' for tag, x in cases) + '\n'
    r = subprocess.run([str(DRIVER)], input=inp, capture_output=True, text=True, timeout=3600)
    if r.returncode != 0:
        raise RuntimeError('model driver failed: ' + r.stderr[-2000:])
    lines = r.stdout.splitlines()
    if len(lines) != len(cases):
        raise RuntimeError(f'model driver returned {len(lines)} results for {len(cases)} cases')
    return [sx_load(l) for l in lines]


def coq_crosscheck(cases, results, scratch, max_cases=40, max_chars=4000):
    """Evaluate a sample of the cases inside Coq with vm_compute and require the
    same result as the extracted OCaml model gave.  Returns (n_checked, error|None)."""
    chosen = [(c, r) for c, r in zip(cases, results)
              if len(sx_dump(c[1])) + len(sx_dump(r)) <= max_chars][:max_cases]
    if not chosen:
        return 0, None
    lines = ['From Coq Require Import ZArith List.', 'Import ListNotations.',
             'From CTM Require Import Base.Sx Extract.Dispatch.', 'Open Scope Z_scope.']
    for i, ((tag, x), r) in enumerate(chosen):
        lines.append(f'Goal dispatch {tag} ({sx_coq(x)}) = {sx_coq(r)}. '
                     'Proof. vm_compute. reflexivity. Qed.')
    d = pathlib.Path(scratch) / 'crosscheck'
    d.mkdir(parents=True, exist_ok=True)
    (d / 'cases.v').write_text('\n'.join(lines) + '\n')
    r = subprocess.run(['coqc', '-Q', str(COQ), 'CTM', '-o', str(d / 'cases.vo'), str(d / 'cases.v')],
                       capture_output=True, text=True, timeout=1200)
    if r.returncode != 0:
        return len(chosen), (r.stdout + r.stderr)[-3000:]
    return len(chosen), None


def check_theorems(pid, scratch):
    """Re-check Props/<pid>.v against the compiled development and parse every
    Print Assumptions.  Returns dict(obligations, discharged, names, failures, cmd)."""
    src = COQ / 'Props' / f'{pid}.v'
    text = src.read_text()
    names = re.findall(r'^\s*(?:Theorem|Corollary)\s+(\w+)', text, flags=re.M)
    printed = re.findall(r'^\s*Print Assumptions\s+(\w+)\s*\.', text, flags=re.M)
    cmd = f'coqc -Q {COQ} CTM {src}'
    out = {'obligations': len(names), 'discharged': 0, 'names': names, 'failures': [], 'cmd': cmd,
           'axioms': []}
    missing = [n for n in names if n not in printed]
    if missing:
        out['failures'].append(f'no Print Assumptions for {missing}')
    d = pathlib.Path(scratch) / 'props'
    d.mkdir(parents=True, exist_ok=True)
    r = subprocess.run(['coqc', '-Q', str(COQ), 'CTM', '-o', str(d / f'{pid}.vo'), str(src)],
                       capture_output=True, text=True, timeout=1800)
    if r.returncode != 0:
        out['failures'].append('coqc failed: ' + (r.stdout + r.stderr)[-3000:])
        return out
    # Print Assumptions output: either "Closed under the global context" or
    # "Axioms:" followed by indented "name : type" lines
    blocks = re.split(r'(?=Closed under the global context|Axioms:)', r.stdout)
    blocks = [b for b in blocks if b.startswith('Closed') or b.startswith('Axioms:')]
    if len(blocks) != len(printed):
        out['failures'].append(f'{len(printed)} Print Assumptions but {len(blocks)} answers')
    ok = 0
    for name, b in zip(printed, blocks):
        if b.startswith('Closed'):
            ok += 1
            continue
        ax = re.findall(r'^(\S+)\s*:', b[len('Axioms:'):], flags=re.M)
        out['axioms'] += ax
        if all(a in ALLOWED_AXIOMS for a in ax):
            ok += 1
        else:
            out['failures'].append(f'{name} depends on axioms {ax}')
    out['discharged'] = min(ok, len(names)) if not missing else 0
    return out


def run_coqchk(pid):
    """coqchk -o on CTM.Props.<pid> (re-checks the .vo files with the independent checker and prints the
    axioms they rely on).  ok iff it succeeds and lists no axiom."""
    try:
        r = subprocess.run(['coqchk', '-silent', '-o', '-Q', str(COQ), 'CTM', f'CTM.Props.{pid}'],
                           capture_output=True, text=True, timeout=3000)
    except subprocess.TimeoutExpired:
        return {'ok': False, 'detail': 'coqchk timed out', 'cmd': 'coqchk -silent -o'}
    out = r.stdout + r.stderr
    m = re.search(r'\* Axioms:\s*(.*?)\n\s*\n', out, flags=re.S)
    axioms = m.group(1).strip() if m else '?'
    ok = r.returncode == 0 and axioms == '<none>' and 'type-in-type: <none>' in out.replace('\n', ' ')
    return {'ok': ok, 'axioms': axioms, 'detail': out[-3000:] if not ok else 'Axioms: <none>',
            'cmd': f'coqchk -silent -o -Q {COQ} CTM CTM.Props.{pid}'}


# ---------------------------------------------------------------- known findings
def load_known():
    p = VERIF / 'known_findings.json'
    if not p.exists():
        return []
    return json.loads(p.read_text())['findings']


class Check:
    """Context handed to a property module's run(ctx)."""

    def __init__(self, pid, tier, seed):
        self.pid = pid
        self.tier = tier
        self.seed = seed
        self.rng = random.Random(seed * 1000003 + int(pid[1:]))
        self.t0 = time.time()
        self.scratch = pathlib.Path(tempfile.mkdtemp(prefix=f'ctmverif_{pid}_'))
        self.evaluations = 0
        self.nontrivial = set()
        self.samples = []
        self.violations = []          # (what, replay path)
        self.known_hits = {}          # finding id -> count
        self.disagreements_checked = 0
        self.traces_validated = 0
        self.extra = {}
        self.assumptions = []
        self.rule = ''
        self.exhaustive = False
        self.known = [k for k in load_known() if k['property'] == pid and k.get('kind') == 'known']
        self.thm = None
        self._cross = []

    # -- bookkeeping
    def quick(self):
        return self.tier == 'quick'

    def n(self, quick, thorough):
        return quick if self.tier == 'quick' else thorough

    def count(self, key=None, nontrivial=False):
        self.evaluations += 1
        if nontrivial and key is not None:
            self.nontrivial.add(key if isinstance(key, (str, int, tuple)) else json.dumps(key, sort_keys=True, default=str))

    def sample(self, s, limit=4):
        if len(self.samples) < limit:
            self.samples.append(s)

    def dist(self, name, key):
        d = self.extra.setdefault('distribution', {}).setdefault(name, {})
        key = str(key)
        d[key] = d.get(key, 0) + 1

    def model(self, cases):
        res = run_model(cases)
        # keep a few for the vm_compute cross-check
        if len(self._cross) < 60:
            step = max(1, len(cases) // 20)
            for i in range(0, len(cases), step):
                self._cross.append((cases[i], res[i]))
        return res

    # -- verdicts
    def replay_path(self, obj):
        d = VERIF / 'replays'
        d.mkdir(exist_ok=True)
        k = len(self.violations) + sum(self.known_hits.values())
        p = d / f'{self.pid}-{self.tier}-{self.seed}-{k}.json'
        p.write_text(json.dumps(obj, indent=1, default=str))
        return p

    def violation(self, what, replay, no_input=False):
        """Report a violation unless it matches a known finding.
        replay: a JSON-able description with key 'class' used for matching."""
        for k in self.known:
            if replay.get('class') == k['match']:
                self.known_hits[k['id']] = self.known_hits.get(k['id'], 0) + 1
                return False
        # replay files are kept for the first 5 violations WITH a failing input and the first 5 without:
        # a run of correspondence-only failures must not crowd out a later failure that has an input
        n_same = sum(1 for _, p, ni in self.violations if p is not None and ni == no_input)
        if n_same >= 5:
            self.violations.append((what, None, no_input))
            return True
        replay = dict(replay)
        replay['property'] = self.pid
        replay['what'] = what
        p = self.replay_path(replay)
        self.violations.append((what, p, no_input))
        return True

    def finish(self):
        # theorem re-check and vm_compute cross-check
        self.thm = check_theorems(self.pid, self.scratch)
        for f in self.thm['failures']:
            self.violation('proof obligation no longer checks: ' + f,
                           {'class': 'proof', 'theorem_file': f'coq/Props/{self.pid}.v', 'detail': f},
                           no_input=True)
        # thorough tier: re-check the compiled property file and everything it depends on with the
        # independent checker coqchk and require an empty axiom list
        self.coqchk = None
        if self.tier == 'thorough' and not self.thm['failures']:
            self.coqchk = run_coqchk(self.pid)
            if not self.coqchk['ok']:
                self.violation('coqchk does not accept the compiled property file or reports axioms: ' + self.coqchk['detail'][-600:],
                               {'class': 'proof-coqchk', 'theorem_file': f'coq/Props/{self.pid}.v', 'detail': self.coqchk['detail'][-3000:]},
                               no_input=True)
        ncross, err = coq_crosscheck([c for c, _ in self._cross], [r for _, r in self._cross], self.scratch)
        if err:
            self.violation('extracted model and vm_compute disagree (or cases.v failed)',
                           {'class': 'crosscheck', 'correspondence': 'extraction', 'detail': err},
                           no_input=True)
        wall = time.time() - self.t0
        cov = {
            'obligations': self.thm['obligations'],
            'discharged': self.thm['discharged'],
            'theorems': self.thm['names'],
            'checker_cmd': self.thm['cmd'] + '  (after `make -C /verif/coq`, full .vo build)',
            'trusted_base': TRUSTED_BASE,
            'axioms_reported': self.thm['axioms'],
            'evaluations': self.evaluations,
            'distinct_nontrivial': len(self.nontrivial),
            'rule': self.rule,
            'samples': self.samples,
            'disagreements_checked': self.disagreements_checked,
            'traces_validated_against_impl': self.traces_validated,
            'vm_compute_crosschecked_cases': ncross,
            'exhaustive': self.exhaustive,
            'known_findings_hit': self.known_hits,
            'coqchk': self.coqchk,
        }
        cov.update(self.extra)
        ev = {
            'property_id': self.pid, 'tier': self.tier, 'seed': self.seed, 'level': 'proof',
            'coverage': cov, 'assumptions': self.assumptions, 'wall_s': round(wall, 2),
            'violations': len(self.violations),
        }
        # a run against another checkout (VERIF_REPO, seeded-change trials) must not overwrite the evidence
        evdir = VERIF / 'evidence' if str(REPO) == '/repo' else VERIF / 'replays' / 'evidence_other_checkout'
        evdir.mkdir(parents=True, exist_ok=True)
        (evdir / f'{self.pid}.json').write_text(json.dumps(ev, indent=1, default=str) + '\n')
        for k in self.known:
            if k['id'] in self.known_hits:
                print(f"KNOWN-FINDING: property={self.pid} {k['what']} [{k['id']}; {self.known_hits[k['id']]} case(s)]")
        shown = 0
        # violations with a failing input first
        for what, p, no_input in sorted(self.violations, key=lambda v: v[2]):
            if p is None:
                continue
            tail = ' no-failing-input-found' if no_input else ''
            print(f'VIOLATION property={self.pid} replay={p}{tail}')
            print(f'  {what}', file=sys.stderr)
            shown += 1
        shutil.rmtree(self.scratch, ignore_errors=True)
        print(f'{self.pid} {self.tier}: theorems {self.thm["discharged"]}/{self.thm["obligations"]}, '
              f'{self.evaluations} evaluations, {len(self.nontrivial)} distinct non-trivial, '
              f'{len(self.violations)} violation(s), {wall:.1f}s')
        return 1 if self.violations else 0


def exc_class(e):
    return type(e).__name__
