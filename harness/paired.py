"""Paired real runs for the relational properties C06, C07, C17."""
import copy
import json
import shutil

import numpy as np

from harness import pipeline, trees, mapcheck


def run_once(ctx, sc, tag, *, query=None, cell_ids=None, genes=None, encoding='dense', tree_data=None,
             markers=None, normalization='log2CPM', **var):
    d = ctx.scratch / tag
    d.mkdir()
    pipeline.write_stats(d / 'stats.h5', sc, tree_data=tree_data)
    pipeline.write_markers(d / 'markers.json', sc, markers=markers)
    pipeline.write_query(d / 'query.h5ad', sc, encoding=encoding, query=query, cell_ids=cell_ids, genes=genes)
    cfg = pipeline.config_for(d, d / 'query.h5ad', d / 'stats.h5', d / 'markers.json', normalization=normalization, **var)
    res = pipeline.run_mapping(cfg, trace_dir=None)
    shutil.rmtree(d, ignore_errors=True)
    return res


def by_cell(res):
    return {r['cell_id']: r for r in res['output']['results']}


def compare_records(a, b, levels, tol=1e-9, bitwise=False):
    """None if equal (assignments, probabilities, runner-up names/probabilities exactly;
    correlations within tol or bitwise), else a description."""
    for lv in levels:
        x, y = a.get(lv), b.get(lv)
        if (x is None) != (y is None):
            return f'level {lv} present in one run only'
        if x is None:
            continue
        for k in ('assignment', 'bootstrapping_probability', 'runner_up_assignment', 'runner_up_probability',
                  'aggregate_probability', 'directly_assigned'):
            if x.get(k) != y.get(k):
                if k == 'aggregate_probability' and not bitwise and abs(x[k] - y[k]) <= 1e-12:
                    continue
                return f'level {lv} {k}: {x.get(k)} vs {y.get(k)}'
        cx = [x['avg_correlation']] + list(x.get('runner_up_correlation', []))
        cy = [y['avg_correlation']] + list(y.get('runner_up_correlation', []))
        if len(cx) != len(cy):
            return f'level {lv} correlation lists differ in length'
        for u, v in zip(cx, cy):
            if bitwise:
                if u != v:
                    return f'level {lv} correlation {u!r} vs {v!r} (bitwise)'
            elif abs(u - v) > tol:
                return f'level {lv} correlation {u} vs {v}'
    return None


def base_var(rng, sc, factor=1.0):
    return dict(flatten=False, drop_level=None, chunk_size=rng.randrange(1, len(sc.cell_ids) + 3),
                n_processors=rng.randrange(1, 4), bootstrap_factor=factor,
                bootstrap_iteration=rng.choice([1, 3, 5]), rng_seed=rng.randrange(1, 10 ** 6),
                n_runners_up=rng.choice([0, 2, 4]), min_markers=rng.choice([0, 1, 3]))
