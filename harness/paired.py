"""Paired real runs for the relational properties C06, C07, C17."""
import copy
import json
import shutil

import numpy as np

from harness import pipeline, trees, mapcheck


def run_once(ctx, sc, tag, *, query=None, cell_ids=None, genes=None, encoding='dense', tree_data=None,
             markers=None, normalization='log2CPM', h5_chunks=None, **var):
    d = ctx.scratch / tag
    d.mkdir()
    pipeline.write_stats(d / 'stats.h5', sc, tree_data=tree_data)
    pipeline.write_markers(d / 'markers.json', sc, markers=markers)
    pipeline.write_query(d / 'query.h5ad', sc, encoding=encoding, query=query, cell_ids=cell_ids, genes=genes, chunks=h5_chunks)
    cfg = pipeline.config_for(d, d / 'query.h5ad', d / 'stats.h5', d / 'markers.json', normalization=normalization, **var)
    res = pipeline.run_mapping(cfg, trace_dir=None)
    shutil.rmtree(d, ignore_errors=True)
    return res


def by_cell(res):
    return {r['cell_id']: r for r in res['output']['results']}


def compare_records(a, b, levels, tol=1e-9, bitwise=False):
    """None if equal (assignments, probabilities, runner-up names/probabilities exactly;
    correlations within tol or bitwise), else a description."""
    for lv in levels:
        x, y = a.get(lv), b.get(lv)
        if (x is None) != (y is None):
            return f'level {lv} present in one run only'
        if x is None:
            continue
        for k in ('assignment', 'bootstrapping_probability', 'runner_up_assignment', 'runner_up_probability',
                  'aggregate_probability', 'directly_assigned'):
            if x.get(k) != y.get(k):
                if k == 'aggregate_probability' and not bitwise and abs(x[k] - y[k]) <= 1e-12:
                    continue
                return f'level {lv} {k}: {x.get(k)} vs {y.get(k)}'
        cx = [x['avg_correlation']] + list(x.get('runner_up_correlation', []))
        cy = [y['avg_correlation']] + list(y.get('runner_up_correlation', []))
        if len(cx) != len(cy):
            return f'level {lv} correlation lists differ in length'
        for u, v in zip(cx, cy):
            if bitwise:
                if u != v:
                    return f'level {lv} correlation {u!r} vs {v!r} (bitwise)'
            elif abs(u - v) > tol:
                return f'level {lv} correlation {u} vs {v}'
    return None


def base_var(rng, sc, factor=1.0):
    return dict(flatten=False, drop_level=None, chunk_size=rng.randrange(1, len(sc.cell_ids) + 3),
                n_processors=rng.randrange(1, 4), bootstrap_factor=factor,
                bootstrap_iteration=rng.choice([1, 3, 5]), rng_seed=rng.randrange(1, 10 ** 6),
                n_runners_up=rng.choice([0, 2, 4]), min_markers=rng.choice([0, 1, 3]))


def _leaves_under(model, li, node):
    if li == len(model) - 1:
        return [node]
    kids = dict((n, c) for n, c in model[li])[node]
    out = []
    for k in kids:
        out += _leaves_under(model, li + 1, k)
    return out


def near_tie_cell(sc, out, qrow, genes, normalization, flatten=False, drop_level=None):
    """Float analysis of one cell (bootstrap factor 1: every iteration uses all markers of the node):
    True if at some node with >= 2 children the best correlation is matched within 1e-9 by a leaf of
    ANOTHER child (exact ties of two-marker nodes, identical reference profiles, ...).  Such a vote is
    decided by the last bit of a BLAS product, which may depend on the shape of the matrix the cell is
    mapped in; it is outside what 'up to floating-point rounding' can promise and is excused (counted)."""
    qrow = np.asarray(qrow, dtype=float)
    if normalization == 'raw':
        s = qrow.sum()
        qrow = np.log2(1.0 + qrow * 1.0e6 / (s if s > 0 else 1.0))
    qv = {pipeline.gname(g): qrow[j] for j, g in enumerate(genes)}
    levels, model = mapcheck.reduced_model(sc, flatten, drop_level)      # the taxonomy the election ran on
    mg = out.get('marker_genes', {})
    parents = [('None', None, [n for n, _ in model[0]])]
    for li, lv in enumerate(model[:-1]):
        for node, kids in lv:
            parents.append((f'{levels[li]}/{sc.tree.name(node)}', li, kids))
    for key, li, kids in parents:
        if len(kids) < 2 or key not in mg:
            continue
        gl = [g for g in mg[key] if g in qv]
        if not gl:
            continue
        q = np.array([qv[g] for g in gl])
        if len(q) > 1 and np.all(q == q[0]) and q[0] != 0.0 and float(q[0]) * 8.0 != int(float(q[0]) * 8.0):
            # constant and not dyadic on this node's genes: mean(x) != x in floats, the residual is a constant ~1e-16 and
            # every leaf is tied at a correlation of 0 up to rounding: rounding decides the vote
            return True
        best = {}
        for k in kids:
            cl = li + 1 if li is not None else 0
            for lf in _leaves_under(model, cl, k):
                r = np.array([sc.means[lf][int(g[1:])] for g in gl])
                qc, rc = q - q.mean(), r - r.mean()
                nq, nr = np.sqrt((qc * qc).sum()), np.sqrt((rc * rc).sum())
                c = 0.0 if nq == 0 or nr == 0 else float((qc * rc).sum() / (nq * nr))
                best[k] = max(best.get(k, -2.0), c)
        vals = sorted(best.values(), reverse=True)
        if len(vals) >= 2 and vals[0] - vals[1] <= 1e-9 and not (vals[0] == 0.0 and vals[1] == 0.0):
            return True
    return False


# ---------------------------------------------------------------------------------------------
# relations over SEQUENCES of runs in one process, and the assignment stage called directly
def run_history_same_path(ctx, sc, tag, steps, **var):
    """Map several queries one after another IN THIS PROCESS, every one written to the SAME path (the file is
    replaced between the runs) and mapped without a scratch directory, so that the path string reaches every
    stage unchanged: a result memoised by path would survive the replacement.  steps: list of dicts with the
    keyword arguments of pipeline.write_query (query, cell_ids, genes, encoding, chunks) plus 'normalization'.
    Returns one result dict per step."""
    d = ctx.scratch / tag
    d.mkdir()
    pipeline.write_stats(d / 'stats.h5', sc)
    pipeline.write_markers(d / 'markers.json', sc)
    out = []
    for st in steps:
        st = dict(st)
        norm = st.pop('normalization', 'log2CPM')
        q = d / 'query.h5ad'
        if q.exists():
            q.unlink()
        pipeline.write_query(q, sc, **st)
        cfg = pipeline.config_for(d, q, d / 'stats.h5', d / 'markers.json', normalization=norm, tmp_dir=None, **var)
        for p in (d / 'out').iterdir():
            p.unlink()
        out.append(pipeline.run_mapping(cfg, trace_dir=None))
    shutil.rmtree(d, ignore_errors=True)
    return out


def assign_direct(ctx, sc, tag, *, n_processors, chunk_size, on_disk, query=None, cell_ids=None,
                  normalization='log2CPM', factor=0.5, iters=5, seed=11, n_assignments=3, encoding='dense'):
    """election_runner.run_type_assignment_on_h5ad called directly (as test_utils.hierarchical_mapping and library
    users do), with the in-memory hand-back (on_disk=False: results_output_path=None) or the result buffer.
    Returns dict(ok, error, results)."""
    import contextlib
    import io
    import json
    import h5py
    from cell_type_mapper.taxonomy.taxonomy_tree import TaxonomyTree
    from cell_type_mapper.type_assignment.marker_cache_v2 import create_marker_cache_from_specified_markers
    from cell_type_mapper.type_assignment.election_runner import run_type_assignment_on_h5ad
    from cell_type_mapper.utils.utils import clean_for_json
    d = ctx.scratch / tag
    d.mkdir()
    res = {'ok': True, 'error': None, 'results': None}
    buf = io.StringIO()
    try:
        with contextlib.redirect_stdout(buf), contextlib.redirect_stderr(buf):
            pipeline.write_stats(d / 'stats.h5', sc)
            pipeline.write_markers(d / 'markers.json', sc)
            pipeline.write_query(d / 'query.h5ad', sc, encoding=encoding, query=query, cell_ids=cell_ids)
            with h5py.File(d / 'stats.h5', 'r') as f:
                tree = TaxonomyTree.from_str(serialized_dict=f['taxonomy_tree'][()].decode('utf-8'))
                ref_genes = json.loads(f['col_names'][()].decode('utf-8'))
            create_marker_cache_from_specified_markers(
                marker_lookup=json.load(open(d / 'markers.json')), reference_gene_names=ref_genes,
                query_gene_names=[pipeline.gname(g) for g in sc.query_genes],
                output_cache_path=d / 'marker_cache.h5', taxonomy_tree=tree, min_markers=1)
            lookup = {level: factor for level in tree.hierarchy[:-1]}
            lookup['None'] = factor
            rdir = None
            if on_disk:
                rdir = d / 'results'
                rdir.mkdir()
            (d / 'tmp').mkdir()
            import numpy as np
            r = run_type_assignment_on_h5ad(
                query_h5ad_path=d / 'query.h5ad', precomputed_stats_path=d / 'stats.h5',
                marker_gene_cache_path=d / 'marker_cache.h5', taxonomy_tree=tree, n_processors=n_processors,
                chunk_size=chunk_size, bootstrap_factor_lookup=lookup, bootstrap_iteration=iters,
                rng=np.random.default_rng(seed), n_assignments=n_assignments, normalization=normalization,
                tmp_dir=str(d / 'tmp'), log=None, max_gb=1, results_output_path=rdir)
            res['results'] = json.loads(json.dumps(clean_for_json(r)))
    except Exception as e:      # noqa
        res['ok'] = False
        res['error'] = f'{type(e).__name__}: {e}'[:300]
    shutil.rmtree(d, ignore_errors=True)
    return res
