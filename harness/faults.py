"""Fault and schedule injector (C14, C04).  No source hook: everything here is a
harness-side replacement of a *module-level name* of a stage module, installed in the
checking interpreter and therefore inherited by the forked worker processes.

For a stage module M (e.g. cell_type_mapper.type_assignment.election) `install`
replaces
  * M.multiprocessing           by a proxy whose `Process(...)` numbers the workers in
                                dispatch order (parent-side counter) and wraps the target;
  * M.winnow_process_list/dict  by a wrapper that counts polls and records which
                                processes each poll removed (the real inspector does the work);
  * the stage's inner unit of work (a module-level function called inside the worker)
    by a wrapper that fails after its first call when the plan says `mid`.

Two modes:
  real     the workers are real forked processes; worker k fails in mode
           {kill, exit3, raise} at point {before, mid, after}; workers may be delayed
           before / after their work so that the completion order is a chosen one.
  virtual  `Process` returns an in-process stand-in whose target runs inline at start()
           and whose `exitcode` follows an oracle (code[k], dur[k]) exactly like the
           `world` of coq/Model/Pool.v: None while clock < start_clock + dur[k], where
           the clock counts the calls of the inspector.  The real dispatch/drain loop
           and the real inspector run unchanged; only the operating system is replaced.

Only active when CELL_TYPE_MAPPER_VERIF=1 (set by ./check)."""
import importlib
import json
import os
import signal
import time

GUARD = 'CELL_TYPE_MAPPER_VERIF'

# stage -> (module, worker target, inner unit of work, inspector name)
STAGES = {
    'mapping': ('cell_type_mapper.type_assignment.election',
                '_run_type_assignment_on_h5ad_worker', '_run_type_assignment', 'winnow_process_list'),
    'stats': ('cell_type_mapper.diff_exp.precompute_from_anndata',
              '_process_chunk_spec', '_process_chunk', 'winnow_process_list'),
    'markers': ('cell_type_mapper.diff_exp.markers',
                '_find_markers_worker', 'score_differential_genes', 'winnow_process_dict'),
    'pmask': ('cell_type_mapper.diff_exp.p_value_mask',
              '_p_values_worker', 'diffexp_p_values_from_stats', 'winnow_process_dict'),
    'pmarkers': ('cell_type_mapper.diff_exp.p_value_markers',
                 '_find_markers_from_p_mask_worker', '_get_validity_mask', 'winnow_process_dict'),
    'selection': ('cell_type_mapper.marker_selection.selection_pipeline',
                  '_marker_selection_worker', 'select_marker_genes_v2', 'winnow_process_dict'),
    'transpose': ('cell_type_mapper.utils.csc_to_csr_parallel',
                  '_transpose_subset_of_indices', 'transpose_sparse_matrix_on_disk', 'winnow_process_list'),
}

EXIT_CODE = {'none': 0, 'raise': 1, 'exit3': 3, 'kill': -9}

STATE = {
    'installed': {},      # stage -> saved originals
    'plan': None,         # dict, see `arm`
    'procs': {},          # stage -> list of process objects in dispatch order
    'clock': {},          # stage -> number of inspector calls so far
    'log': {},            # stage -> parent-side event log [('start', k) | ('pop', k)]; polls are only counted (clock)
    'child': None,        # in a worker: {'stage', 'k', 'inner_calls'}
}


class InjectedFault(RuntimeError):
    pass


def guard_on():
    return os.environ.get(GUARD) == '1'


def _fail(mode):
    _emit({'ev': 'fault', 'mode': mode})
    if mode == 'kill':
        os.kill(os.getpid(), signal.SIGKILL)
        time.sleep(5)
    elif mode == 'exit3':
        os._exit(3)
    elif mode == 'raise':
        raise InjectedFault('injected worker fault')
    else:
        raise ValueError(mode)


def _emit(rec):
    plan = STATE['plan']
    d = plan.get('trace_dir') if plan else None
    if d is None:
        return
    rec['t'] = time.time()
    rec['pid'] = os.getpid()
    with open(os.path.join(d, f'w{os.getpid()}.jsonl'), 'a') as f:
        f.write(json.dumps(rec) + '\n')


def _fault_for(stage, k, point):
    plan = STATE['plan'] or {}
    f = plan.get('fault')
    if f and f['stage'] == stage and f['worker'] == k and f['point'] == point:
        return f['mode']
    return None


def _child_entry(stage, k, target, args, kwargs):
    """Runs in the forked worker."""
    plan = STATE['plan'] or {}
    STATE['child'] = {'stage': stage, 'k': k, 'inner_calls': 0}
    import numbers
    info = {}
    for kk, vv in kwargs.items():
        if isinstance(vv, numbers.Integral) and not isinstance(vv, bool):
            info[kk] = int(vv)
        elif isinstance(vv, str) and len(vv) < 200:
            info[kk] = vv
    if 'rng' in kwargs:
        try:
            info['seed'] = int(kwargs['rng'].bit_generator.seed_seq.entropy)
        except Exception:
            pass
    if 'parent_node' in kwargs:
        info['parent_node'] = repr(kwargs['parent_node'])
    _emit({'ev': 'begin', 'stage': stage, 'k': k, 'info': info})
    d = (plan.get('delay_before') or {}).get(stage, {}).get(k, 0)
    if d:
        time.sleep(d)
    m = _fault_for(stage, k, 'before')
    if m:
        _fail(m)
    target(*args, **kwargs)
    _emit({'ev': 'worked', 'stage': stage, 'k': k})
    m = _fault_for(stage, k, 'after')
    if m:
        _fail(m)
    d = (plan.get('delay_after') or {}).get(stage, {}).get(k, 0)
    if d:
        time.sleep(d)
    _emit({'ev': 'end', 'stage': stage, 'k': k})


class _FakeProcess:
    """virtual mode: the target runs inline at start(); exitcode follows the oracle."""

    def __init__(self, stage, k, target, args, kwargs):
        self.stage, self.k = stage, k
        self._target, self._args, self._kwargs = target, args, kwargs
        self._t0 = None
        self.pid = 100000 + k
        self.name = f'virtual-{stage}-{k}'

    def start(self):
        self._t0 = STATE['clock'][self.stage]
        w = STATE['plan']['world']
        if w.get('work', {}).get(self.k, True):
            self._target(*self._args, **self._kwargs)

    @property
    def exitcode(self):
        w = STATE['plan']['world']
        if STATE['clock'][self.stage] < self._t0 + w['dur'][self.k]:
            return None
        return w['code'][self.k]

    def join(self, timeout=None):
        return None

    def is_alive(self):
        return self.exitcode is None


class _MPProxy:
    def __init__(self, real, stage):
        self.__dict__['_real'] = real
        self.__dict__['_stage'] = stage

    def Process(self, group=None, target=None, name=None, args=(), kwargs=None, **kw):
        stage = self._stage
        plan = STATE['plan']
        if plan is None or stage not in plan.get('stages', ()):
            return self._real.Process(group=group, target=target, name=name, args=args,
                                      kwargs=kwargs or {}, **kw)
        k = len(STATE['procs'][stage])
        if plan.get('world') is not None:
            # the oracle is indexed by dispatch number unless the plan names the workers itself
            # (selection: by parent, because the scheduler's dispatch order depends on the schedule)
            index_of = plan['world'].get('index_of')
            if index_of is not None:
                k = index_of(kwargs or {})
            p = _FakeProcess(stage, k, target, args, kwargs or {})
        else:
            p = self._real.Process(target=_child_entry, args=(stage, k, target, args, kwargs or {}), **kw)
            p.k = k
        STATE['procs'][stage].append(p)
        real_start = p.start

        def start():
            STATE['log'][stage].append(('start', k))
            return real_start()
        p.start = start
        return p

    def __getattr__(self, name):
        return getattr(self._real, name)


def install(stage):
    if not guard_on():
        raise RuntimeError(f'{GUARD}=1 is not set: the injector refuses to run')
    if stage in STATE['installed']:
        return
    modname, target, inner, inspector = STAGES[stage]
    mod = importlib.import_module(modname)
    saved = {'multiprocessing': mod.multiprocessing, inspector: getattr(mod, inspector)}
    if hasattr(mod, inner):
        saved[inner] = getattr(mod, inner)
    STATE['installed'][stage] = saved
    STATE['procs'].setdefault(stage, [])
    STATE['clock'].setdefault(stage, 0)
    STATE['log'].setdefault(stage, [])
    mod.multiprocessing = _MPProxy(saved['multiprocessing'], stage)
    real_inspect = saved[inspector]

    def inspect(procs):
        plan = STATE['plan']
        if plan is None or stage not in plan.get('stages', ()):
            return real_inspect(procs)
        before = list(procs.values()) if isinstance(procs, dict) else list(procs)
        try:
            out = real_inspect(procs)
        finally:
            STATE['clock'][stage] += 1
        after = list(out.values()) if isinstance(out, dict) else list(out)
        ids = {id(p) for p in after}
        for p in before:
            if id(p) not in ids:
                STATE['log'][stage].append(('pop', p.k))
        if plan.get('poll_sleep'):
            time.sleep(plan['poll_sleep'])
        return out
    setattr(mod, inspector, inspect)

    if inner in saved:
        real_inner = saved[inner]

        def inner_unit(*a, **kw):
            out = real_inner(*a, **kw)
            ch = STATE['child']
            if ch is not None and ch['stage'] == stage:
                first = ch['inner_calls'] == 0
                ch['inner_calls'] += 1
                if first:
                    _emit({'ev': 'mid', 'stage': stage, 'k': ch['k']})
                    m = _fault_for(stage, ch['k'], 'mid')
                    if m:
                        _fail(m)
            return out
        setattr(mod, inner, inner_unit)


def uninstall(stage=None):
    for st in ([stage] if stage else list(STATE['installed'])):
        saved = STATE['installed'].pop(st, None)
        if saved is None:
            continue
        mod = importlib.import_module(STAGES[st][0])
        for name, val in saved.items():
            setattr(mod, name, val)


def arm(stages, fault=None, world=None, delay_before=None, delay_after=None, trace_dir=None, poll_sleep=0):
    """Set the plan of the next stage call and reset the per-call counters.
    fault: {'stage','worker','mode','point'};  world: {'code': [...], 'dur': [...], 'work': {k: bool}}
    delay_*: {stage: {k: seconds}}."""
    for st in stages:
        install(st)
        STATE['procs'][st] = []
        STATE['clock'][st] = 0
        STATE['log'][st] = []
    if trace_dir is not None:
        os.makedirs(trace_dir, exist_ok=True)
    STATE['plan'] = {'stages': tuple(stages), 'fault': fault, 'world': world, 'delay_before': delay_before,
                     'delay_after': delay_after, 'trace_dir': None if trace_dir is None else str(trace_dir),
                     'poll_sleep': poll_sleep}


def disarm():
    STATE['plan'] = None


def settle(timeout=30.0):
    """Wait until every worker started under the current plan has exited; returns
    {stage: [exit codes in dispatch order]} (None = never started / still alive)."""
    out = {}
    t_end = time.time() + timeout
    for st in (STATE['plan'] or {}).get('stages', ()):
        procs = STATE['procs'][st]
        codes = []
        for p in procs:
            if isinstance(p, _FakeProcess):
                codes.append(STATE['plan']['world']['code'][p.k] if p._t0 is not None else None)
                continue
            try:
                p.join(max(0.0, t_end - time.time()))
                if p.exitcode is None:
                    p.kill()
                    p.join(5)
                    codes.append('hung')
                else:
                    codes.append(p.exitcode)
            except (AssertionError, ValueError):
                codes.append(None)       # created but never started
        out[st] = codes
    return out


def parent_log(stage):
    return list(STATE['log'].get(stage, []))


def read_trace(trace_dir):
    recs = []
    if trace_dir is None or not os.path.isdir(trace_dir):
        return recs
    for name in sorted(os.listdir(trace_dir)):
        if name.endswith('.jsonl'):
            with open(os.path.join(trace_dir, name)) as f:
                recs += [json.loads(line) for line in f]
    recs.sort(key=lambda r: r['t'])
    return recs
