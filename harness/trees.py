"""Taxonomy generators for the mapping properties.  Node names are zero-padded so
that Python's string order equals the order of the model's integers."""
import itertools


class GenTree:
    def __init__(self, levels, data, model):
        self.levels = levels      # level names, top first
        self.data = data          # dict accepted by TaxonomyTree(data=...)
        self.model = model        # [[ [node_int, [child ints]] ... ] ...]

    def name(self, x):
        return f'n{x:03d}'

    @staticmethod
    def num(name):
        return int(name[1:])

    def n_leaves(self):
        return len(self.model[-1])

    def shape_key(self):
        return tuple(tuple(len(c) for _, c in lv) for lv in self.model[:-1]) + (len(self.model[-1]),)


def build(levels_children, rng=None, rows_per_leaf=0, collide=False):
    """levels_children: list over non-leaf levels of list (per node, in order) of child counts;
    the top level has len(levels_children[0]) nodes.  Node ids are drawn at random
    (if rng) so that dict insertion order differs from sorted order.
    collide: every node with >= 2 children shares its NAME with one of its children (names
    are only unique within a level: 'Sst' = {'Sst', 'Sst Chodl'} is a legitimate taxonomy)."""
    n_levels = len(levels_children) + 1
    counts = [len(levels_children[0])] if levels_children else None
    # number of nodes per level
    sizes = []
    if levels_children:
        sizes.append(len(levels_children[0]))
        for lc in levels_children:
            sizes.append(sum(lc))
    ids = []
    for s in sizes:
        if rng is None:
            ids.append(list(range(s)))
        else:
            ids.append(rng.sample(range(0, max(2 * s, s + 3)), s))
    if collide:
        for li in range(n_levels - 1):
            pos = 0
            for k, node in enumerate(ids[li]):
                nk = levels_children[li][k]
                if nk >= 2:
                    j = pos + (k % nk)
                    if node in ids[li + 1]:
                        q = ids[li + 1].index(node)
                        ids[li + 1][q], ids[li + 1][j] = ids[li + 1][j], ids[li + 1][q]
                    else:
                        ids[li + 1][j] = node
                pos += nk
    level_names = [f'L{i}' for i in range(n_levels)]
    data = {'hierarchy': level_names}
    model = []
    row = 0
    for li in range(n_levels):
        this = {}
        mlevel = []
        if li < n_levels - 1:
            pos = 0
            for k, node in enumerate(ids[li]):
                nk = levels_children[li][k]
                kids = ids[li + 1][pos:pos + nk]
                pos += nk
                if rng is not None:
                    kids = list(kids)
                    rng.shuffle(kids)
                this[f'n{node:03d}'] = [f'n{c:03d}' for c in kids]
                mlevel.append([node, list(kids)])
        else:
            for node in ids[li]:
                rows = list(range(row, row + rows_per_leaf))
                row += rows_per_leaf
                this[f'n{node:03d}'] = rows
                mlevel.append([node, rows])
        if rng is not None:
            order = list(range(len(mlevel)))
            rng.shuffle(order)
            keys = list(this.keys())
            this = {keys[i]: this[keys[i]] for i in order}
            mlevel = [mlevel[i] for i in order]
        data[level_names[li]] = this
        model.append(mlevel)
    return GenTree(level_names, data, model)


def one_level(n_leaves, rng=None, rows_per_leaf=0):
    ids = list(range(n_leaves)) if rng is None else rng.sample(range(0, 2 * n_leaves + 3), n_leaves)
    data = {'hierarchy': ['L0'], 'L0': {}}
    model = [[]]
    row = 0
    for node in ids:
        rows = list(range(row, row + rows_per_leaf))
        row += rows_per_leaf
        data['L0'][f'n{node:03d}'] = rows
        model[0].append([node, rows])
    return GenTree(['L0'], data, model)


def compositions(n, k_max):
    """all lists of positive ints summing to n, length <= k_max."""
    if n == 0:
        yield []
        return
    for first in range(1, n + 1):
        for rest in compositions(n - first, k_max):
            if len(rest) + 1 <= k_max:
                yield [first] + rest


def enumerate_shapes(max_levels, max_leaves):
    """every tree shape with <= max_levels levels and <= max_leaves leaves, as levels_children lists
    ([] = a single level is yielded as ('flat', n))."""
    for n in range(1, max_leaves + 1):
        yield ('flat', n)

    def extend(prefix, width, depth):
        # prefix: levels_children so far; width = nodes at the current bottom level
        if depth + 1 >= 2:
            yield prefix
        if depth + 1 >= max_levels:
            return
        # child counts for each of `width` nodes, each >= 1, total <= max_leaves
        for total in range(width, max_leaves + 1):
            for comp in compositions(total, width):
                if len(comp) == width:
                    yield from extend(prefix + [comp], total, depth + 1)
    for top in range(1, max_leaves + 1):
        # first non-leaf level has `top` nodes: choose their child counts
        for total in range(top, max_leaves + 1):
            for comp in compositions(total, top):
                if len(comp) == top:
                    yield from extend([comp], total, 1)


def random_tree(rng, max_levels=4, max_leaves=12, p_single=0.3, rows_per_leaf=0):
    n_levels = rng.randrange(1, max_levels + 1)
    if n_levels == 1:
        return one_level(rng.randrange(1, min(6, max_leaves) + 1), rng, rows_per_leaf)
    width = rng.choice([1, 1, 2, 2, 3])
    lc = []
    for li in range(n_levels - 1):
        row = []
        for _ in range(width):
            if rng.random() < p_single:
                row.append(1)
            else:
                row.append(rng.randrange(2, 4))
        while sum(row) > max_leaves:
            row[rng.randrange(len(row))] = 1
            if all(r == 1 for r in row):
                break
        lc.append(row)
        width = sum(row)
    return build(lc, rng, rows_per_leaf)
