"""C05 — row access is exact for every on-disk encoding and chunking.

Drives AnnDataRowIterator (chunk iteration, get_chunk, get_batch) and the inner
functions of utils/sparse_utils.py on generated h5ad files and compares (a) with
the extracted Coq model (Model/Sparse.v, Model/Transpose.v; tags 501-510) and (b)
with the property's own statement on what the implementation returned."""
import json

import h5py
import numpy as np
import scipy.sparse as sp

from harness import gen
from harness.core import exc_class
from harness.props import c13 as S

ENC = ['dense', 'csr', 'csc']


def encode(M, enc, rng, shuffle_inside):
    """scipy / numpy object to hand to anndata; optionally with the minor indices of
    every major slice in shuffled (non-canonical, duplicate-free) order."""
    if enc == 'dense':
        return np.array(M)
    A = sp.csr_matrix(M) if enc == 'csr' else sp.csc_matrix(M)
    if shuffle_inside and A.nnz > 1:
        idx, dat = A.indices.copy(), A.data.copy()
        for j in range(len(A.indptr) - 1):
            a, b = int(A.indptr[j]), int(A.indptr[j + 1])
            perm = list(range(a, b))
            rng.shuffle(perm)
            idx[a:b] = A.indices[perm]
            dat[a:b] = A.data[perm]
        cls = sp.csr_matrix if enc == 'csr' else sp.csc_matrix
        A = cls((dat, idx, A.indptr.copy()), shape=M.shape)
    return A


def write_file(path, M, enc, layer, chunks, rng, shuffle_inside):
    import anndata
    import pandas as pd
    obs = pd.DataFrame(index=S.names('c', M.shape[0]))
    var = pd.DataFrame(index=S.names('g', M.shape[1]))
    X = encode(M, enc, rng, shuffle_inside)
    with S.quiet():
        if layer is None:
            a = anndata.AnnData(X=X, obs=obs, var=var)
        else:
            a = anndata.AnnData(X=np.full(M.shape, 7, dtype=np.float32), obs=obs, var=var, layers={layer: X})
        a.write_h5ad(path)
        if chunks is not None:
            key = 'X' if layer is None else f'layers/{layer}'
            c = None if chunks == 'contiguous' else chunks
            if enc == 'dense':
                gen.rechunk(path, key, None if c is None else (c, c))
            else:
                for sub in ('data', 'indices', 'indptr'):
                    gen.rechunk(path, f'{key}/{sub}', None if c is None else (c,))


def stored_comp(path, layer):
    """The compressed arrays exactly as they are on disk."""
    key = 'X' if layer is None else f'layers/{layer}'
    with h5py.File(path, 'r') as f:
        g = f[key]
        return ([[int(v) for v in g['indptr'][()]], [int(v) for v in g['indices'][()]],
                 S.code_array(g['data'][()])],
                {'indices': str(g['indices'].dtype), 'indptr': str(g['indptr'].dtype), 'data': str(g['data'].dtype)})


def blocks_of(it):
    out = []
    for chunk, r0, r1 in it:
        out.append((int(r0), int(r1), np.asarray(chunk)))
        if len(out) > 10000:
            raise RuntimeError('iterator does not terminate')
    return out


def spec_blocks(M, blocks, c):
    """every row exactly once, in file order, with exactly the stored values"""
    bad = []
    n = M.shape[0]
    pos = 0
    for r0, r1, b in blocks:
        if r0 != pos or r1 <= r0 or r1 - r0 > c or (r1 - r0 < c and r1 != n):
            bad.append(f'chunk ({r0},{r1}) after row {pos} with chunk size {c}')
            break
        if not S.same_bits(b, M[r0:r1, :]):
            bad.append(f'rows {r0}:{r1} differ from the matrix (dtype {b.dtype} vs {M.dtype})')
            break
        pos = r1
    if not bad and pos != n:
        bad.append(f'iteration stopped at row {pos} of {n}')
    return bad


def op_sequence(rng, it, M):
    """Operation sequence on ONE iterator object: next() steps interleaved, at arbitrary points
    (before the first step, between steps, after the last), with the random accesses the public
    API offers: get_chunk(a, b), get_batch(rows), iterator[i], iterator[[a, ..., b]].
    Returns (blocks yielded by the iteration, accesses, notes); an access is
    (position = number of next() calls made before it, text, got, want)."""
    n = M.shape[0]
    blocks, acc, notes = [], [], []
    p_access = rng.choice([0.25, 0.5, 0.75])

    def access():
        kind = rng.choice(['get_chunk', 'get_chunk', 'get_batch', 'item', 'item_list'])
        pos = len(blocks)
        if kind == 'get_chunk':
            a = rng.randrange(0, n)
            b = rng.randrange(a + 1, n + 1)
            ch = it.get_chunk(a, b)
            acc.append((pos, f'get_chunk({a},{b})', (np.asarray(ch[0]), int(ch[1]), int(ch[2])), (M[a:b, :], a, b)))
        elif kind == 'get_batch':
            rows = rng.sample(range(n), rng.randrange(1, n + 1))
            sparse = rng.random() < 0.25
            b = it.get_batch(list(rows), sparse=sparse)
            if sparse:
                b = b.toarray()
            acc.append((pos, f'get_batch({rows})', (np.asarray(b), None, None), (M[rows, :], None, None)))
        elif kind == 'item':
            a = rng.randrange(0, n)
            ch = it[a]
            acc.append((pos, f'iterator[{a}]', (np.asarray(ch[0]), int(ch[1]), int(ch[2])), (M[a:a + 1, :], a, a + 1)))
        else:
            a = rng.randrange(0, n)
            b = rng.randrange(a + 1, n + 1)
            ch = it[list(range(a, b))]
            acc.append((pos, f'iterator[[{a}..{b - 1}]]', (np.asarray(ch[0]), int(ch[1]), int(ch[2])), (M[a:b, :], a, b)))

    exhausted = False
    while not exhausted:
        while rng.random() < p_access and len(acc) < 40:
            access()
        try:
            chunk, r0, r1 = next(it)
            blocks.append((int(r0), int(r1), np.asarray(chunk)))
        except StopIteration:
            exhausted = True
        if len(blocks) > 10000:
            raise RuntimeError('iterator does not terminate')
    # after the last chunk: random accesses must not revive the iteration
    for _ in range(rng.randrange(1, 4)):
        access()
    try:
        chunk, r0, r1 = next(it)
        notes.append(f'next() after StopIteration and {acc[-1][1]} yielded rows {int(r0)}:{int(r1)} again')
    except StopIteration:
        pass
    return blocks, acc, notes


def err_code(kind, e):
    """Exception -> model error enum.  CSR route: numpy IndexError = 1.  Dense route:
    h5py refuses the point selection (TypeError / IndexError / OSError) = 2."""
    name = e[0]
    if kind == 'dense':
        return 2 if name in ('TypeError', 'IndexError', 'OSError') else 99
    return {'IndexError': 1, 'KeyError': 1, 'ValueError': 3}.get(name, 99)


def row_lists(rng, n):
    """(valid, list) pairs: sub-lists / permutations of distinct rows, and the lists the
    property does not quantify over (duplicate, empty, out of range)."""
    out = []
    if n > 0:
        perm = list(range(n))
        rng.shuffle(perm)
        out.append((True, perm))
        for _ in range(2):
            out.append((True, rng.sample(range(n), rng.randrange(1, n + 1))))
        out.append((True, sorted(rng.sample(range(n), rng.randrange(1, n + 1)))))
        out.append((True, [rng.randrange(n)]))
        d = rng.sample(range(n), rng.randrange(1, n + 1))
        d.insert(rng.randrange(len(d) + 1), rng.choice(d))
        out.append((False, d))
        o = rng.sample(range(n), rng.randrange(0, n + 1))
        o.insert(rng.randrange(len(o) + 1), n + rng.randrange(0, 3))
        out.append((False, o))
    out.append((False, []))
    out.append((False, [n]))
    return out


def iterator_cases(ctx):
    from cell_type_mapper.anndata_iterator.anndata_iterator import AnnDataRowIterator
    rng = ctx.rng
    d = ctx.scratch / 'iter'
    d.mkdir()
    n_files = ctx.n(260, 5000)
    pending = []          # (desc, kind, M, observations, model cases)
    for i in range(n_files):
        M, kind = S.gen_matrix(rng, kind=rng.choice(['tiny', 'small', 'small', 'big', 'big', 'wide', 'onerow',
                                                     'onecol', 'zero', 'full']))
        if M.shape[0] == 0 or M.shape[1] == 0:
            M, kind = S.gen_matrix(rng, kind='small')
        enc = rng.choice(ENC)
        layer = rng.choice([None, None, 'raw'])
        chunks = rng.choice([None, None, 'contiguous', 1, 2, 5, 64])
        shuffle_inside = enc != 'dense' and rng.random() < 0.2
        path = d / f'f_{i}.h5ad'
        write_file(path, M, enc, layer, chunks, rng, shuffle_inside)
        n, nc = M.shape
        if enc != 'dense':
            comp, dts = stored_comp(path, layer)
        gb = S.rand_gb(rng)
        base = S.mdesc(M, encoding=enc, layer=layer, hdf5_chunks=chunks, shuffled_inside=shuffle_inside,
                       max_gb=gb, matrix_kind=kind)
        ctx.dist('encoding', enc)
        ctx.dist('matrix_kind', kind)
        ctx.dist('location', 'X' if layer is None else 'layer')
        ctx.dist('dtype', str(M.dtype))
        before = gen.digest(path)
        sizes = sorted({1, rng.randrange(1, n + 3), n + rng.randrange(0, 3)} - {0})
        tmp = d / f'tmp_{i}'
        tmp.mkdir()
        budgets = None
        for c in sizes:
            obs = {}
            try:
                with S.quiet():
                    it = AnnDataRowIterator(path, row_chunk_size=c, layer=layer or 'X', tmp_dir=str(tmp),
                                            max_gb=gb, keep_open=rng.random() < 0.7)
                    traces = S.take_traces()
                    obs['n_rows'] = int(it.n_rows)
                    obs['blocks'] = blocks_of(it)
                    # direct chunk access and the requested-row interface
                    r0 = rng.randrange(0, n)
                    r1 = rng.randrange(r0 + 1, n + 1)
                    ch = it.get_chunk(r0, r1)
                    obs['get_chunk'] = (r0, r1, np.asarray(ch[0]), int(ch[1]), int(ch[2]))
                    obs['batches'] = []
                    for valid, rows in row_lists(rng, n):
                        try:
                            sparse = rng.random() < 0.25
                            b = it.get_batch(list(rows), sparse=sparse)
                            if sparse:
                                b = b.toarray()
                            obs['batches'].append((valid, rows, np.asarray(b), None))
                        except Exception as e:
                            # (name, message) only: the exception object would keep the iterator alive
                            obs['batches'].append((valid, rows, None, (exc_class(e), str(e)[:200])))
                    del it
                obs['ok'] = True
            except Exception as e:
                traces = S.take_traces()
                obs['ok'] = False
                obs['exc'] = exc_class(e)
                obs['msg'] = str(e)[:200]
            mcases = []
            if enc == 'dense':
                mcases.append((502, [S.code_dense(M), n, c]))
            elif enc == 'csr':
                mcases.append((501, [comp, n, nc, c]))
            else:
                if traces:
                    t = traces[0]
                    budgets = S.budgets(t['max_gb'], t['data_dtype'], t['indices_dtype'], t['indptr_dtype'])
                elif budgets is None:
                    budgets = S.budgets(0.8 * gb, dts['data'], dts['indices'], dts['indptr'])
                mcases.append((503, [comp, n, nc, c, *budgets]))
                mcases.append((1301, [comp, True, n, [], *budgets]))
            if obs['ok']:
                for valid, rows, b, e in obs['batches']:
                    if enc == 'dense':
                        mcases.append((505, [S.code_dense(M), n, rows]))
                    elif enc == 'csr':
                        mcases.append((504, [comp, nc, rows]))
                    else:
                        mcases.append((510, [comp, rows, n, nc, *budgets]))
                if enc == 'csr':
                    mcases.append((508, [comp, nc, obs['get_chunk'][0], obs['get_chunk'][1]]))
            desc = dict(base)
            desc['chunk_size'] = c
            pending.append((desc, enc, M, obs, mcases, traces, budgets))
        # operation sequence on one further iterator object (chunk size: one of the above, so that
        # the model of that pure iteration is also the model of the interleaved one)
        multi = [k_ for k_, c_ in enumerate(sizes) if c_ < n]
        if any(n <= 64 * sizes[k_] for k_ in multi) and rng.random() < 0.8:
            multi = [k_ for k_ in multi if n <= 64 * sizes[k_]]      # mostly sequences of at most 64 steps
        k_seq = rng.choice(multi) if multi and rng.random() < 0.85 else rng.randrange(len(sizes))
        obs = pending[len(pending) - len(sizes) + k_seq][3]
        if obs['ok']:
            seed = rng.getrandbits(48)
            try:
                with S.quiet():
                    it = AnnDataRowIterator(path, row_chunk_size=sizes[k_seq], layer=layer or 'X', tmp_dir=str(tmp),
                                            max_gb=gb, keep_open=rng.random() < 0.7)
                    S.take_traces()
                    import random as _random
                    blocks, acc, notes = op_sequence(_random.Random(seed), it, M)
                    del it
                obs['seq'] = {'ok': True, 'blocks': blocks, 'accesses': acc, 'notes': notes, 'seed': seed}
            except Exception as e:
                S.take_traces()
                obs['seq'] = {'ok': False, 'exc': exc_class(e), 'msg': str(e)[:200], 'seed': seed}
                it = None
        left = sorted(p.name for p in tmp.iterdir())
        if left:
            # the CSC scratch copy is removed by __del__ of the iterator
            import gc
            gc.collect()
            left = sorted(p.name for p in tmp.iterdir())
        if gen.digest(path) != before or left:
            ctx.violation('iterating modified the input file or left scratch behind',
                          dict(base, **{'class': 'iterator:input-modified-or-scratch-left', 'left': left}))
        path.unlink()
    flat = [mc for p in pending for mc in p[4]]
    results = ctx.model(flat)
    k = 0
    for desc, enc, M, obs, mcases, traces, budgets in pending:
        res = results[k:k + len(mcases)]
        k += len(mcases)
        judge_iteration(ctx, desc, enc, M, obs, mcases, res, traces, budgets)


def judge_iteration(ctx, desc, enc, M, obs, mcases, res, traces, budgets):
    n = M.shape[0]
    c = desc['chunk_size']
    nnz = int((M != 0).sum())
    spec, corr = [], []
    nontriv = n >= 2 and nnz >= 2
    ctx.count(('iter', enc, desc['layer'], desc['dtype'], json.dumps(desc['M']), c, str(desc['hdf5_chunks'])),
              nontrivial=nontriv)
    ctx.dist('chunk_size_vs_rows', 'c=1' if c == 1 else ('c<n' if c < n else ('c=n' if c == n else 'c>n')))
    r_iter = res[0]
    if not obs['ok']:
        spec.append(f'raised {obs["exc"]}: {obs["msg"]}')
        if r_iter[0] != 1 or S.ERR.get(obs['exc'], 99) != r_iter[1]:
            corr.append(f'model of the iteration: {str(r_iter)[:200]}')
        klass = 'iterator:' + obs['exc']
        if enc == 'csc' and nnz == 0 and obs['exc'] == 'ValueError':
            klass = 'F2-csc-without-stored-value'
        ctx.dist('iteration_outcome', 'raised')
    else:
        ctx.dist('iteration_outcome', 'ok')
        klass = 'iterator:wrong-rows'
        if obs['n_rows'] != n:
            spec.append(f'n_rows {obs["n_rows"]} != {n}')
        spec += spec_blocks(M, obs['blocks'], c)
        got = [[r0, r1, S.code_dense(b)] for r0, r1, b in obs['blocks']]
        if r_iter != [0, got]:
            corr.append(f'iteration: model {str(r_iter)[:300]} impl {str(got)[:300]}')
        r0, r1, b, o0, o1 = obs['get_chunk']
        if (o0, o1) != (r0, r1) or not S.same_bits(b, M[r0:r1, :]):
            spec.append(f'get_chunk({r0},{r1}) differs from the matrix rows')
        seq = obs.get('seq')
        if seq is not None:
            if not seq['ok']:
                ctx.dist('operation_sequence', 'raised')
            else:
                mid = sum(1 for a in seq['accesses'] if 0 < a[0] < len(seq['blocks']))
                ctx.dist('operation_sequence', 'random accesses between two next() steps: '
                         + ('0' if mid == 0 else '1-2' if mid <= 2 else '3+'))
            desc['sequence_seed'] = seq['seed']
            if not seq['ok']:
                spec.append(f'operation sequence on one iterator raised {seq["exc"]}: {seq["msg"]}')
                klass = 'iterator:sequence-' + seq['exc']
            else:
                desc['sequence'] = [f'after {a[0]} next(): {a[1]}' for a in seq['accesses']]
                bad = spec_blocks(M, seq['blocks'], c) + seq['notes']
                if bad:
                    spec.append('iteration interleaved with random accesses on the same iterator object: ' + bad[0]
                                + f'; chunks yielded {[[b_[0], b_[1]] for b_ in seq["blocks"]][:12]}')
                    klass = 'iterator:random-access-moves-iteration'
                for pos, text, got_a, want_a in seq['accesses']:
                    if (got_a[1], got_a[2]) != (want_a[1], want_a[2]) or not S.same_bits(got_a[0], want_a[0]):
                        spec.append(f'{text} after {pos} next() calls differs from the matrix rows')
                        break
                got_s = [[r0_, r1_, S.code_dense(b_)] for r0_, r1_, b_ in seq['blocks']]
                if r_iter != [0, got_s]:
                    corr.append(f'interleaved iteration: model {str(r_iter)[:300]} impl {str(got_s)[:300]}')
        j = 1
        if enc == 'csc':
            # loop bounds of the conversion against the model of the transposition
            rt = res[1]
            j = 2
            if traces:
                ctx.traces_validated += 1
                if rt[0] == 0 and traces[0]['reads'] != S.expected_reads(rt[1], True):
                    corr.append('loop bounds of the CSC->CSR conversion differ from the model')
        for (valid, rows, bmat, e), rb in zip(obs['batches'], res[j:]):
            ctx.dist('row_list', 'distinct-in-range' if valid else 'outside-quantifier')
            if valid:
                if e is not None:
                    spec.append(f'get_batch({rows}) raised {e[0]}: {e[1]}')
                elif not S.same_bits(bmat, M[rows, :]):
                    spec.append(f'get_batch({rows}) differs from M[rows]')
                    klass = 'get_batch:wrong-rows'
                if e is None and rb != [0, S.code_dense(bmat)]:
                    corr.append(f'get_batch({rows}): model {str(rb)[:200]}')
            else:
                # never wrong rows: the call must be refused
                if e is None:
                    spec.append(f'get_batch({rows}) (duplicate / empty / out of range) returned {bmat.tolist()}')
                    klass = 'get_batch:invalid-list-accepted'
                    if rb[0] != 0 or rb[1] != S.code_dense(bmat):
                        corr.append(f'get_batch({rows}): model {str(rb)[:200]}')
                elif rb[0] != 1 or rb[1] != err_code('dense' if enc == 'dense' else 'csr', e):
                    corr.append(f'get_batch({rows}) raised {e[0]} ({e[1]}), model {str(rb)[:100]}')
        if enc == 'csr':
            rl = res[-1]
            if rl != [0, S.code_dense(b)]:
                corr.append(f'load_csr({r0},{r1}): model {str(rl)[:200]}')
    if nontriv and obs['ok'] and len(obs['blocks']) > 1:
        ctx.sample({'shape': list(M.shape), 'encoding': enc, 'layer': desc['layer'], 'dtype': desc['dtype'],
                    'chunk_size': c, 'chunks': [[b[0], b[1]] for b in obs['blocks']][:6], 'budgets': budgets}, limit=4)
    if spec or corr:
        ctx.disagreements_checked += 1
        d = dict(desc)
        d['kind'] = 'iterator'
        d['budgets'] = budgets
        d['model'] = [str(r)[:400] for r in res]
        if spec:
            d['class'] = klass
            ctx.violation(f'AnnDataRowIterator ({enc}): ' + '; '.join((spec + corr)[:4]), d)
        else:
            d['class'] = 'corr:Sparse.iterate/get_batch'
            ctx.violation(f'AnnDataRowIterator ({enc}) and its model disagree: ' + '; '.join(corr[:4]), d,
                          no_input=True)


def inner_cases(ctx):
    """load_csr, _load_disjoint_csr, merge_index_list, merge_csr on arrays."""
    from cell_type_mapper.utils.sparse_utils import load_csr, _load_disjoint_csr, merge_csr
    from cell_type_mapper.utils.utils import merge_index_list
    rng = ctx.rng
    recs, cases = [], []
    for i in range(ctx.n(150, 4000)):
        # merge_index_list on arbitrary non-empty lists (np.unique sorts and de-duplicates)
        l = [rng.randrange(0, 25) for _ in range(rng.randrange(1, 14))]
        got = [[int(a), int(b)] for a, b in merge_index_list(l)]
        recs.append(('merge_index_list', l, got))
        cases.append((506, l))
    for i in range(ctx.n(150, 4000)):
        M, kind = S.gen_matrix(rng, kind=rng.choice(['tiny', 'small', 'small', 'big', 'full', 'zero']))
        n, nc = M.shape
        if n == 0:
            continue
        A = sp.csr_matrix(M)
        comp = S.comp_of(A)
        r0 = rng.randrange(0, n)
        r1 = rng.randrange(r0 + 1, n + 1)
        b = load_csr((r0, r1), nc, A.data, A.indices, A.indptr)
        recs.append(('load_csr', (M, r0, r1), b))
        cases.append((508, [comp, nc, r0, r1]))
        rows = rng.sample(range(n), rng.randrange(1, n + 1))
        dd, ii, pp = _load_disjoint_csr(rows, A.data, A.indices, A.indptr)
        recs.append(('load_disjoint', (M, rows), (pp, ii, dd)))
        cases.append((507, [comp, rows]))
        # merge_csr of consecutive row blocks
        cuts = sorted({0, n} | {rng.randrange(0, n + 1) for _ in range(rng.randrange(0, 3))})
        pieces = [sp.csr_matrix(M[a:b2, :]) for a, b2 in zip(cuts, cuts[1:])]
        dd, ii, pp = merge_csr([p.data for p in pieces], [p.indices for p in pieces], [p.indptr for p in pieces])
        recs.append(('merge_csr', (M, cuts), (pp, ii, dd)))
        cases.append((509, [S.comp_of(p) for p in pieces]))
    for (kind, inp, got), res in zip(recs, ctx.model(cases)):
        spec, corr = [], []
        if kind == 'merge_index_list':
            u = sorted(set(inp))
            cover = [x for a, b in got for x in range(a, b)]
            if cover != u or any(b2 >= a2 for (_, b2), (a2, _) in zip(got, got[1:])):
                spec.append('ranges do not cover exactly the distinct values / are not maximal')
            if res != [0, got]:
                corr.append(f'impl {got} model {res}')
            desc = {'list': inp}
            ctx.count(('mil', tuple(inp)), nontrivial=len(got) >= 2)
        elif kind == 'load_csr':
            M, r0, r1 = inp
            if not S.same_bits(got, M[r0:r1, :]):
                spec.append('block differs from the rows of the matrix')
            if res != [0, S.code_dense(got)]:
                corr.append('model differs')
            desc = S.mdesc(M, r0=r0, r1=r1)
            ctx.count(('load_csr', json.dumps(desc['M']), r0, r1), nontrivial=(M[r0:r1] != 0).sum() >= 1)
        else:
            M, sel = inp
            pp, ii, dd = got
            want = sp.csr_matrix(M[sel, :]) if kind == 'load_disjoint' else sp.csr_matrix(M)
            if [int(v) for v in pp] != [int(v) for v in want.indptr] or \
                    [int(v) for v in ii] != [int(v) for v in want.indices] or \
                    S.code_array(np.asarray(dd)) != S.code_array(want.data):
                spec.append('arrays differ from the CSR form of the selected rows')
            if res != [0, [[int(v) for v in pp], [int(v) for v in ii], S.code_array(np.asarray(dd))]]:
                corr.append(f'model differs: {str(res)[:200]}')
            desc = S.mdesc(M, selection=sel)
            ctx.count((kind, json.dumps(desc['M']), tuple(sel)), nontrivial=(M != 0).sum() >= 2)
        S.report(ctx, kind, kind, kind + ':wrong-result', 'corr:Sparse.' + kind, spec, corr,
                 dict(desc, model=str(res)[:500]))


def run(ctx):
    ctx.rule = ('AnnDataRowIterator on generated h5ad files: matrices (empty rows/columns, one row, one column, no '
                'stored value, full, >100 stored values, >255 columns) x {dense, CSR, CSC} x {X, layer} x six dtypes x '
                'HDF5 layouts (anndata default, contiguous, 1/2/5/64-element chunks) x row chunk sizes {1, random in '
                '1..n+2, n..n+2} x max_gb from the enforced minima upward x keep_open; per iterator: all chunks, one '
                'get_chunk, get_batch on a permutation, three sub-lists, a single row (dense and sparse=True results) '
                'and on four lists outside the quantifier (duplicate, out of range, empty); per file one OPERATION '
                'SEQUENCE on one further iterator object: next() steps interleaved at arbitrary points (before the '
                'first, between two, after the last) with up to 40 random accesses get_chunk(a,b) / get_batch(rows) / '
                'iterator[i] / iterator[[a..b]]: the chunks must still chain from row 0 to n_rows (= the model of the '
                'pure iteration), every access must return its rows, next() after the end must keep raising '
                'StopIteration; inner functions load_csr, '
                '_load_disjoint_csr, merge_csr, merge_index_list on arrays. non-trivial = at least 2 rows and 2 '
                'stored values')
    ctx.assumptions += [
        'row lists passed to get_batch are lists of distinct in-range rows; duplicate, empty and out-of-range lists '
        'are outside the quantifier: the check only requires that they are refused (IndexError on the CSR route, an '
        'h5py TypeError/IndexError/OSError on the dense route) and never answered with wrong rows; negative row '
        'numbers are not generated',
        'iterator[list] is driven with lists of consecutive ascending rows only (it returns rows list[0]..list[-1])',
        'no (row, column) pair is stored twice (scipy toarray would add such values, _csr_to_dense keeps the last)',
        'stored values are compared as exact bit patterns; -0.0 and NaN are not generated',
        'budgets beyond the number of stored entries are clamped to nnz+1 before entering the unary model',
        'the consequence clause (identical mapping / statistics for all encodings) is reduced to the identity of the '
        'row blocks delivered by the iterator, which is all those stages read',
    ]
    S.install_tracer(ctx.scratch / 'traces')
    try:
        iterator_cases(ctx)
        inner_cases(ctx)
    finally:
        S.uninstall_tracer()


def replay(ctx, rec):
    print(json.dumps(rec, indent=1)[:6000])
    return 0
