"""C17 - the marker table around drop_level: key convention and entries of removed parents.

The code keys the marker table by the STRING 'level_name/node'; TaxonomyTree.drop_level keeps the
names of the surviving levels.  The model keys it by positions in the tree that is queried and
translates the table of the file (positions of the STORED tree) with RunMappingKeys.rekey.

Per case (a generated taxonomy, a marker table with entries at every level - generator of C08 - a
query gene list, min_markers) and per droppable level L:
 (a) correspondence: the REAL validate_marker_lookup(table, query, REAL tree.drop_level(L)) - patched
     table, key order, error - vs Model tag 1707 (reduce, rekey, Markers.validate_marker_lookup on the
     reduced tree), the model's keys translated back to names through the level map;
     class corr:RunMappingKeys.rekey
 (b) the statement (c17_removed_entries_not_consulted / c17_marker_key_convention on the observed
     output): the same real call on the table WITHOUT the entries of level L gives the same outcome
     and the same entry at every parent of the reduced tree, and every entry of level L comes back
     untouched; class c17-removed-parent-entry-consulted
"""
import json
import warnings

from harness.props import c08


def real_validate(tree, table, query, minm):
    from cell_type_mapper.type_assignment import marker_cache_v2 as mc
    with warnings.catch_warnings():
        warnings.simplefilter('ignore')
        try:
            res = mc.validate_marker_lookup(marker_lookup=dict(table), query_gene_names=list(query),
                                            taxonomy_tree=tree, min_markers=minm)
            return ('ok', res)
        except Exception as e:                       # noqa: BLE001 - mapped to the model's error enum
            return ('err', c08.err_code(e), f'{type(e).__name__}: {e}'[:200])


def keys_part(ctx):
    from cell_type_mapper.taxonomy.taxonomy_tree import TaxonomyTree
    rng = ctx.rng
    recs = []
    for _ in range(ctx.n(120, 2500)):
        case = c08.gen_case(rng)
        hier = case['tree']['hierarchy']
        if len(hier) < 2:
            continue
        # make sure the level that will be dropped carries entries of its own
        li = rng.randrange(0, len(hier) - 1)
        lv = hier[li]
        universe = sorted({g for v in case['table'].values() for g in v} | set(case['query'])) or ['g0']
        for nd in case['tree'][lv]:
            if rng.random() < 0.7:
                case['table'].setdefault(f'{lv}/{nd}', [rng.choice(universe) for _ in range(rng.randrange(1, 5))])
        minm = rng.choice([0, 1, 1, 2, 2, 3, 5])
        with warnings.catch_warnings():
            warnings.simplefilter('ignore')
            tt = TaxonomyTree(data=case['tree'])
            rt = tt.drop_level(lv)
        rn = c08.Renaming(case)
        table = dict(case['table'])
        obs = real_validate(rt, table, case['query'], minm)
        pruned = {k: v for k, v in table.items() if k == 'None' or k.split('/', 1)[0] != lv}
        obs2 = real_validate(rt, pruned, case['query'], minm)
        parents = ['None'] + [f'{p[0]}/{p[1]}' for p in rt.all_parents if p is not None]
        recs.append((case, li, lv, minm, rn, rt, table, obs, obs2, parents,
                     (1707, [rn.tree_sx(case['tree']), li, rn.table(table), rn.genes(case['query']), minm])))
    mres = ctx.model([r[-1] for r in recs])
    for (case, li, lv, minm, rn, rt, table, obs, obs2, parents, _), m in zip(recs, mres):
        hier = case['tree']['hierarchy']
        removed = [k for k in table if k != 'None' and k.split('/', 1)[0] == lv]
        borrow = obs[0] == 'ok' and any(obs[1].get(k) != table.get(k) for k in parents)
        ctx.count(('keys', json.dumps(case['tree'], sort_keys=True), li, minm, json.dumps(table, sort_keys=True)),
                  nontrivial=bool(removed) and li >= 0 and len(hier) >= 3)
        ctx.dist('keys_mode', f'{len(hier)} levels, drop {li}, removed-level entries {"yes" if removed else "no"}, '
                              f'{"patched" if borrow else ("error" if obs[0] == "err" else "unpatched")}')
        desc = {'kind': 'marker-keys', 'tree': case['tree'], 'drop': lv, 'table': table, 'query': case['query'],
                'min_markers': minm}
        # ---- (b) the statement on the observed output
        bad = None
        if obs[0] != obs2[0] or (obs[0] == 'err' and obs[1] != obs2[1]):
            bad = f'outcome differs with / without the entries of the removed level: {obs[:2]} vs {obs2[:2]}'
        elif obs[0] == 'ok':
            for k in parents:
                if obs[1].get(k) != obs2[1].get(k):
                    bad = f'entry of parent {k} of the reduced tree depends on entries of the removed level'
                    break
            for k in removed:
                if obs[1].get(k) != table[k]:
                    bad = f'entry {k} of the removed level was rewritten'
        if bad:
            ctx.disagreements_checked += 1
            desc['class'] = 'c17-removed-parent-entry-consulted'
            ctx.violation(bad, desc)
            continue
        # ---- (a) correspondence with reduce + rekey + Markers.validate_marker_lookup
        if obs[0] == 'err':
            ok = (m[0] == 1 and m[1] == obs[1])
            mod = m
        else:
            if m[0] != 0:
                ok, mod = False, m
            else:
                lm, mtb, _log = m[1]
                n = len(lm)

                def name(k):
                    if k == []:
                        return 'None'
                    j, nd = k
                    s = lm[j] if j < n else j - n            # rekey: absent names sit at len(m) + stored position
                    return f'{rn.level_name(s)}/{rn.node_inv[nd]}'
                mod = [[name(k), rn.genes_inv(v)] for k, v in mtb]
                ok = (lm == [i for i in range(len(hier)) if i != li]
                      and mod == [[k, list(v)] for k, v in obs[1].items()])
        if not ok:
            ctx.disagreements_checked += 1
            desc['class'] = 'corr:RunMappingKeys.rekey'
            desc['impl'] = obs if len(json.dumps(obs, default=str)) < 3000 else 'omitted'
            desc['model'] = mod if len(json.dumps(mod)) < 3000 else 'omitted'
            ctx.violation('validate_marker_lookup on the really reduced tree vs reduce + rekey + Markers.validate_marker_lookup',
                          desc, no_input=True)
