"""C10, the plain serialise / re-read round trip: TaxonomyTree.from_str(tree.to_str()).

Tie between coq/Model/TreeReread.v (tag 1050, run_reread) and taxonomy_tree.py to_str / from_str /
__init__ + utils/utils.py clean_for_json.  clean_for_json turns every python *set* into the sorted
list of its elements and keeps the order of lists, tuples and dict keys; so the re-read tree is the
original with its set-valued child collections sorted.  Which collections are sets is read off
the real object (isinstance) and handed to the model as flags; for a set the order the model is
given is the order python actually iterates in (list(the_set)): nondeterminism as input.

Trees exercised: dict data with shuffled key and child-list orders (lists: come back literally),
trees built by the real get_taxonomy_tree from label records (children are sets), drop_level /
flatten of those (mixed: the rebuilt level has lists, the others keep their sets), and dict data
with a random subset of the collections -- leaf rows included -- turned into sets or tuples.

Per case two comparisons: (a) the real re-read tree, canonicalised to the model's representation
(levels top first, per level the (node, children) entries in dict order), equals the model's
reread of the original; (b) the property's statement on the observed objects: same hierarchy, same
nodes in the same order, same leaf set, same ancestors of every node of every level, same children
sets, same leaf lists, leaves_to_compare equal as sets of unordered pairs, original == re-read in
both directions (__eq__ and is_equal_to), no set left, serialising the re-read tree gives the
same string, and TaxonomyTree(data=json.loads(s)) gives the same tree as from_str(s)."""
import copy
import json

CORR = 'corr:TreeReread.reread'
CHANGED = 'c10-reread-changes-tree'


def enc_iter(data, rk):
    """model value of a tree in the state it is in: per level the entries in dict order, every
    collection in the order python iterates over it; flags: which collections are sets"""
    tree, flags = [], []
    h = data['hierarchy']
    for i, lv in enumerate(h):
        d = data[lv]
        leaf = i == len(h) - 1
        tree.append([[rk[n], [int(c) if leaf else rk[c] for c in list(d[n])]] for n in d])
        flags.append([1 if isinstance(d[n], set) else 0 for n in d])
    return tree, flags


def jsonable(data):
    """replay form of a tree dict: a set becomes {'set': [elements in iteration order]}"""
    out = {}
    for k, v in data.items():
        if isinstance(v, dict) and k not in ('metadata',):
            out[k] = {n: ({'set': list(c)} if isinstance(c, set) else list(c)) if not isinstance(c, dict) else c
                      for n, c in v.items()}
        else:
            out[k] = v
    return out


def unjsonable(data):
    out = {}
    for k, v in data.items():
        if isinstance(v, dict) and k not in ('metadata',):
            out[k] = {n: (set(c['set']) if isinstance(c, dict) and 'set' in c else c) for n, c in v.items()}
        else:
            out[k] = v
    return out


def pair_set(tt, parent):
    got = tt.leaves_to_compare(parent)
    return sorted((g[0], tuple(sorted(g[1:]))) for g in got), len(got)


def spec_reread(tt, u, u2, s):
    """the property's clauses on the observed original tt and re-read u (u2: via the constructor)"""
    bad = []
    h = tt.hierarchy
    if u.hierarchy != h:
        return [('hierarchy', f'hierarchy {h} became {u.hierarchy}')]
    if u2._data != u._data:
        bad.append(('constructor', 'TaxonomyTree(data=json.loads(s)) differs from from_str(s)'))
    if u.to_str() != s:
        bad.append(('idempotent', 'serialising the re-read tree gives another string'))
    if tt._data.get('metadata') != u._data.get('metadata'):
        bad.append(('metadata', 'metadata changed'))
    al_t, al_u = tt.as_leaves, u.as_leaves
    for lv in h:
        if any(isinstance(c, set) for c in u._data[lv].values()):
            bad.append(('no-sets', f'a set survives at level {lv}'))
        if u.nodes_at_level(lv) != tt.nodes_at_level(lv):
            bad.append(('nodes', f'nodes of level {lv} changed (or their order)'))
            continue
        for x in tt.nodes_at_level(lv):
            if u.parents(lv, x) != tt.parents(lv, x):
                bad.append(('ancestors', f'ancestors of {lv}/{x}: {tt.parents(lv, x)} became {u.parents(lv, x)}'))
            a, b = tt.children(lv, x), u.children(lv, x)
            if set(a) != set(b) or len(a) != len(b):
                bad.append(('children', f'children of {lv}/{x}: {a} became {b}'))
            la, lb = al_t[lv][x], al_u[lv][x]
            if set(la) != set(lb) or len(la) != len(lb):
                bad.append(('leaf-lists', f'leaves under {lv}/{x}: {la} became {lb}'))
    if set(tt.all_leaves) != set(u.all_leaves) or tt.n_leaves != u.n_leaves:
        bad.append(('leaf-set', 'the leaf set changed'))
    if tt.children(None, None) != u.children(None, None):
        bad.append(('children', 'children of the root changed (or their order)'))
    ap = tt.all_parents
    if ap != u.all_parents:
        bad.append(('all-parents', 'all_parents changed'))
    else:
        for p in ap:
            if pair_set(tt, p) != pair_set(u, p):
                bad.append(('leaf-pairs', f'leaves_to_compare({p}) differs as a set of unordered pairs'))
    if not (tt == u) or not (u == tt) or (tt != u):
        bad.append(('eq', 'original != re-read tree (__eq__)'))
    if not tt.is_equal_to(u) or not u.is_equal_to(tt):
        bad.append(('is-equal-to', 'is_equal_to(original, re-read) is False'))
    return bad


class RereadBatch:
    def __init__(self, ctx, verbose=False):
        self.ctx = ctx
        self.items = []
        self.verbose = verbose

    def add(self, x, expect, desc):
        self.items.append((x, expect, desc))
        if len(self.items) >= 2000:
            self.flush()

    def flush(self):
        if not self.items:
            return
        res = self.ctx.model([(1050, x) for x, _, _ in self.items])
        for (x, expect, desc), r in zip(self.items, res):
            if self.verbose:
                print(f'  model TreeReread.reread (tag 1050): {"agrees" if r == expect else "DISAGREES"}\n'
                      f'    implementation: {json.dumps(expect)[:600]}\n    model:          {json.dumps(r)[:600]}')
            if r != expect:
                self.ctx.disagreements_checked += 1
                d = dict(desc)
                d.update({'class': CORR, 'tag': 1050, 'model_input': x, 'model': r, 'implementation': expect})
                self.ctx.violation('model TreeReread.reread and the implementation disagree', d, no_input=True)
        self.items = []


def reread_case(ctx, batch, tt, origin):
    """one real TaxonomyTree through to_str / from_str, against the model and the property"""
    from harness.props import c10 as K
    from cell_type_mapper.taxonomy.taxonomy_tree import TaxonomyTree
    data = tt._data
    rk = K.Ranker(data)
    T, flags = enc_iter(data, rk)
    n_sets = sum(map(sum, flags))
    desc = {'reread_tree': jsonable(data), 'origin': origin}
    s = tt.to_str()
    u = K.quiet(TaxonomyTree.from_str, s)
    u2 = K.quiet(TaxonomyTree, data=json.loads(s))
    U, uflags = enc_iter(u._data, rk)
    changed = U != T
    batch.add([T, flags], [0, U], desc)
    state = 'lists' if n_sets == 0 else ('sets' if all(all(f) for f in flags[:-1]) and not any(flags[-1]) else 'mixed')
    ctx.dist('reread', f'{origin.split(":")[0]}:{state}:{"changed" if changed else "literal"}')
    ctx.count(('reread', json.dumps([T, flags])), nontrivial=len(T) >= 2 and changed)
    if changed:
        ctx.sample({'reread_tree': desc['reread_tree'], 'reread': u._data}, limit=6)
    bad = spec_reread(tt, u, u2, s)
    if n_sets == 0 and changed:
        bad.append(('literal', 'a tree without sets does not come back literally'))
    if bad:
        ctx.disagreements_checked += 1
        d = dict(desc, **{'class': CHANGED, 'failed_clauses': sorted({c for c, _ in bad}),
                          'details': [x for _, x in bad[:6]]})
        ctx.violation(f'to_str/from_str: clause "{bad[0][0]}" fails on the implementation: {bad[0][1]}', d)
    return u


def with_sets(data, rng):
    """a copy of dict data with a random subset of the collections turned into sets / tuples"""
    out = copy.deepcopy(data)
    for lv in out['hierarchy']:
        for n in list(out[lv]):
            r = rng.random()
            if r < 0.4:
                out[lv][n] = set(out[lv][n])
            elif r < 0.55:
                out[lv][n] = tuple(out[lv][n])
    return out


def built_tree(ctx, rng, data):
    """a TaxonomyTree over the dict returned by the real get_taxonomy_tree (children are sets), or None"""
    from harness.props import c10 as K
    from cell_type_mapper.taxonomy.utils import get_taxonomy_tree
    from cell_type_mapper.taxonomy.taxonomy_tree import TaxonomyTree
    hier, cells, mode = K.label_table(ctx, rng, data)
    if not cells:
        return None, mode
    records = [dict(zip(hier, c)) for c in cells]
    try:
        d = K.quiet(get_taxonomy_tree, obs_records=records, column_hierarchy=list(hier))
        return K.quiet(TaxonomyTree, data=d), mode
    except RuntimeError:
        return None, mode


def tree_family(ctx, batch, rng, data, origin):
    """every state of one generated tree"""
    from harness.props import c10 as K
    from cell_type_mapper.taxonomy.taxonomy_tree import TaxonomyTree
    tt, _ = K.construct(data)
    if tt is None:
        return
    u = reread_case(ctx, batch, tt, f'dict:{origin}')
    reread_case(ctx, batch, u, f'reread:{origin}')                     # a second round trip is literal
    ts, _ = K.construct(with_sets(data, rng))
    if ts is not None:
        reread_case(ctx, batch, ts, f'dict_sets:{origin}')
    tb, mode = built_tree(ctx, rng, data)
    if tb is None:
        return
    reread_case(ctx, batch, tb, f'built:{origin}/{mode}')
    h = tb.hierarchy
    if len(h) > 1:
        lv = rng.choice(h[:-1])
        reread_case(ctx, batch, K.quiet(tb.drop_level, lv), f'built_drop:{origin}/{mode}')
        reread_case(ctx, batch, K.quiet(tb.flatten), f'built_flat:{origin}/{mode}')


FIXED = {'hierarchy': ['a', 'b'], 'a': {'0': {'11', '10', '12'}}, 'b': {'11': [0], '10': [1], '12': [2]}}


def reread_part(ctx):
    from harness.props import c10 as K
    rng = ctx.rng
    n_shape_leaves, n_random, n_tables = ctx.n(4, 5), ctx.n(150, 3000), ctx.n(150, 3000)
    if isinstance(ctx.rule, str):
        ctx.rule += ('; re-read part: every tree shape with <=4 levels and <=%d leaves in a shuffled variant and %d random '
                     'trees, each as dict data (lists), with a random subset of its collections as sets/tuples, '
                     're-read once more, rebuilt by get_taxonomy_tree from its label table (sets), and that after '
                     'drop_level / flatten (mixed); %d random label tables; non-trivial there = >=2 levels and the '
                     're-read tree differs from the original' % (n_shape_leaves, n_random, n_tables))
    ctx.assumptions += [
        're-read part: the order in which python iterates over a set is taken from the real object and given to the '
        'model as input; frozenset / numpy-array child collections are not generated (json.dumps refuses a frozenset)',
    ]
    batch = RereadBatch(ctx)
    from cell_type_mapper.taxonomy.taxonomy_tree import TaxonomyTree
    reread_case(ctx, batch, K.quiet(TaxonomyTree, data=copy.deepcopy(FIXED)), 'fixed:audit')
    for si, shape in enumerate(K.shapes(4, n_shape_leaves)):
        tree_family(ctx, batch, rng, K.build_tree(shape, rng, 1 + si % 5), f'shape:{shape}')
    for i in range(n_random):
        tree_family(ctx, batch, rng, K.build_tree(K.random_shape(rng), rng, 1 + i % 5), f'random:{i}')
    for i in range(n_tables):
        tb, mode = built_tree(ctx, rng, None)
        if tb is not None:
            reread_case(ctx, batch, tb, f'built:table{i}/{mode}')
    batch.flush()


def replay_record(ctx, rec):
    """re-run one recorded case (rec['reread_tree']) -- not reachable from c10.replay, call it by hand"""
    from harness.props import c10 as K
    from cell_type_mapper.taxonomy.taxonomy_tree import TaxonomyTree
    batch = RereadBatch(ctx, verbose=True)
    tt = K.quiet(TaxonomyTree, data=unjsonable(rec['reread_tree']))
    reread_case(ctx, batch, tt, rec.get('origin', 'replay'))
    batch.flush()
    for what, _, _ in ctx.violations:
        print('PREDICATE/CORRESPONDENCE FAILURE:', what)
    return 1 if ctx.violations else 0
