"""C14 — a failed worker fails the run; no partial result passes as success.

Three ties between the Coq models (Model/Pool.v, Model/RunEffects.v) and the real code:

 V  virtual schedules: the REAL dispatch/drain loop of a stage and the REAL exit-code
    inspector run against in-process stand-ins of multiprocessing.Process whose exit
    code / termination time follow a generated `world` (harness/faults.py); verdict,
    parent event log (starts, pops) and the maximal number of simultaneously running
    workers are compared with Pool.run_pool on the same world; the property's predicate
    (non-zero code => raise; every popped worker has code 0) is evaluated on the observation.
 F  fault enumeration with real forked workers: worker k of stage s fails in mode
    {kill, exit3, raise} at point {before, mid, after}; observed: exception at the call
    site, exit codes, directory listings of the output and scratch locations (taken after
    every descendant has exited), keys of the JSON / HDF5 output, the log; compared with
    the predictions of Pool.run_pool (single failure), RunEffects.run_mapping
    (fail = Assign) and Pool.run_stage_desc; the property's own predicate evaluated by the
    extracted RunEffects.check_trace_sx on the OBSERVED effects.
 P  other fail points of run_mapping (marker cache, CSV, summary) validate the
    try/except/finally model beyond the assignment step; so do failures INSIDE `finally`
    (log_path / output_path an existing directory, HDF5 path in a missing directory), a query file
    that is absent or a directory (the copy step AND read_uns_from_h5ad in `finally` raise) and a
    real failing worker TOGETHER with an unwritable log / JSON / HDF5 path (the exception of
    `finally` replaces the inspector's; F34 when the log cannot be written).  Where the exception
    the caller saw was raised is read off its traceback against the ast of the real run_mapping.
 X' what `raises` means: forked workers raising RuntimeError / SystemExit(None | k | text) /
    KeyboardInterrupt against ExitCode.raise_exit_code and is_exception (tag 1407).
 X  exit codes: real forked workers that return / raise / os._exit(k) / are killed by a signal;
    multiprocessing.Process.exitcode compared with Pool.exit_code_of (os._exit(256) -> 0).
 In V, for the selection scheduler, the locals started_parents / completed_parents / process_dict of the
 real select_all_markers are read off its frame when it is left (sys.setprofile) and compared with the
 model's final state: the final drain does not add to completed_parents."""
import contextlib
import io
import json
import os
import pathlib
import re
import shutil
import time
import traceback

import h5py
import numpy as np

from harness import faults, gen, pipeline, trees, mapcheck

MODES = ('kill', 'exit3', 'raise')
POINTS = ('before', 'mid', 'after')
STAGE_INDEX = {'mapping': 0, 'stats': 1, 'markers': 2, 'pmask': 3, 'selection': 4, 'transpose': 5}
VARIANT = {'mapping': 0, 'stats': 0, 'transpose': 0, 'markers': 1, 'pmask': 1, 'selection': 1}

# effect tags of Model/RunEffects.v that leave a mark in the log text, in log order
LOG_MARKS = [
    (4, 'validating config and copying data'),
    (5, 'creating query marker cache'),
    (6, 'assigning cell types'),
    (11, 'MAPPING FROM SPECIFIED MARKERS RAN SUCCESSFULLY'),
    (13, 'an ERROR occurred'),
    (15, 'CLEANING UP'),
]
KEY_TAG = {'results': 0, 'marker_genes': 1, 'taxonomy_tree': 2, 'n_unmapped_genes': 3,
           'config': 4, 'log': 5, 'metadata': 6, 'gene_identifier_mapping': 7}


@contextlib.contextmanager
def quiet():
    buf = io.StringIO()
    with contextlib.redirect_stdout(buf), contextlib.redirect_stderr(buf):
        yield buf


def listing(d):
    d = pathlib.Path(d)
    if not d.exists():
        return None
    return sorted(str(p.relative_to(d)) for p in d.rglob('*'))


# ------------------------------------------------------------------ inputs
def mapping_inputs(rng, base, n_cells, max_leaves=6):
    while True:
        tree = trees.random_tree(rng, max_levels=3, max_leaves=max_leaves)
        if len(tree.model[0]) >= 2:       # >= 2 nodes at the top level: the election runs at least once per chunk
            break
    sc = pipeline.gen_scenario(rng, n_cells=n_cells, tree=tree)
    pipeline.write_stats(base / 'stats.h5', sc)
    pipeline.write_markers(base / 'markers.json', sc)
    pipeline.write_query(base / 'query.h5ad', sc, encoding=rng.choice(['dense', 'csr']))
    return sc


def reference_inputs(rng, base, min_leaves=3, max_leaves=6, levels=None):
    """A generated reference h5ad (raw counts, obs columns = taxonomy levels)."""
    while True:
        gt = trees.random_tree(rng, max_levels=levels or rng.choice([1, 2, 3]), max_leaves=max_leaves, p_single=0.2)
        if gt.n_leaves() >= min_leaves:
            break
    leaves = [n for n, _ in gt.model[-1]]
    ng = rng.randrange(12, 20)
    prof = {lf: [rng.choice([0, 0, 0, 20, 50, 200]) for _ in range(ng)] for lf in leaves}
    rows, labels = [], []
    L = len(gt.levels)
    for lf in leaves:
        for _ in range(rng.randrange(4, 8)):
            rows.append([max(0, p + rng.randrange(-2, 3)) if p > 0 else rng.choice([0, 0, 0, 1]) for p in prof[lf]])
            lab = [None] * L
            lab[L - 1] = gt.name(lf)
            cur = lf
            for li in range(L - 1, 0, -1):
                cur = mapcheck.parent_of(gt.model, li, cur)
                lab[li - 1] = gt.name(cur)
            labels.append(lab)
    order = list(range(len(rows)))
    rng.shuffle(order)
    M = np.array([rows[i] for i in order], dtype=np.float32)
    obs = {gt.levels[i]: [labels[j][i] for j in order] for i in range(L)}
    genes = [pipeline.gname(g) for g in range(ng)]
    gen.write_h5ad(base / 'ref.h5ad', M, [f'r{i}' for i in range(len(rows))], genes,
                   encoding=rng.choice(['csr', 'dense']), obs_cols=obs)
    return gt, genes, len(rows)


# ------------------------------------------------------------------ stage runners
class StageHang(BaseException):
    """raised by the watchdog when a stage call does not return"""


HANG_LIMIT_S = 90


def _on_alarm(signum, frame):
    raise StageHang()


def exception_chain(e):
    """The exception and its chain of __context__ (the exception that was being handled / propagated when it was
    raised): class, message and the (function, line) pairs of its traceback that lie in run_mapping / _run_mapping."""
    out = []
    seen = set()
    while e is not None and id(e) not in seen and len(out) < 10:
        seen.add(id(e))
        fr = [(f.name, f.lineno) for f in traceback.extract_tb(e.__traceback__) if f.name in ('run_mapping', '_run_mapping')]
        out.append({'etype': type(e).__name__, 'msg': str(e)[:300], 'frames': fr})
        e = e.__context__
    return out


_RM_LAYOUT = {}


def run_mapping_layout():
    """Line ranges of the body of `try` and of the `finally` block of the real run_mapping, and for each statement of
    the `finally` block the fail point of Model/RunEffects.v it is (7 log file, 10 read_uns, 8 JSON, 9 HDF5; 0 = a
    statement the model gives no fail point).  Read off the source with ast: no line number is hard-wired."""
    if _RM_LAYOUT:
        return _RM_LAYOUT
    import ast
    import inspect
    import cell_type_mapper.cli.from_specified_markers as mod
    src = inspect.getsource(mod)
    tree = ast.parse(src)
    fn = [n for n in tree.body if isinstance(n, ast.FunctionDef) and n.name == 'run_mapping'][0]
    tr = [n for n in ast.walk(fn) if isinstance(n, ast.Try) and n.finalbody][0]
    _RM_LAYOUT['body'] = (tr.body[0].lineno, tr.body[-1].end_lineno)
    _RM_LAYOUT['finally'] = (tr.finalbody[0].lineno, tr.finalbody[-1].end_lineno)
    stmts = []
    for st in tr.finalbody:
        seg = ast.get_source_segment(src, st) or ''
        pt = 7 if 'write_log' in seg else 10 if 'read_uns_from_h5ad' in seg else 8 if 'json.dumps' in seg \
            else 9 if 'blob_to_hdf5' in seg else 0
        stmts.append((st.lineno, st.end_lineno, pt))
    _RM_LAYOUT['stmts'] = stmts
    return _RM_LAYOUT


def where_raised(chain):
    """(fin_point, body_in_chain): fin_point = the fail point (7..10, -1 for another statement) of the `finally` block
    of run_mapping at which the exception the caller saw was raised, 0 when it was not raised there; body_in_chain =
    some exception of the chain passed through the body of `try` of run_mapping."""
    lay = run_mapping_layout()

    def line(x):
        ls = [ln for nm, ln in x['frames'] if nm == 'run_mapping']
        return ls[0] if ls else None
    fin_point = 0
    if chain:
        ln = line(chain[0])
        if ln is not None and lay['finally'][0] <= ln <= lay['finally'][1]:
            fin_point = -1
            for a, b, pt in lay['stmts']:
                if a <= ln <= b and pt:
                    fin_point = pt
    body = any(line(x) is not None and lay['body'][0] <= line(x) <= lay['body'][1] for x in (chain or []))
    return fin_point, body


def call_stage(fn, stages, **plan):
    """Run fn() under the given injector plan; wait for every descendant; return
    dict(ok, error, code_in_message, exit_codes, logs).  A call that does not return within
    HANG_LIMIT_S seconds is interrupted by a watchdog (SIGALRM) and reported with etype 'StageHang':
    a dispatch / drain loop that spins for ever must show up as a finding, not as a stuck check."""
    import signal
    faults.arm(stages, **plan)
    res = {'ok': True, 'error': None, 'etype': None}
    old = signal.signal(signal.SIGALRM, _on_alarm)
    t_start = time.time()
    outer_left = signal.alarm(HANG_LIMIT_S)          # seconds left on the check's overall watchdog (0 = none)
    with quiet() as out_buf:
        try:
            res['value'] = fn()
        except StageHang:
            res['ok'] = False
            res['etype'] = 'StageHang'
            res['error'] = f'StageHang: the call did not return within {HANG_LIMIT_S} s'
            res['tb'] = ''
        except Exception as e:               # the call site of the stage
            res['ok'] = False
            res['etype'] = type(e).__name__
            res['error'] = f'{type(e).__name__}: {e}'
            res['tb'] = traceback.format_exc()[-1500:]
            res['chain'] = exception_chain(e)
        finally:
            signal.alarm(0)
            signal.signal(signal.SIGALRM, old)
            if outer_left:
                signal.alarm(max(1, int(outer_left - (time.time() - t_start))))
        import gc
        gc.collect()
    res['stdout'] = out_buf.getvalue()
    res['exit_codes'] = faults.settle()
    res['logs'] = {st: faults.parent_log(st) for st in stages}
    res['polls'] = {st: faults.STATE['clock'][st] for st in stages}
    res['fired'] = any(r['ev'] == 'fault' for r in faults.read_trace(plan.get('trace_dir')))
    faults.disarm()
    m = re.search(r'exited with code (-?\d+)', res['error'] or '')
    res['msg_code'] = int(m.group(1)) if m else None
    m = re.search(r'\(key=([^)]*)\)', res['error'] or '')
    res['msg_key'] = m.group(1) if m else None
    return res


def mapping_call(cfg):
    from cell_type_mapper.cli.from_specified_markers import run_mapping as real

    def fn():
        real(cfg, output_path=cfg['extended_result_path'], log_path=cfg['log_path'],
             hdf5_output_path=cfg['hdf5_result_path'])
    return fn


def stats_call(base, d, gt, rows_at_a_time, n_processors):
    from cell_type_mapper.diff_exp.precompute_from_anndata import precompute_summary_stats_from_h5ad
    (d / 'tmp').mkdir(exist_ok=True)

    def fn():
        precompute_summary_stats_from_h5ad(base / 'ref.h5ad', gt.levels, None, d / 'stats.h5',
                                           rows_at_a_time=rows_at_a_time, normalization='raw',
                                           tmp_dir=str(d / 'tmp'), n_processors=n_processors)
    return fn


def markers_call(stats_path, d, n_processors):
    from cell_type_mapper.diff_exp.markers import find_markers_for_all_taxonomy_pairs
    from cell_type_mapper.taxonomy.taxonomy_tree import TaxonomyTree
    (d / 'tmp').mkdir(exist_ok=True)
    tree = TaxonomyTree.from_precomputed_stats(stats_path)

    def fn():
        find_markers_for_all_taxonomy_pairs(stats_path, tree, d / 'refm.h5', n_processors=n_processors,
                                            tmp_dir=str(d / 'tmp'), max_gb=1)
    return fn


def pmask_call(stats_path, d, n_processors, n_per=8):
    from cell_type_mapper.diff_exp.p_value_mask import create_p_value_mask_file
    (d / 'tmp').mkdir(exist_ok=True)

    def fn():
        create_p_value_mask_file(stats_path, d / 'mask.h5', n_processors=n_processors,
                                 tmp_dir=str(d / 'tmp'), n_per=n_per)
    return fn


def selection_call(refm_path, genes, d, n_processors, behemoth_cutoff):
    from cell_type_mapper.type_assignment.marker_cache_v2 import create_marker_gene_lookup_from_ref_list
    (d / 'tmp').mkdir(exist_ok=True)
    box = {}

    def fn():
        box['lookup'] = create_marker_gene_lookup_from_ref_list(
            [str(refm_path)], list(genes), n_per_utility=3, n_per_utility_override=None,
            n_processors=n_processors, behemoth_cutoff=behemoth_cutoff, tmp_dir=str(d / 'tmp'))
        return box['lookup']
    return fn


def transpose_call(src_path, d, n_processors, indices_max):
    from cell_type_mapper.utils.csc_to_csr_parallel import transpose_sparse_matrix_on_disk_v2
    (d / 'tmp').mkdir(exist_ok=True)

    def fn():
        transpose_sparse_matrix_on_disk_v2(h5_path=src_path, indices_tag='indices', indptr_tag='indptr',
                                           data_tag='data', indices_max=indices_max, max_gb=1,
                                           output_path=d / 'transposed.h5', output_mode='w',
                                           tmp_dir=str(d / 'tmp'), n_processors=n_processors)
    return fn


# ------------------------------------------------------------------ V: virtual schedules
def gen_world(rng, k, p_fail=0.35):
    code = [0] * k
    if rng.random() < 0.7:
        for w in range(k):
            if rng.random() < p_fail:
                code[w] = rng.choice([1, 3, -9, -15, 2, 255]) if rng.random() < 0.5 else 10 + w
    dur = [rng.randrange(0, 5) for _ in range(k)]
    return {'code': code, 'dur': dur}


def obs_of_virtual(res, stage, k):
    log = [[0 if ev == 'start' else 1, w] for ev, w in res['logs'][stage]]
    cur = best = 0
    for t, _ in log:
        cur = cur + 1 if t == 0 else max(0, cur - 1)
        best = max(best, cur)
    return {'ok': res['ok'], 'code': res['msg_code'], 'log': log, 'max_running': best, 'etype': res['etype']}


def virtual_case(ctx, stage, make_fn, n, k, world, desc, pending):
    """Run the real loop on `world`; queue the model call; returns nothing (compared later)."""
    d = desc['dir']
    res = call_stage(make_fn(d), [stage], world=world)
    shutil.rmtree(d, ignore_errors=True)
    obs = obs_of_virtual(res, stage, k)
    if res.get('etype') == 'StageHang':
        ctx.violation(f'{stage}: the dispatch / drain loop does not return on world {world} (n_processors={n}): every worker '
                      'terminates in this world, so the call must return or raise',
                      {'class': 'c14-stage-does-not-return', 'kind': 'virtual', 'stage': stage, 'n_processors': n, 'k': k,
                       'world': world, 'what': desc['what']})
        return
    pending.append((stage, n, k, world, obs, res.get('error'), desc['what']))


def compare_virtual(ctx, pending):
    cases = [(1401, [VARIANT[st], n, k, w['code'], w['dur']]) for st, n, k, w, _, _, _ in pending]
    outs = ctx.model(cases)
    for (st, n, k, w, obs, err, what), out in zip(pending, outs):
        key = ('V', st, n, k, tuple(w['code']), tuple(w['dur']))
        failing = any(c != 0 for c in w['code'])
        ctx.count(key, nontrivial=(k >= 2 and failing and any(c == 0 for c in w['code'])) or (k >= 3 and n >= 2))
        ctx.dist('virtual', f'{st} n={n} k={k} failing={failing}')
        rep = {'kind': 'virtual', 'stage': st, 'n_processors': n, 'k': k, 'world': w, 'observed': obs,
               'error': err, 'input': what}
        if out[0] != 0:
            ctx.violation(f'model rejected the world {w}', dict(rep, **{'class': 'corr:Pool.run_pool'}), no_input=True)
            continue
        verdict, mlog, mmax = out[1]
        # (b) the property on the observation
        popped_bad = [x for t, x in obs['log'] if t == 1 and w['code'][x] != 0]
        started = [x for t, x in obs['log'] if t == 0]
        prop_ok = ((not failing) or (not obs['ok'] and obs['etype'] == 'RuntimeError')) and not popped_bad \
            and (not obs['ok'] or sorted(started) == list(range(k)))
        if not prop_ok:
            ctx.violation(f'{st}: world {w} (n_processors={n}): call {"returned" if obs["ok"] else "raised"}; '
                          f'popped with non-zero code: {popped_bad}', dict(rep, **{'class': 'c14-pool-verdict'}))
            continue
        # (a) correspondence
        m_ok = verdict[0] == 0
        good = (m_ok == obs['ok']) and mlog == obs['log'] and mmax == obs['max_running'] and obs['max_running'] <= max(n, 1)
        if not m_ok and verdict[0] == 1:
            good = good and obs['code'] == verdict[2] and w['code'][verdict[1]] == verdict[2]
        if verdict[0] == 2:
            good = False
        if not good:
            ctx.disagreements_checked += 1
            ctx.violation(f'{st}: real loop and Pool.run_pool disagree on world {w} n={n}: model {out[1]}, observed {obs}',
                          dict(rep, model=out[1], **{'class': 'corr:Pool.run_pool'}), no_input=True)
        else:
            ctx.traces_validated += 1


@contextlib.contextmanager
def completed_parents_observer(box):
    """select_all_markers keeps started_parents / completed_parents / process_dict in locals.  They are read off
    the frame at the moment the function is left -- by `return` or by an exception -- with sys.setprofile
    (harness side, no source hook).  box gets 'completed', 'started' (sets of parents) and 'in_dict' (keys)."""
    import sys

    def prof(frame, event, arg):
        if event == 'return' and frame.f_code.co_name == 'select_all_markers' \
                and frame.f_code.co_filename.endswith('selection_pipeline.py'):
            loc = frame.f_locals
            if 'completed_parents' in loc and 'started_parents' in loc:
                box['completed'] = set(loc['completed_parents'])
                box['started'] = set(loc['started_parents'])
                box['in_dict'] = list(loc.get('process_dict', {}).keys())
    old = sys.getprofile()
    sys.setprofile(prof)
    try:
        yield
    finally:
        sys.setprofile(old)


def _exit_worker(mode, arg):
    import signal as _signal
    if mode == 1:
        raise RuntimeError('worker raises (exit-code tie)')
    if mode == 2:
        os._exit(arg)
    if mode == 3:
        os.kill(os.getpid(), arg)
        time.sleep(5)


def _raise_worker(cls, arg):
    if cls == 0:
        raise RuntimeError('worker raises an Exception subclass (exit-code tie)')
    if cls == 1:
        raise SystemExit()
    if cls == 2:
        raise SystemExit(arg)
    if cls == 3:
        raise SystemExit('worker raises SystemExit with a text')
    raise KeyboardInterrupt()


def raise_class_tie(ctx):
    """Model/ExitCode.v raise_exit_code / is_exception (audit 4, A6: what `Raises` means) against real forked workers and a real
    `except Exception` clause: Exception subclass, SystemExit(None), SystemExit(k), SystemExit('text'), KeyboardInterrupt."""
    import multiprocessing
    plan = [(0, 0), (1, 0), (3, 0), (4, 0)] + [(2, k) for k in (0, 1, 3, 255, 256, 257, -1)]
    observed = []
    with quiet():
        for cls, arg in plan:
            p = multiprocessing.Process(target=_raise_worker, args=(cls, arg))
            p.start()
            p.join(30)
            if p.exitcode is None:
                p.kill()
                p.join(5)
            caught = None
            try:
                try:
                    _raise_worker(cls, arg)
                except Exception:
                    caught = True
            except BaseException:
                caught = False
            observed.append([p.exitcode, caught])
    outs = ctx.model([(1407, [cls, arg]) for cls, arg in plan])
    names = {0: 'RuntimeError', 1: 'SystemExit()', 2: 'SystemExit(k)', 3: "SystemExit('text')", 4: 'KeyboardInterrupt'}
    for (cls, arg), obs, out in zip(plan, observed, outs):
        ctx.count(('X-raise', cls, arg), nontrivial=True)
        ctx.dist('exit_code', f'raises {names[cls]} {arg if cls == 2 else ""} -> {obs[0]}, caught by except Exception: {obs[1]}')
        if out[0] != 0 or [out[1][0], bool(out[1][1])] != obs:
            ctx.disagreements_checked += 1
            ctx.violation(f'a worker that raises {names[cls]}({arg}): exitcode / caught by `except Exception` {obs}; '
                          f'ExitCode.raise_exit_code / is_exception say {out}',
                          {'kind': 'raise-class', 'cls': names[cls], 'arg': arg, 'observed': obs, 'model': out,
                           'class': 'corr:ExitCode.raise_exit_code'}, no_input=True)
        else:
            ctx.traces_validated += 1


def exit_code_tie(ctx):
    """Model/Pool.v exit_code_of against multiprocessing.Process.exitcode of real forked workers: return, raise,
    os._exit(k) for k inside and outside 0..255 (the status is cut to its low 8 bits: os._exit(256) is seen as 0),
    killed by a signal."""
    import multiprocessing
    import signal as _signal
    plan = [(0, 0), (1, 0)] + [(2, k) for k in (0, 1, 3, 255, 256, 257, 519, -1, -256)] \
        + [(3, int(sg)) for sg in (_signal.SIGKILL, _signal.SIGTERM, _signal.SIGUSR1)]
    observed = []
    with quiet():
        for mode, arg in plan:
            p = multiprocessing.Process(target=_exit_worker, args=(mode, arg))
            p.start()
            p.join(30)
            if p.exitcode is None:
                p.kill()
                p.join(5)
            observed.append(p.exitcode)
    outs = ctx.model([(1406, [mode, arg]) for mode, arg in plan])
    names = {0: 'returns', 1: 'raises', 2: 'os._exit', 3: 'killed by signal'}
    for (mode, arg), obs, out in zip(plan, observed, outs):
        ctx.count(('X', mode, arg), nontrivial=mode != 0)
        ctx.dist('exit_code', f'{names[mode]} {arg if mode >= 2 else ""} -> {obs}')
        rep = {'kind': 'exit-code', 'mode': names[mode], 'arg': arg, 'observed': obs, 'model': out}
        if out[0] != 0 or out[1] != obs:
            ctx.disagreements_checked += 1
            ctx.violation(f'a worker that {names[mode]}({arg}) has exitcode {obs}; Pool.exit_code_of says {out}',
                          dict(rep, **{'class': 'corr:Pool.exit_code_of'}), no_input=True)
            continue
        # (b) the property's premise on the observation: the parent can tell the worker failed iff the code is non-zero
        abnormal = mode in (1, 3) or (mode == 2 and arg % 256 != 0)
        if abnormal != (obs != 0):
            ctx.violation(f'a worker that {names[mode]}({arg}) is reported with exit code {obs}',
                          dict(rep, **{'class': 'c14-exit-code-hides-failure'}))
        else:
            ctx.traces_validated += 1


def selection_virtual(ctx, rng, refm_path, genes, base, n_worlds):
    """The behemoth scheduler of select_all_markers (real loop, real inspector, stand-in
    processes indexed by parent) against Pool.run_selection_pool."""
    from cell_type_mapper.marker_selection.marker_array import MarkerGeneArray
    from cell_type_mapper.taxonomy.taxonomy_tree import TaxonomyTree
    from cell_type_mapper.diff_exp.precompute_utils import run_leaf_census  # noqa: F401 (import check only)
    with h5py.File(refm_path, 'r') as f:
        stats_path = json.loads(f['metadata'][()].decode('utf-8'))['precomputed_path']
    tree = TaxonomyTree.from_precomputed_stats(stats_path)
    with quiet():
        arr = MarkerGeneArray.from_cache_path(cache_path=refm_path, query_gene_names=list(genes))
    parents = list(tree.all_parents)
    pid = {repr(p): i for i, p in enumerate(parents)}
    n_leaves = [len(tree.leaves_to_compare(parent_node=p)) for p in parents]
    cases, meta = [], []
    for i in range(n_worlds):
        cutoff_cfg = rng.choice([0, 1, 2, 1000])
        cutoff = min(cutoff_cfg, arr.n_pairs // 2)
        beh = [j for j in range(len(parents)) if n_leaves[j] > cutoff]
        sml = [j for j in range(len(parents)) if n_leaves[j] <= cutoff]
        leafless = [j for j in range(len(parents)) if n_leaves[j] == 0]
        n = rng.randrange(1, 4)
        w = gen_world(rng, len(parents), p_fail=0.2)
        w['index_of'] = lambda kw: pid[repr(kw['parent_node'])]
        d = base / f'selv{i}'
        box = {}
        with completed_parents_observer(box):
            res = call_stage(selection_call(refm_path, genes, d, n, cutoff_cfg) if d.mkdir() is None else None,
                             ['selection'], world=w)
        shutil.rmtree(d, ignore_errors=True)
        w = {'code': w['code'], 'dur': w['dur']}
        started = [x for ev, x in res['logs']['selection'] if ev == 'start']
        popped = [x for ev, x in res['logs']['selection'] if ev == 'pop']
        obs = {'ok': res['ok'], 'code': res['msg_code'], 'started': started, 'popped': popped, 'etype': res['etype'],
               # the locals of select_all_markers when it was left (None: not observed)
               'completed_parents': sorted(pid[repr(q)] for q in box['completed']) if 'completed' in box else None,
               'started_parents': sorted(pid[repr(q)] for q in box['started']) if 'started' in box else None,
               'process_dict': [pid[repr(q)] for q in box['in_dict']] if 'in_dict' in box else None}
        cases.append((1403, [n, beh, sml, leafless, w['code'], w['dur']]))
        meta.append((n, cutoff_cfg, beh, sml, leafless, w, obs, res['error']))
    for (n, cutoff_cfg, beh, sml, leafless, w, obs, err), out in zip(meta, ctx.model(cases)):
        rep = {'kind': 'virtual-selection', 'n_processors': n, 'behemoth_cutoff': cutoff_cfg, 'behemoths': beh, 'smaller': sml,
               'leafless': leafless, 'world': w, 'observed': obs, 'error': err, 'n_leaf_pairs': n_leaves}
        procs = [j for j in beh + sml if j not in leafless]
        failing = any(w['code'][j] != 0 for j in procs)
        ctx.count(('V', 'selection', n, cutoff_cfg, tuple(w['code']), tuple(w['dur'])), nontrivial=len(procs) >= 2)
        ctx.dist('virtual', f'selection n={n} parents={len(procs)} behemoths={len([j for j in beh if j not in leafless])} failing={failing}')
        bad_pop = [x for x in obs['popped'] if w['code'][x] != 0]
        if (failing and obs['ok']) or bad_pop or (obs['ok'] and sorted(obs['started']) != sorted(procs)):
            ctx.violation(f'selection scheduler: world {w} n={n}: returned={obs["ok"]}, started {obs["started"]} of {procs}, '
                          f'popped with non-zero code {bad_pop}', dict(rep, **{'class': 'c14-pool-verdict'}))
            continue
        if out[0] != 0:
            ctx.violation('model rejected the selection world', dict(rep, **{'class': 'corr:Pool.run_selection_pool'}), no_input=True)
            continue
        verdict, m_started, m_completed = out[1]
        m_procs = [x for x in m_started if x not in leafless]
        good = (verdict[0] == 0) == obs['ok'] and m_procs == obs['started'] and verdict[0] != 2
        # completed_parents / started_parents as the real function left them.  On a clean return the model's final
        # state is the state at the return; on a raise the model hands back the state before the inner poll loop
        # that raised, so its completed set is a lower bound of the real one
        if obs['completed_parents'] is None:
            ctx.extra['completed_parents_unobserved'] = ctx.extra.get('completed_parents_unobserved', 0) + 1
        else:
            ctx.dist('completed_parents', 'all parents' if len(obs['completed_parents']) == len(beh + sml)
                     else 'fewer than all parents' + (' on a clean return' if obs['ok'] else ' on a raise'))
            good = good and obs['started_parents'] == sorted(m_started)
            if obs['ok']:
                good = good and obs['completed_parents'] == sorted(m_completed) and obs['process_dict'] == []
            else:
                good = good and set(m_completed) <= set(obs['completed_parents'])
        if verdict[0] == 1:
            good = good and obs['code'] == verdict[2] and obs['etype'] == 'RuntimeError'
        if not good:
            ctx.disagreements_checked += 1
            ctx.violation(f'selection scheduler and Pool.run_selection_pool disagree: model {out[1]}, observed {obs}',
                          dict(rep, model=out[1], **{'class': 'corr:Pool.run_selection_pool'}), no_input=True)
        else:
            ctx.traces_validated += 1


# ------------------------------------------------------------------ F: mapping faults
def observe_mapping(d, cfg, res):
    out = d / 'out'
    o = {'raised': not res['ok'], 'error': res['error'], 'out_listing': listing(out), 'tmp_listing': listing(d / 'tmp')}
    logtxt = (out / 'log.txt').read_text() if (out / 'log.txt').is_file() else None
    o['log_file'] = logtxt is not None
    jpath = pathlib.Path(cfg['extended_result_path'])
    blob = json.load(open(jpath)) if jpath.is_file() else None
    o['json_keys'] = list(blob.keys()) if blob is not None else None
    # where the log lines are read: the log file, else the "log" key of the JSON, else - when neither was written -
    # the lines log.info printed on stdout (the traceback is added with add_msg, which does not print: tag 13 is
    # then unobservable)
    o['log_source'] = 'file' if logtxt is not None else 'json' if blob else 'stdout'
    text = logtxt if logtxt is not None else ('\n'.join(blob['log']) if blob else res.get('stdout', ''))
    o['chain'] = res.get('chain')
    o['fin_point'], o['body_in_chain'] = where_raised(res.get('chain'))
    marks = []
    for tag, s in LOG_MARKS:
        i = text.find(s)
        if i >= 0:
            marks.append((i, tag))
    o['log_tags'] = [t for _, t in sorted(marks)]
    o['traceback_in_log_file'] = bool(logtxt and 'an ERROR occurred' in logtxt)
    o['json_log_equals_file'] = None
    if blob is not None and logtxt is not None:
        o['json_log_equals_file'] = [ln for ln in logtxt.splitlines()] == '\n'.join(blob['log']).splitlines()
    o['csv'] = cfg['csv_result_path'] is not None and pathlib.Path(cfg['csv_result_path']).exists()
    hp = cfg['hdf5_result_path']
    o['hdf5'] = None
    if hp is not None and pathlib.Path(hp).is_file():
        with h5py.File(hp, 'r') as f:
            ds = sorted(f.keys())
            meta = list(json.loads(f['metadata'][()].decode('utf-8')).keys()) if 'metadata' in f else None
        o['hdf5'] = {'datasets': ds, 'meta_keys': meta, 'with_results': ds != ['metadata']}
    tl = o['tmp_listing'] or []
    o['result_buffer_left'] = any(x.startswith('result_buffer_') for x in tl)
    o['tmp_dir_left'] = any(x.startswith('cell_type_mapper_') for x in tl)
    o['summary'] = cfg['summary_metadata_path'] is not None and pathlib.Path(cfg['summary_metadata_path']).exists()
    o['obsm'] = False                        # the query file was modified: obsm holds the requested key
    if cfg['obsm_key']:
        with h5py.File(cfg['query_path'], 'r') as f:
            o['obsm'] = 'obsm' in f and cfg['obsm_key'] in f['obsm']
    return o


def cfg_flags(cfg, gene_map=False):
    return [cfg['tmp_dir'] is not None, cfg['csv_result_path'] is not None, bool(cfg['obsm_key']),
            cfg['summary_metadata_path'] is not None, cfg['log_path'] is not None,
            cfg['extended_result_path'] is not None, cfg['hdf5_result_path'] is not None, gene_map]


def observed_trace(o, flags):
    """The observable part of the effect trace, as tags of Model/RunEffects.v in model order."""
    tags = []
    if flags[0]:
        tags.append(1)
    tags += [2, 3]
    tags += [t for t in o['log_tags'] if t in (4, 5, 6)]
    # a failure inside `finally` (RunEffects.FailFinally, tag 20): the call raised and no traceback reached the log
    # (the `except` clause did not run); the exception ends the trace, nothing is re-raised
    # Observed on the exception itself: the line of run_mapping at which it was raised lies in the `finally` block
    # (where_raised; the former rule "no traceback in the log" is wrong when the body failed too: audit 4, A2b).
    if o.get('chain'):
        in_finally = o['fin_point'] != 0
        body_failed = o['body_in_chain']
    else:
        in_finally = o['raised'] and 13 not in o['log_tags'] and not o['traceback_in_log_file']
        body_failed = o['raised'] and not in_finally
    if o['csv']:
        tags.append(7)
    if o.get('obsm'):
        tags.append(8)
    if o['summary']:
        tags.append(9)
    if 11 in o['log_tags']:
        tags.append(11)
    if body_failed:
        tags.append(12)
        if o.get('log_source') == 'stdout':
            # neither the log file nor the JSON reached the disk: the traceback the `except` clause adds to the in-memory log
            # (add_msg does not print) cannot be observed; it is ASSUMED here, so that the shape predicates can be evaluated,
            # and left out of the tag-by-tag comparison with the model (compare_mapping)
            tags.append(13)
    if o['traceback_in_log_file'] or (not o['log_file'] and 13 in o['log_tags']):
        tags.append(13)                      # before the log file iff the file holds the traceback
    if not o['result_buffer_left']:
        tags.append(10)                      # observed: nothing named result_buffer_* is left (by listing, after all
                                             # descendants exited); its place in the order is the model's (finally block)
    if flags[0] and not o['tmp_dir_left']:
        tags.append(14)
    if 15 in o['log_tags']:
        tags.append(15)
    if o['log_file']:
        tags.append(16)
    if 13 in o['log_tags'] and 13 not in tags:
        tags.append(13)
    if o['json_keys'] is not None:
        tags.append(17)
    if o['hdf5'] is not None:
        tags.append(18)
    if o['raised']:
        tags.append(20 if in_finally else 19)
    return tags


OBSERVABLE = {4, 5, 6, 7, 8, 9, 10, 11, 12, 13, 14, 15, 16, 17, 18, 19, 20}


def compare_mapping(ctx, items):
    """items: list of dict(cfg, flags, fail_point(0=None), obs, rep, expect_code, worker, k, n)."""
    cases = []
    for it in items:
        o = it['obs']
        jk = [KEY_TAG.get(x, 99) for x in (o['json_keys'] or [])]
        hk = [[KEY_TAG.get(x, 99) for x in (o['hdf5']['meta_keys'] or [])], o['hdf5']['with_results']] if o['hdf5'] else []
        cases.append((1404, [it['flags'], it['fail_point'], it.get('fin_point', 0)]))
        cases.append((1405, [it['flags'], o['raised'], observed_trace(o, it['flags']), jk, hk]))
    outs = ctx.model(cases)
    for i, it in enumerate(items):
        o, rep = it['obs'], it['rep']
        m, chk = outs[2 * i], outs[2 * i + 1]
        rep = dict(rep, observed=o)
        if m[0] != 0 or chk[0] != 0:
            ctx.violation('model rejected the mapping observation', dict(rep, model=[m, chk], **{'class': 'corr:RunEffects.run_mapping'}),
                          no_input=True)
            continue
        raised_m, tags_m, jk_m, hk_m, exc_m = m[1]
        jk_m = jk_m[0] if jk_m else []          # of_option: () = None, (x) = Some x
        hk_m = hk_m[0] if hk_m else []
        prop_ok, failed_ok, no_csv, clean_ok, fin_ok, double_ok = chk[1]
        fin_pt = it.get('fin_point', 0)
        faulted = it['fail_point'] != 0 or fin_pt != 0
        # (b) the property on the observation
        if faulted and it.get('expect_code') is not None and fin_pt == 7 and not prop_ok and not o['log_file'] \
                and o['raised'] and 11 not in o['log_tags'] and not o['csv'] and o['json_keys'] is None and o['hdf5'] is None:
            # F34: a worker failed AND the log path cannot be written: every clause of C14 holds but "it still writes its log"
            ctx.violation(f'mapping with {it["what"]}: the run raises {o["error"]} and writes no log (out={o["out_listing"]})',
                          dict(rep, **{'class': 'F34-log-not-written-when-log-path-unwritable-after-worker-failure'}))
        elif faulted and it.get('expect_code') is not None:      # a worker failure: the situation C14 speaks about
            bad = []
            if not prop_ok:
                bad.append('prop_trace_ok false (raise / success message / log / result records)')
            if it['fail_point'] <= 3 and not no_csv:
                bad.append('a CSV was written')
            # the inspector's RuntimeError is what the caller sees - or, when a step of `finally` raised after it, the
            # __context__ of what the caller sees
            insp = [x for x in (o.get('chain') or []) if x['etype'] == 'RuntimeError' and 'exited with code' in x['msg']]
            if o['error'] is not None and not (o['error'].startswith('RuntimeError') if fin_pt == 0 else bool(insp)):
                bad.append(f'error is not the RuntimeError of the inspector: {o["error"]}')
            if bad:
                ctx.violation(f'mapping with {it["what"]}: ' + '; '.join(bad) + f'; error={o["error"]}, out={o["out_listing"]}, '
                              f'json keys={o["json_keys"]}', dict(rep, **{'class': 'c14-mapping-partial-result'}))
                continue
        elif not faulted and not clean_ok:
            ctx.violation(f'fault-free mapping run does not look like a success: {o["error"]}',
                          dict(rep, **{'class': 'c14-mapping-control-run'}))
            continue
        # (a) correspondence with RunEffects.run_mapping
        obs_tags = observed_trace(o, it['flags'])
        exp_tags = [t for t in tags_m if t in OBSERVABLE]
        got_tags = [t for t in obs_tags if t in OBSERVABLE]
        jk_o = [KEY_TAG.get(x, 99) for x in o['json_keys']] if o['json_keys'] is not None else []
        hk_o = [[KEY_TAG.get(x, 99) for x in (o['hdf5']['meta_keys'] or [])], int(o['hdf5']['with_results'])] if o['hdf5'] else []
        if o['log_source'] == 'stdout':          # neither log file nor JSON: the traceback (13) is not observable
            exp_tags = [t for t in exp_tags if t != 13]
            got_tags = [t for t in got_tags if t != 13]
        # the exception the caller saw (RunEffects.propagated): 0 none / 1 the body's, re-raised / 2 raised in `finally`
        # at which step, with or without a body exception as __context__
        if o.get('chain') or not o['raised']:
            exc_o = [0, 0, 0] if not o['raised'] else \
                [2, o['fin_point'], exc_m[2] if o['body_in_chain'] else 0] if o['fin_point'] else [1, exc_m[1], 0]
            exc_good = exc_o == list(exc_m) and (exc_m[0] != 1 or o['body_in_chain'])
        else:
            exc_good = True                      # StageHang: no exception object
        shape_ok = (failed_ok if (1 <= it['fail_point'] <= 5 and fin_pt == 0) else
                    fin_ok if (it['fail_point'] == 0 and fin_pt != 0) else
                    bool(double_ok[[7, 8, 9, 10].index(fin_pt)]) if (it['fail_point'] != 0 and fin_pt != 0) else True)
        good = (bool(raised_m) == o['raised'] and exp_tags == got_tags and jk_m == jk_o and hk_m == hk_o
                and shape_ok and exc_good and o['json_log_equals_file'] in (True, None))
        if it.get('expect_code') is not None:
            good = good and it['msg_code'] == it['expect_code'] and it['exit_code_of_worker'] == it['expect_code']
        if not good:
            ctx.disagreements_checked += 1
            ctx.violation(f'mapping with {it["what"]}: effects differ from RunEffects.run_mapping: model tags {exp_tags} json {jk_m} '
                          f'hdf5 {hk_m} exc {exc_m}; observed tags {got_tags} json {jk_o} hdf5 {hk_o} fin_point {o["fin_point"]} '
                          f'body_in_chain {o["body_in_chain"]} chain {o.get("chain")}; msg code {it.get("msg_code")} '
                          f'exit code {it.get("exit_code_of_worker")} expected {it.get("expect_code")}',
                          dict(rep, model=m[1], **{'class': 'corr:RunEffects.run_mapping'}), no_input=True)
        else:
            ctx.traces_validated += 1


def mapping_faults(ctx, rng, tag, n_cells, chunk_size, n_processors, workers, variants=1):
    base = ctx.scratch / f'mapf_{tag}'
    base.mkdir()
    mapping_inputs(rng, base, n_cells)
    k = -(-n_cells // min(max(1, -(-n_cells // n_processors)), chunk_size))
    items, pool_cases, pool_meta = [], [], []
    plans = [None] + [(w, m, p) for w in workers for m in MODES for p in POINTS]
    for pi, plan in enumerate(plans):
        d = base / f'r{pi}'
        d.mkdir()
        kw = {}
        if variants > 1 and plan is not None:
            kw = rng.choice([{}, {'csv': False}, {'hdf5': False}, {'tmp_dir': None}])
        cfg = pipeline.config_for(d, base / 'query.h5ad', base / 'stats.h5', base / 'markers.json',
                                  chunk_size=chunk_size, n_processors=n_processors, **kw)
        if cfg['tmp_dir'] is None:
            cfg['extended_result_dir'] = str(d / 'tmp')       # where result_buffer_ goes then
        fault = None if plan is None else {'stage': 'mapping', 'worker': plan[0], 'mode': plan[1], 'point': plan[2]}
        res = call_stage(mapping_call(cfg), ['mapping'], fault=fault, trace_dir=d / 'trace', poll_sleep=0.002)
        o = observe_mapping(d, cfg, res)
        codes = res['exit_codes']['mapping']
        what = 'no fault' if plan is None else f'worker {plan[0]} of {k} {plan[1]} {plan[2]} work'
        if plan is not None and not res['fired']:
            ctx.dist('fault', 'mapping fault point not reached')
            plan = None
            what += ' (fault point not reached: control run)'
        it = {'cfg': cfg, 'flags': cfg_flags(cfg), 'fail_point': 0 if plan is None else 3, 'obs': o, 'what': what,
              'rep': {'kind': 'mapping-fault', 'plan': plan, 'n_cells': n_cells, 'chunk_size': chunk_size,
                      'n_processors': n_processors, 'k': k, 'exit_codes': codes, 'config': cfg}}
        ctx.count(('F', 'mapping', tag, plan), nontrivial=plan is not None and k >= 2)
        ctx.dist('fault', f'mapping {plan[1]} {plan[2]}' if plan else 'mapping control')
        if plan is not None:
            it['expect_code'] = faults.EXIT_CODE[plan[1]]
            it['msg_code'] = res['msg_code']
            it['exit_code_of_worker'] = codes[plan[0]] if plan[0] < len(codes) else None
            code = [0] * k
            code[plan[0]] = faults.EXIT_CODE[plan[1]]
            pool_cases.append((1401, [0, n_processors, k, code, [rng.randrange(0, 4) for _ in range(k)]]))
            pool_meta.append((plan, res['msg_code'], it['rep']))
            # workers that were started and were not the faulted one end with code 0 or die on the removed scratch
        else:
            if len(codes) != k or any(c != 0 for c in codes):
                ctx.violation(f'control run: expected {k} workers with exit code 0, got {codes}',
                              dict(it['rep'], **{'class': 'corr:Gather.chunks'}), no_input=True)
        items.append(it)
        if pi < 2:
            ctx.sample({'what': what, 'error': o['error'], 'out': o['out_listing'], 'json_keys': o['json_keys'],
                        'exit_codes': codes})
        shutil.rmtree(d, ignore_errors=True)
    compare_mapping(ctx, items)
    outs = ctx.model(pool_cases)
    for (plan, msg_code, rep), out in zip(pool_meta, outs):
        exp = [1, plan[0], faults.EXIT_CODE[plan[1]]]
        if out[0] != 0 or out[1][0] != exp or msg_code != exp[2]:
            ctx.violation(f'single failure {plan}: Pool.run_pool says {out}, the inspector reported code {msg_code}',
                          dict(rep, model=out, **{'class': 'corr:Pool.run_pool'}), no_input=True)
    shutil.rmtree(base, ignore_errors=True)


# ------------------------------------------------------------------ F: the other stages
SEFF = {'scratch': 0, 'skeleton': 1, 'payload': 2, 'complete': 3, 'clean': 4}


def accepts_stats(path):
    from cell_type_mapper.taxonomy.taxonomy_tree import TaxonomyTree
    from cell_type_mapper.diff_exp.score_utils import read_precomputed_stats
    try:
        with quiet():
            t = TaxonomyTree.from_precomputed_stats(path)
            read_precomputed_stats(precomputed_stats_path=path, taxonomy_tree=t, for_marker_selection=True)
        return True
    except Exception:
        return False


def accepts_markers(path):
    from cell_type_mapper.marker_selection.marker_array import MarkerGeneArray
    try:
        with quiet():
            MarkerGeneArray.from_cache_path(path)
        return True
    except Exception:
        return False


def accepts_mask(path):
    try:
        with h5py.File(path, 'r') as f:
            return all(kk in f for kk in ('data', 'indices', 'indptr'))
    except Exception:
        return False


def accepts_transposed(path):
    try:
        with h5py.File(path, 'r') as f:
            return all(kk in f for kk in ('data', 'indices', 'indptr'))
    except Exception:
        return False


def observe_stage(stage, d, res):
    """Observable effects (subset of seff tags 1..4) after the call."""
    tl = listing(d / 'tmp') or []
    o = {'raised': not res['ok'], 'error': res['error'], 'tmp_listing': tl, 'dir_listing': listing(d)}
    o['cleanup_failed'] = (not res['ok']) and res['etype'] in ('OSError', 'FileNotFoundError', 'PermissionError') \
        and '_clean_up' in res.get('tb', '')
    o['inspector_error'] = (not res['ok']) and res['etype'] == 'RuntimeError' and res['msg_code'] is not None
    tags = set()
    if stage == 'stats':
        p = d / 'stats.h5'
        if p.exists():
            with h5py.File(p, 'r') as f:
                ks = set(f.keys())
            o['datasets'] = sorted(ks)
            if 'sum' in ks:
                tags.add(2)
            if 'taxonomy_tree' in ks:
                tags.add(3)
        o['accepted'] = p.exists() and accepts_stats(p)
    elif stage == 'markers':
        p = d / 'refm.h5'
        o['accepted'] = p.exists() and accepts_markers(p)
        if p.exists():
            tags.add(3)
    elif stage == 'pmask':
        p = d / 'mask.h5'
        if p.exists():
            tags.add(1)
            if accepts_mask(p):
                tags.add(3)
        o['accepted'] = p.exists() and accepts_mask(p)
    elif stage == 'selection':
        o['accepted'] = res['ok'] and isinstance(res.get('value'), dict)
        if o['accepted']:
            tags.add(3)
    elif stage == 'transpose':
        p = d / 'transposed.h5'
        o['accepted'] = p.exists() and accepts_transposed(p)
        if p.exists():
            tags.add(3)
    if not tl and stage != 'selection':      # select_all_markers itself has no scratch of its own
        tags.add(4)
    o['tags'] = sorted(tags)
    return o


def stage_faults(ctx, rng, stage, tag, make_fn, k_of, workers_of, n_processors, phases, fail_phase=0, what=''):
    """Control run + every (worker, mode, point) on `stage`.  make_fn(d) -> callable;
    phases = number of pools of the stage call; fail_phase = index of the pool the
    faulted stage module's workers belong to."""
    inj = [stage] if stage != 'markers' else ['markers', 'transpose']
    target = stage if not isinstance(fail_phase, tuple) else fail_phase[0]
    d0 = ctx.scratch / f'{stage}_{tag}_control'
    d0.mkdir()
    res0 = call_stage(make_fn(d0), inj, trace_dir=d0 / 'trace', poll_sleep=0.002)
    o0 = observe_stage(stage, d0, res0)
    k = len(res0['exit_codes'][target])
    rep0 = {'kind': 'stage-control', 'stage': stage, 'input': what, 'observed': o0, 'exit_codes': res0['exit_codes']}
    ctx.count(('F', stage, tag, None), nontrivial=False)
    runs = [(None, o0, rep0, 0)]
    if not res0['ok'] or not o0['accepted']:
        ctx.violation(f'{stage}: fault-free control run failed or its output is not accepted: {res0["error"]}',
                      dict(rep0, **{'class': 'c14-stage-control-run'}))
        shutil.rmtree(d0, ignore_errors=True)
        return
    shutil.rmtree(d0, ignore_errors=True)
    if k < 2:
        ctx.dist('fault', f'{stage} skipped (only {k} worker)')
        return
    phase_idx = fail_phase[1] if isinstance(fail_phase, tuple) else fail_phase
    for w in workers_of(k):
        for mode in MODES:
            for point in POINTS:
                d = ctx.scratch / f'{stage}_{tag}_{w}_{mode}_{point}'
                d.mkdir()
                fault = {'stage': target, 'worker': w, 'mode': mode, 'point': point}
                res = call_stage(make_fn(d), inj, fault=fault, trace_dir=d / 'trace', poll_sleep=0.002)
                o = observe_stage(stage, d, res)
                codes = res['exit_codes'][target]
                rep = {'kind': 'stage-fault', 'stage': stage, 'faulted_module': target, 'plan': [w, mode, point], 'k': k,
                       'n_processors': n_processors, 'input': what, 'observed': o, 'exit_codes': res['exit_codes'],
                       'msg_code': res['msg_code']}
                ctx.count(('F', stage, tag, target, w, mode, point), nontrivial=True)
                ctx.dist('fault', f'{stage}/{target} {mode} {point}')
                runs.append(((w, mode, point), o, rep, faults.EXIT_CODE[mode]))
                # (b) the property
                bad = []
                if res['ok']:
                    bad.append('the call returned normally')
                if o['accepted']:
                    bad.append('a later stage accepts what is at the output location')
                if bad:
                    ctx.violation(f'{stage}: worker {w}/{k} of {target} {mode} {point} work: ' + '; '.join(bad),
                                  dict(rep, **{'class': f'c14-{stage}-failure-not-reported'}))
                elif o['cleanup_failed']:
                    # the finally block's _clean_up raced with a still-running sibling and its exception
                    # replaced the inspector's (modelled: oracle clean_ok of Pool.run_stage_desc_c)
                    ctx.dist('cleanup_race', f'{stage} {res["etype"]}')
                    if w < len(codes) and codes[w] != faults.EXIT_CODE[mode]:
                        ctx.violation(f'{stage}: worker {w} {mode} {point}: exit codes {codes}; expected code {faults.EXIT_CODE[mode]}',
                                      dict(rep, **{'class': 'corr:Pool.exit_code_of'}), no_input=True)
                elif (res['msg_code'] != faults.EXIT_CODE[mode] or res['etype'] != 'RuntimeError'
                      or (w < len(codes) and codes[w] != faults.EXIT_CODE[mode])):
                    ctx.violation(f'{stage}: worker {w} {mode} {point}: error {res["error"]}, exit codes {codes}; expected code '
                                  f'{faults.EXIT_CODE[mode]}', dict(rep, **{'class': 'corr:Pool.exit_code_of'}), no_input=True)
                shutil.rmtree(d, ignore_errors=True)
    # (a) correspondence with Pool.run_stage_desc
    cases = []
    for plan, o, rep, code in runs:
        verdicts = [0] * phases
        if plan is not None:
            verdicts[phase_idx] = code
        cases.append((1402, [STAGE_INDEX[stage], verdicts, not o['cleanup_failed']]))
        # a pool that belongs to a nested stage call (the transposition inside the marker stage): the
        # exception that leaves the nested call (inspector's or its finally block's) is what propagates
        nested = STAGE_INDEX[target] if target != stage else STAGE_INDEX[stage]
        cases.append((1402, [nested, [0 if plan is None else code], not o['cleanup_failed']]))
    outs2 = ctx.model(cases)
    outs = outs2[0::2]
    for (plan, o, rep, code), out, out_n in zip(runs, outs, outs2[1::2]):
        if out[0] == 0 and out_n[0] == 0 and target != stage:
            out = [0, [out[1][0], out[1][1], out_n[1][2]]]
        if out[0] != 0:
            ctx.violation('model rejected the stage case', dict(rep, **{'class': 'corr:Pool.run_stage_desc'}), no_input=True)
            continue
        tags_m, completed, raised_by = out[1]
        exp = sorted(set(t for t in tags_m if t in (1, 2, 3, 4)))
        if stage in ('markers', 'transpose') or (stage == 'stats' and 3 in exp):
            exp = [t for t in exp if t != 2 or stage == 'stats']
        by_o = 0 if not o['raised'] else (2 if o['cleanup_failed'] else (1 if o['inspector_error'] else 9))
        if exp != o['tags'] or bool(completed) != (not o['raised']) or raised_by != by_o:
            ctx.disagreements_checked += 1
            ctx.violation(f'{stage} {plan}: observed effects {o["tags"]} raised={o["raised"]} by {by_o} ({o["error"]}); '
                          f'Pool.run_stage_desc_c predicts {exp} completed={completed} raised by {raised_by}; dir={o["dir_listing"]}',
                          dict(rep, model=out[1], **{'class': 'corr:Pool.run_stage_desc'}), no_input=True)
        else:
            ctx.traces_validated += 1


# ------------------------------------------------------------------ P: other fail points of run_mapping
# scenario -> (fail point of the body, fail point of `finally`) of Model/RunEffects.v; 0 = none
SCENARIOS = [
    ('marker_cache', 2, 0), ('csv_nodir', 4, 0), ('summary_nodir', 6, 0), ('hdf5_nodir', 0, 9),
    # audit 4, A2a: the query file is absent / a directory: the copy step of the body raises AND
    # read_uns_from_h5ad(config['query_path']) in `finally` raises; only the log file is written
    ('query_absent', 1, 10), ('query_isdir', 1, 10),
    # audit 4, A2b: a worker fails AND a step of `finally` fails: the exception of `finally` replaces the inspector's
    ('worker_log_isdir', 3, 7), ('worker_json_isdir', 3, 8), ('worker_hdf5_nodir', 3, 9),
    # a step of `finally` fails after a clean body: log_path / output_path an existing directory (passes the probe)
    ('log_isdir', 0, 7), ('json_isdir', 0, 8),
]


def other_fail_points(ctx, rng, n):
    items = []
    base = ctx.scratch / 'points'
    base.mkdir()
    sc = mapping_inputs(rng, base, 6)
    for i in range(n):
        d = base / f'p{i}'
        d.mkdir()
        name, point, fin_point = SCENARIOS[i % len(SCENARIOS)]
        cfg = pipeline.config_for(d, base / 'query.h5ad', base / 'stats.h5', base / 'markers.json',
                                  chunk_size=3, n_processors=2, csv=(point == 4 or rng.random() < 0.5),
                                  hdf5=(fin_point == 9 or rng.random() < 0.7))
        fault = None
        if name.startswith('worker_'):
            fault = {'stage': 'mapping', 'worker': rng.randrange(2), 'mode': rng.choice(MODES), 'point': rng.choice(POINTS)}
        if name == 'marker_cache':      # the marker lookup names no gene of the query at the root: the marker cache raises
            bad = {'None': ['nonexistent_gene_a', 'nonexistent_gene_b']}
            json.dump(bad, open(d / 'bad_markers.json', 'w'))
            cfg['query_markers']['serialized_lookup'] = str(d / 'bad_markers.json')
        elif name == 'csv_nodir':       # the CSV path is in a directory that does not exist
            cfg['csv_result_path'] = str(d / 'no_such_dir' / 'result.csv')
        elif name in ('hdf5_nodir', 'worker_hdf5_nodir'):
                            # a failure inside `finally`: the HDF5 path (not probed before `try`) is in a directory
                            # that does not exist; obsm requested on a private copy of the query file (audit 3, item 13)
            cfg['hdf5_result_path'] = str(d / 'no_such_dir' / 'result.h5')
            if rng.random() < 0.7:
                shutil.copy(base / 'query.h5ad', d / 'query.h5ad')
                cfg['query_path'] = str(d / 'query.h5ad')
                cfg['obsm_key'] = 'cdm'
        elif name == 'summary_nodir':   # the summary path is in a directory that does not exist
            cfg['summary_metadata_path'] = str(d / 'no_such_dir' / 'summary.json')
        elif name == 'query_absent':
            cfg['query_path'] = str(d / 'absent.h5ad')
        elif name == 'query_isdir':
            (d / 'query_dir.h5ad').mkdir()
            cfg['query_path'] = str(d / 'query_dir.h5ad')
        elif name in ('worker_log_isdir', 'log_isdir'):
            pathlib.Path(cfg['log_path']).mkdir()
        elif name in ('worker_json_isdir', 'json_isdir'):
            pathlib.Path(cfg['extended_result_path']).mkdir()
        if fault is None:
            res = call_stage(mapping_call(cfg), ['mapping'], poll_sleep=0.002)
        else:
            res = call_stage(mapping_call(cfg), ['mapping'], fault=fault, trace_dir=d / 'trace', poll_sleep=0.002)
        o = observe_mapping(d, cfg, res)
        what = f'scenario {name} (fail point {point} of the body, {fin_point} of finally)' + \
            (f', worker {fault["worker"]} {fault["mode"]} {fault["point"]} work' if fault else '')
        it = {'cfg': cfg, 'flags': cfg_flags(cfg), 'fail_point': point, 'fin_point': fin_point, 'obs': o, 'what': what,
              'rep': {'kind': 'mapping-fail-point', 'scenario': name, 'point': point, 'fin_point': fin_point, 'fault': fault,
                      'config': cfg}}
        if fault is not None:
            if not res['fired']:
                ctx.violation(f'{what}: the fault point was not reached', dict(it['rep'], **{'class': 'c14-harness-fault-not-fired'}),
                              no_input=True)
                continue
            codes = res['exit_codes']['mapping']
            it['expect_code'] = faults.EXIT_CODE[fault['mode']]
            # the inspector's message is the __context__ of the exception the caller saw
            mc = [re.search(r'exited with code (-?\d+)', x['msg']) for x in (res.get('chain') or [])]
            mc = [int(m.group(1)) for m in mc if m]
            it['msg_code'] = mc[0] if mc else None
            it['exit_code_of_worker'] = codes[fault['worker']] if fault['worker'] < len(codes) else None
        items.append(it)
        ctx.count(('P', name, i), nontrivial=True)
        ctx.dist('fault', f'mapping scenario {name}')
        if i < len(SCENARIOS) and fin_point and point:
            ctx.sample({'what': what, 'error': o['error'], 'context': [f"{x['etype']}: {x['msg'][:80]}" for x in (o['chain'] or [])[1:]],
                        'out': o['out_listing'], 'json_keys': o['json_keys']})
        shutil.rmtree(d, ignore_errors=True)
    compare_mapping(ctx, items)
    shutil.rmtree(base, ignore_errors=True)


# ------------------------------------------------------------------ entry points
def run(ctx):
    rng = ctx.rng
    if not faults.guard_on():
        raise RuntimeError('CELL_TYPE_MAPPER_VERIF=1 must be set (./check does it)')
    ctx.rule = ('V: a generated world (exit code and termination poll of every worker) driven through the real dispatch/drain '
                'loop; non-trivial = at least one failing and one clean worker, or >= 3 workers with >= 2 at a time.  '
                'F: one real forked worker made to fail; non-trivial = every faulted run of a stage with >= 2 workers.  '
                'P: run_mapping made to fail at the marker cache / CSV / summary step, inside `finally` (log file, JSON, HDF5 path '
                'unwritable), with a missing query file (body and `finally` both fail), and with a failing worker AND an unwritable '
                'log / JSON / HDF5 path.')
    ctx.assumptions += [
        'os._exit(k) with k a multiple of 256 is reported by the operating system as exit code 0: no parent can see it '
        '(Pool.exit_code_of models the mod 256; c14_abnormal_codes excludes it; the tie X checks it on real workers)',
        'os._exit(k) is driven with C-int arguments only (outside -2**31 <= k < 2**31 the call raises OverflowError in the worker, '
        'exit code 1: Model/ExitCode.v exit_arg_ok); workers are killed with terminating signals only (SIGKILL, SIGTERM, SIGUSR1; '
        'ignored or stopping signals - SIGCHLD, SIGCONT, SIGURG, SIGWINCH, SIGPIPE, SIGXFSZ, SIGSTOP... - do not end a worker: '
        'ExitCode.terminating_signal)',
        'every started worker terminates (a hanging worker, a dying Manager process and a crash of the parent are not modelled)',
        'failures inside the `finally` block of run_mapping (RunEffects fail points 7 log file, 10 read_uns_from_h5ad of the query, '
        '8 JSON, 9 HDF5) are not worker failures; after a clean body they are outside the statement of C14 and driven for '
        'correspondence only (7: log_path an existing directory, 8: output_path an existing directory - both pass the probe before '
        '`try`, which only probes paths that do not exist -, 9: hdf5_output_path in a missing directory; the real call raises after '
        'the success message, CSV and obsm were written: c14_failure_in_finally_after_success); TOGETHER with a failure of the body '
        'they are driven too (audit 4, A2): a real worker made to fail + 7 / 8 / 9, and a query file that is absent / a directory = '
        'copy step 1 + 10 (10 alone cannot be driven: a query file the body accepts and `finally` cannot open does not exist); '
        'where the exception the caller saw was raised (body of `try` / which statement of `finally`) and whether a body exception '
        'is in its chain of __context__ is read off the traceback line numbers against the ast of the real run_mapping',
        'a worker failure with log_path an existing directory is finding F34 (no log written: KNOWN-FINDING), an invalid '
        'configuration that the probe before `try` lets through',
        '_clean_up(tmp_dir) in the `finally` block (rmdir / unlink of the run\'s own tmp directory) is assumed not to raise; '
        '_clean_up_result_buffer swallows OSError; the other statements of the block do no I/O',
        'a failing step raises a subclass of Exception (the clause is `except Exception`): a KeyboardInterrupt or SystemExit in '
        'the body would skip the traceback in the log (tag 13) - not modelled, not driven; a faulted worker in mode raise raises '
        'RuntimeError (exit code 1; a worker raising SystemExit(0) exits with 0 and is not a failure any parent can see)',
        'fork start method; faults are injected by harness-side wrappers of module-level names (harness/faults.py), '
        'active only under CELL_TYPE_MAPPER_VERIF=1; no source hook',
        'a stage called with n_processors <= 1 that runs its work inline (statistics) has no worker and is not faulted',
        'directory listings are taken after all descendant processes have exited; fresh output directory per run',
    ]
    pending = []
    # ---- V: mapping and statistics (list inspector), markers / mask (dict inspector)
    vb = ctx.scratch / 'virt'
    vb.mkdir()
    n_cells = rng.choice([7, 9, 10])
    mapping_inputs(rng, vb, n_cells)
    for i in range(ctx.n(40, 200)):
        n = rng.randrange(1, 5)
        cs = rng.randrange(2, 5)
        k = -(-n_cells // min(max(1, -(-n_cells // n)), cs))
        world = gen_world(rng, k)

        def mk(d, n=n, cs=cs):
            d.mkdir()
            cfg = pipeline.config_for(d, vb / 'query.h5ad', vb / 'stats.h5', vb / 'markers.json', chunk_size=cs, n_processors=n)
            return mapping_call(cfg)
        virtual_case(ctx, 'mapping', mk, n, k, world, {'dir': vb / f'm{i}', 'what': f'{n_cells} cells chunk {cs}'}, pending)
    gt, genes, n_rows = reference_inputs(rng, vb)
    for i in range(ctx.n(20, 100)):
        n = rng.randrange(2, 5)
        rat = rng.randrange(3, 9)

        def mk(d, n=n, rat=rat):
            d.mkdir()
            return stats_call(vb, d, gt, rat, n)
        # number of workers: learn it from a clean virtual run
        probe = call_stage(mk(vb / f'sprobe{i}'), ['stats'], world={'code': [0] * 64, 'dur': [0] * 64})
        k = len(probe['exit_codes']['stats'])
        shutil.rmtree(vb / f'sprobe{i}', ignore_errors=True)
        world = gen_world(rng, k)
        virtual_case(ctx, 'stats', mk, n, k, world, {'dir': vb / f's{i}', 'what': f'{n_rows} rows, {rat} at a time'}, pending)
    # a statistics file for the dict-inspector stages
    with quiet():
        stats_call(vb, vb, gt, 50, 1)()
    for st, mkcall in (('pmask', lambda d, n: pmask_call(vb / 'stats.h5', d, n)),
                       ('markers', lambda d, n: markers_call(vb / 'stats.h5', d, n))):
        for i in range(ctx.n(8, 40)):
            n = rng.randrange(1, 4)

            def mk(d, n=n, mkcall=mkcall):
                d.mkdir()
                return mkcall(d, n)
            inj = [st]
            probe = call_stage(mk(vb / f'{st}probe{i}'), inj, world={'code': [0] * 64, 'dur': [0] * 64})
            k = len(probe['exit_codes'][st])
            shutil.rmtree(vb / f'{st}probe{i}', ignore_errors=True)
            if k == 0:
                continue
            world = gen_world(rng, k)
            virtual_case(ctx, st, mk, n, k, world, {'dir': vb / f'{st}{i}', 'what': f'stats of {n_rows} rows'}, pending)
    compare_virtual(ctx, pending)
    shutil.rmtree(vb, ignore_errors=True)
    # ---- X: the exit codes multiprocessing reports against Pool.exit_code_of
    exit_code_tie(ctx)
    raise_class_tie(ctx)

    # ---- F: real faults
    if ctx.quick():
        mapping_faults(ctx, rng, 'q', n_cells=8, chunk_size=4, n_processors=2, workers=[0, 1])
        rounds, wmax, nps = 1, 2, [2]
    else:
        mapping_faults(ctx, rng, 't2', n_cells=8, chunk_size=4, n_processors=2, workers=[0, 1], variants=2)
        mapping_faults(ctx, rng, 't3', n_cells=9, chunk_size=3, n_processors=2, workers=[0, 1, 2], variants=2)
        mapping_faults(ctx, rng, 't4', n_cells=12, chunk_size=3, n_processors=4, workers=[0, 1, 2, 3], variants=2)
        mapping_faults(ctx, rng, 't1', n_cells=6, chunk_size=2, n_processors=1, workers=[0, 1, 2], variants=2)
        rounds, wmax, nps = 3, 4, [2, 3, 4]
    import scipy.sparse as sp
    for rd in range(rounds):
        fb = ctx.scratch / f'stagef{rd}'
        fb.mkdir()
        gt, genes, n_rows = reference_inputs(rng, fb, min_leaves=5, max_leaves=7, levels=2)
        rat = max(3, n_rows // 6)
        # the first workers (their failure is seen while later chunks are still being dispatched) and the LAST one
        # (seen only by the final drain)
        wk = lambda k: sorted(set(range(min(k, wmax))) | ({k - 1} if k > 0 else set()))
        for npz in nps:
            stage_faults(ctx, rng, 'stats', f'{rd}n{npz}', lambda d, npz=npz: stats_call(fb, d, gt, rat, npz),
                         None, wk, npz, phases=1, what=f'{n_rows} rows, {rat} at a time, tree {gt.shape_key()}')
        with quiet():
            stats_call(fb, fb, gt, 50, 1)()
        for npz in nps[:2]:
            stage_faults(ctx, rng, 'pmask', f'{rd}n{npz}', lambda d, npz=npz: pmask_call(fb / 'stats.h5', d, npz),
                         None, wk, npz, phases=1, what='p-value mask')
            stage_faults(ctx, rng, 'markers', f'{rd}n{npz}', lambda d, npz=npz: markers_call(fb / 'stats.h5', d, npz),
                         None, wk, npz, phases=3, fail_phase=0, what='reference markers, pair workers')
        stage_faults(ctx, rng, 'markers', f'{rd}transp', lambda d: markers_call(fb / 'stats.h5', d, 2),
                     None, lambda k: range(min(k, 2)), 2, phases=3, fail_phase=('transpose', 1),
                     what='reference markers, transposition workers (first direction)')
        with quiet():
            markers_call(fb / 'stats.h5', fb, 2)()
            with h5py.File(fb / 'refm.h5', 'a') as f:
                f.create_dataset('metadata', data=json.dumps({'precomputed_path': str(fb / 'stats.h5')}).encode('utf-8'))
        for npz, cut in ((2, 1000), (3, 0))[:len(nps)]:
            stage_faults(ctx, rng, 'selection', f'{rd}n{npz}',
                         lambda d, npz=npz, cut=cut: selection_call(fb / 'refm.h5', genes, d, npz, cut),
                         None, wk, npz, phases=1, what=f'query marker selection, behemoth cutoff {cut}')
        selection_virtual(ctx, rng, fb / 'refm.h5', genes, fb, ctx.n(10, 40))
        # parallel transposition of a generated CSR matrix
        nr, nc = rng.randrange(10, 16), rng.randrange(6, 11)
        M = np.array([[rng.choice([0, 0, 1, 2, 3]) for _ in range(nc)] for _ in range(nr)], dtype=np.float32)
        csr = sp.csr_matrix(M)
        with h5py.File(fb / 'csr.h5', 'w') as f:
            f.create_dataset('data', data=csr.data)
            f.create_dataset('indices', data=csr.indices)
            f.create_dataset('indptr', data=csr.indptr)
        for npz in nps[:2]:
            stage_faults(ctx, rng, 'transpose', f'{rd}n{npz}', lambda d, npz=npz: transpose_call(fb / 'csr.h5', d, npz, nc),
                         None, wk, npz, phases=1, what=f'parallel transposition {nr}x{nc}')
        shutil.rmtree(fb, ignore_errors=True)

    # ---- P
    other_fail_points(ctx, rng, ctx.n(len(SCENARIOS), 3 * len(SCENARIOS)))
    faults.uninstall()
    ctx.extra['stages_faulted'] = sorted({k.split(' ')[0] for k in ctx.extra.get('distribution', {}).get('fault', {})})


def replay(ctx, rec):
    print(json.dumps(rec, indent=1, default=str)[:8000])
    return 0
