"""C08 — marker genes are reconciled with the query by name, with ancestor fallback.

Tie: validate_marker_lookup, create_marker_cache_from_specified_markers (HDF5 cache written and
read back), write_query_markers_to_h5, serialize_markers on generated (tree, table, reference gene
order, query gene order, min_markers) against Model/Markers.v; the declarative `spec_markers`
(computed by the extracted model from the ORIGINAL table) against the genes found in the cache, in the
table reported by serialize_markers and in the table returned by validate_marker_lookup; the error clauses
(unknown marker / root without usable marker) judged on every ACCEPTED case; the clause "an entry that needs
no markers (a single-child parent, a key that is no parent of the tree) never makes the creation of the cache
fail" (theorem c08_unneeded_entry_never_fails; the repaired finding F7) judged on every REJECTED case: the
rejection must not name such a key, and emptying such an entry must not turn the rejection into a success.

Reporting: a failure of the property's own statement is reported at once, with its input.  A case on
which only the correspondence fails is kept back; at the end the property's statement is evaluated on
neighbours of the first such cases and on a fresh batch, a failing one is reported with its input, and
only then the correspondence failures are reported (no-failing-input-found)."""
import ast
import json
import pathlib
import warnings

import h5py
import numpy as np

from harness.core import exc_class

LEVEL_POOL = ['class', 'subclass', 'supertype', 'cluster', 'division', 'neighborhood', 'Xlevel']
EXTRA_LEVELS = ['zz_dropped', 'aa_unknown']          # level names that are never in the hierarchy

E_VALIDATE, E_NOWHERE, E_NO_OVERLAP, E_NOT_IN_REF, E_KEY, E_INDEX = 1, 2, 3, 4, 5, 6
F7_CLASS = 'F7-entry-of-parent-needing-no-markers-aborts-cache-creation'
C_SPEC = 'c08-used-genes-differ-from-spec'
C_SPEC_VALIDATE = 'c08-validated-genes-differ-from-spec'
C_UNKNOWN = 'c08-unknown-marker-accepted'
C_ROOT = 'c08-root-without-usable-marker-accepted'
C_UNNEEDED = 'c08-entry-needing-no-markers-decides-cache-creation'
N_FIRST = 5            # model calls per case in the first phase


# ------------------------------------------------------------------ generators
def fresh_names(rng, n, prefix):
    out = set()
    while len(out) < n:
        out.add(prefix + ''.join(rng.choice('abcxyzQR019_-') for _ in range(rng.randrange(1, 4))))
    out = list(out)
    rng.shuffle(out)
    return out


def gen_tree(rng, max_levels=4, max_leaves=8, min_leaves=1):
    """A valid taxonomy (dict for TaxonomyTree): every branching incl. single-child chains and
    single-node levels; dict orders and child-list orders shuffled."""
    n_levels = rng.randrange(1, max_levels + 1)
    hierarchy = rng.sample(LEVEL_POOL, n_levels)
    n_leaves = rng.randrange(min_leaves, max_leaves + 1)
    sizes = [n_leaves]
    for _ in range(n_levels - 1):
        sizes.append(rng.randrange(1, sizes[-1] + 1))
    sizes.reverse()                                    # top first
    names = [fresh_names(rng, s, f'{chr(65 + i)}') for i, s in enumerate(sizes)]
    data = {'hierarchy': hierarchy}
    row = 0
    for li in range(n_levels - 1, -1, -1):
        if li == n_levels - 1:
            lv = {}
            for nm in names[li]:
                k = rng.randrange(0, 3)
                lv[nm] = list(range(row, row + k))
                row += k
        else:
            kids = list(names[li + 1])
            rng.shuffle(kids)
            parents = names[li]
            groups = {p: [] for p in parents}
            for p, c in zip(parents, kids):           # every parent gets a child
                groups[p].append(c)
            for c in kids[len(parents):]:
                groups[rng.choice(parents)].append(c)
            lv = {p: groups[p] for p in parents}
        data[hierarchy[li]] = lv
    return data


def gen_case(rng):
    data = gen_tree(rng)
    hierarchy = data['hierarchy']
    n_univ = rng.randrange(4, 16)
    universe = fresh_names(rng, n_univ, 'g')
    p_query = rng.choice([0.0] + [0.3, 0.5, 0.7, 0.9, 1.0] * 4)
    p_ref = rng.choice([1.0] * 6 + [0.9])
    query = [g for g in universe if rng.random() < p_query]
    ref = [g for g in universe if rng.random() < p_ref]
    query += fresh_names(rng, rng.randrange(0, 3), 'q')      # query genes that are no marker at all
    ref += fresh_names(rng, rng.randrange(0, 3), 'r')
    if not ref:
        ref = [universe[0]]
    rng.shuffle(query)
    rng.shuffle(ref)
    dup = None
    if rng.random() < 0.04 and query:
        query.append(rng.choice(query))
        dup = 'query'
    elif rng.random() < 0.04:
        ref.append(rng.choice(ref))
        dup = 'reference'
    parents = ['None']
    for lv in hierarchy[:-1]:
        parents += [f'{lv}/{n}' for n in data[lv]]
    order = list(parents)
    rng.shuffle(order)
    p_missing = rng.choice([0.0, 0.15, 0.3, 0.5])
    n_children = {'None': len(data[hierarchy[0]])}
    for lv in hierarchy[:-1]:
        for nd, ch in data[lv].items():
            n_children[f'{lv}/{nd}'] = len(ch)
    table = {}
    for k in order:
        r = rng.random()
        if k == 'None':
            if r < 0.04:
                continue
            if r < 0.08:
                table[k] = []
                continue
        else:
            pm = max(p_missing, 0.6) if n_children[k] < 2 else p_missing     # docs: may be left out or empty
            if r < pm:
                continue
            if r < pm + 0.1:
                table[k] = []
                continue
        table[k] = [rng.choice(universe) for _ in range(rng.randrange(1, 6))]   # duplicates possible
    extra = []
    if rng.random() < 0.25:
        for _ in range(rng.randrange(1, 3)):
            kind = rng.choice(['leaf', 'unknown_level', 'unknown_node'])
            if kind == 'leaf':
                k = f'{hierarchy[-1]}/{rng.choice(list(data[hierarchy[-1]]))}'
            elif kind == 'unknown_level':
                k = f'{rng.choice(EXTRA_LEVELS)}/{fresh_names(rng, 1, "Z")[0]}'
            else:
                k = f'{rng.choice(hierarchy)}/{fresh_names(rng, 1, "Z")[0]}'
            if k in table:
                continue
            table[k] = [] if rng.random() < 0.2 else [rng.choice(universe) for _ in range(rng.randrange(1, 4))]
            extra.append(k)
        items = list(table.items())
        rng.shuffle(items)
        table = dict(items)
    noise = {}
    if rng.random() < 0.1:
        noise['metadata'] = {'config': 'x'}
    if rng.random() < 0.1:
        noise['log'] = {'None': 'y'}
    return {'tree': data, 'table': table, 'noise_keys': noise, 'ref': ref, 'query': query,
            'min_markers': rng.randrange(0, 7), 'dup_names': dup, 'extra_keys': extra,
            'use_log': rng.random() < 0.3}


# ------------------------------------------------------------------ renaming (glue)
class Renaming:
    def __init__(self, case):
        data = case['tree']
        self.hierarchy = data['hierarchy']
        nodes = set()
        for lv in self.hierarchy:
            nodes.update(data[lv].keys())
        self.extra_levels = []
        for k in case['table']:
            if k == 'None':
                continue
            lv, nd = k.split('/', 1)
            nodes.add(nd)
            if lv not in self.hierarchy and lv not in self.extra_levels:
                self.extra_levels.append(lv)
        self.extra_levels.sort()
        self.node = {s: i for i, s in enumerate(sorted(nodes))}
        self.node_inv = {i: s for s, i in self.node.items()}
        genes = set(case['ref']) | set(case['query'])
        for v in case['table'].values():
            genes.update(v)
        self.gene = {s: i for i, s in enumerate(sorted(genes))}
        self.gene_inv = {i: s for s, i in self.gene.items()}

    def level_idx(self, lv):
        if lv in self.hierarchy:
            return self.hierarchy.index(lv)
        return len(self.hierarchy) + self.extra_levels.index(lv)

    def level_name(self, i):
        return self.hierarchy[i] if i < len(self.hierarchy) else self.extra_levels[i - len(self.hierarchy)]

    def key(self, k):
        if k == 'None':
            return []
        lv, nd = k.split('/', 1)
        return [self.level_idx(lv), self.node[nd]]

    def key_inv(self, k):
        return 'None' if k == [] else f'{self.level_name(k[0])}/{self.node_inv[k[1]]}'

    def genes(self, l):
        return [self.gene[g] for g in l]

    def genes_inv(self, l):
        return [self.gene_inv[g] for g in l]

    def tree_sx(self, data):
        out = []
        n = len(self.hierarchy)
        for i, lv in enumerate(self.hierarchy):
            if i == n - 1:
                out.append([[self.node[k], [int(r) for r in v]] for k, v in data[lv].items()])
            else:
                out.append([[self.node[k], [self.node[c] for c in v]] for k, v in data[lv].items()])
        return out

    def table(self, tb):
        return [[self.key(k), self.genes(v)] for k, v in tb.items()]

    def table_inv(self, sx):
        return {self.key_inv(k): self.genes_inv(v) for k, v in sx}


# ------------------------------------------------------------------ implementation side
def err_code(e):
    msg = str(e)
    if isinstance(e, KeyError):
        return E_KEY
    if isinstance(e, IndexError):
        return E_INDEX
    if isinstance(e, RuntimeError):
        if 'no valid marker genes could be found at any level' in msg:
            return E_NOWHERE
        if msg.startswith('validating marker lookup'):
            return E_VALIDATE
        if 'were present in query set' in msg and msg.startswith('No markers at parent node'):
            return E_NO_OVERLAP
        if 'are not in the reference dataset' in msg:
            return E_NOT_IN_REF
    return 99


def read_cache(path):
    out = {'groups': {}}
    with h5py.File(path, 'r') as f:
        out['parents'] = json.loads(f['parent_node_list'][()].decode('utf-8'))
        out['allq'] = [int(v) for v in f['all_query_markers'][()]]
        out['allr'] = [int(v) for v in f['all_reference_markers'][()]]
        out['query_names'] = json.loads(f['query_gene_names'][()].decode('utf-8'))
        out['ref_names'] = json.loads(f['reference_gene_names'][()].decode('utf-8'))

        def visit(name, obj):
            if isinstance(obj, h5py.Group) and 'reference' in obj and 'query' in obj:
                out['groups'][name] = [[int(v) for v in obj['reference'][()]],
                                       [int(v) for v in obj['query'][()]]]
        f.visititems(visit)
    return out


AUG = "had too few markers in query set; augmenting with markers from "


def unneeded_keys(case, children):
    """Keys of the table that need no markers: everything but a parent of the tree with >= 2 children
    (Markers.needs_markers = false)."""
    return [k for k in case['table'] if children.get(k, 0) < 2]


def run_impl(case, scratch, idx):
    """Everything the real code says about one case."""
    from cell_type_mapper.taxonomy.taxonomy_tree import TaxonomyTree
    from cell_type_mapper.type_assignment import marker_cache_v2 as mc
    from cell_type_mapper.cli.cli_log import CommandLog
    obs = {}
    with warnings.catch_warnings():
        warnings.simplefilter('ignore')
        tree = TaxonomyTree(data=case['tree'])
    table = dict(case['table'])
    table.update(case['noise_keys'])
    table_before = json.dumps(table, sort_keys=False)
    obs['children'] = {'None': len(tree.children(None, None))}
    for lv in tree.hierarchy[:-1]:
        for nd in tree.nodes_at_level(lv):
            obs['children'][f'{lv}/{nd}'] = len(tree.children(lv, nd))
    # (1) validate_marker_lookup
    with warnings.catch_warnings(record=True) as w:
        warnings.simplefilter('always')
        try:
            res = mc.validate_marker_lookup(marker_lookup=table, query_gene_names=list(case['query']),
                                            taxonomy_tree=tree, min_markers=case['min_markers'])
            res = {k: v for k, v in res.items() if k not in ('metadata', 'log')}
            log = []
            for m in w:
                s = str(m.message)
                if AUG in s:
                    parent = s.split("parent node '", 1)[1].split("' had too few", 1)[0]
                    patched = ast.literal_eval(s.split(AUG, 1)[1])     # repr of a list of str
                    log.append([parent, patched])
            obs['validate'] = {'ok': True, 'table': res, 'log': log}
        except Exception as e:
            obs['validate'] = {'ok': False, 'err': err_code(e), 'msg': f'{exc_class(e)}: {e}'[:300]}
    # (2) create_marker_cache_from_specified_markers (+ read back) and serialize_markers
    path = pathlib.Path(scratch) / f'cache_{idx}.h5'
    with warnings.catch_warnings():
        warnings.simplefilter('ignore')
        try:
            mc.create_marker_cache_from_specified_markers(
                marker_lookup=table, reference_gene_names=list(case['ref']), query_gene_names=list(case['query']),
                output_cache_path=path, taxonomy_tree=tree, min_markers=case['min_markers'],
                log=CommandLog() if case['use_log'] else None)
            obs['create'] = {'ok': True, 'cache': read_cache(path)}
        except Exception as e:
            obs['create'] = {'ok': False, 'err': err_code(e), 'msg': f'{exc_class(e)}: {e}'[:300]}
        if obs['create']['ok']:
            try:
                obs['serialize'] = {'ok': True, 'table': mc.serialize_markers(marker_cache_path=path, taxonomy_tree=tree)}
            except Exception as e:
                obs['serialize'] = {'ok': False, 'err': err_code(e), 'msg': f'{exc_class(e)}: {e}'[:300]}
        else:
            # (2') the rejected table again, with ONE entry that needs no markers emptied (the statement of
            # c08_unneeded_entry_never_fails read backwards: if the emptied table is accepted, so must the listed one be,
            # provided the entry lists reference genes only)
            refset = set(case['ref'])
            obs['unneeded_variant'] = None
            tried = 0
            for k in unneeded_keys(case, obs['children']):
                if not case['table'][k] or any(g not in refset for g in case['table'][k]):
                    continue
                if tried >= 3:
                    break
                tried += 1
                variant = dict(table)
                variant[k] = []
                path3 = pathlib.Path(scratch) / f'cache3_{idx}.h5'
                try:
                    mc.create_marker_cache_from_specified_markers(
                        marker_lookup=variant, reference_gene_names=list(case['ref']),
                        query_gene_names=list(case['query']), output_cache_path=path3, taxonomy_tree=tree,
                        min_markers=case['min_markers'], log=CommandLog() if case['use_log'] else None)
                    obs['unneeded_variant'] = k
                except Exception:
                    pass
                if path3.exists():
                    path3.unlink()
                if obs['unneeded_variant'] is not None:
                    break
        # (3) write_query_markers_to_h5 called directly on the raw table
        path2 = pathlib.Path(scratch) / f'cache2_{idx}.h5'
        try:
            mc.write_query_markers_to_h5(marker_lookup=dict(case['table']), reference_gene_names=list(case['ref']),
                                         query_gene_names=list(case['query']), output_cache_path=path2)
            obs['write'] = {'ok': True, 'cache': read_cache(path2)}
        except Exception as e:
            obs['write'] = {'ok': False, 'err': err_code(e), 'msg': f'{exc_class(e)}: {e}'[:300]}
    obs['table_untouched'] = json.dumps(table, sort_keys=False) == table_before
    for p in (path, path2):
        if p.exists():
            p.unlink()
    return obs


# ------------------------------------------------------------------ comparison
def cache_sx(rn, cache):
    """Observed cache in the model's wire format (for tags 804 / 807)."""
    return [[rn.key(k) for k in cache['parents']], cache['allq'], cache['allr'],
            [[rn.key(k), v[0], v[1]] for k, v in cache['groups'].items()]]


def canon_model_cache(rn, c):
    parents, allq, allr, groups = c
    return {'parents': sorted(rn.key_inv(k) for k in parents), 'allq': allq, 'allr': allr,
            'groups': {rn.key_inv(k): [a, b] for k, a, b in groups}}


def canon_obs_cache(c):
    return {'parents': sorted(c['parents']), 'allq': c['allq'], 'allr': c['allr'], 'groups': c['groups']}


def first_phase_cases(case, rn):
    tree = rn.tree_sx(case['tree'])
    tb = rn.table(case['table'])
    q = rn.genes(case['query'])
    r = rn.genes(case['ref'])
    m = case['min_markers']
    return [(801, [tree, tb, q, m]), (802, [[tree], tb, r, q, m]), (803, [tb, r, q]), (805, [tree, tb, q, m]),
            (808, [tree, tb, r, q, m])]


def check_case(ctx, case, obs, rn, res1, res2):
    """res1 = results of first_phase_cases; res2 = (serialize on observed cache, used on observed cache) or None."""
    m_val, m_create, m_write, m_spec, m_unknown = res1
    corr = []          # (model function, message)
    prop = []          # (class, message)
    # ---- (a) validate_marker_lookup
    ov = obs['validate']
    if m_val[0] == 0:
        mt = rn.table_inv(m_val[1][0])
        mlog = [[rn.key_inv(p), [rn.key_inv(k) for k in pw]] for p, pw in m_val[1][1]]
        if not ov['ok']:
            corr.append(('Markers.validate_marker_lookup', f'implementation raised {ov["msg"]}; model accepts'))
        else:
            if {k: v for k, v in ov['table'].items()} != mt or list(ov['table'].keys()) != list(mt.keys()):
                corr.append(('Markers.validate_marker_lookup', f'patched table differs: impl {ov["table"]} model {mt}'))
            if ov['log'] != mlog:
                corr.append(('Markers.validate_marker_lookup', f'ancestors consulted differ: impl {ov["log"]} model {mlog}'))
    elif m_val[0] == 1:
        if ov['ok']:
            corr.append(('Markers.validate_marker_lookup', f'model rejects with {m_val[1]}; implementation accepts'))
        elif ov['err'] != m_val[1]:
            corr.append(('Markers.validate_marker_lookup', f'error kind: impl {ov["err"]} ({ov["msg"]}) model {m_val[1]}'))
    else:
        corr.append(('Markers.validate_marker_lookup', 'model could not decode the case'))
    # ---- (a) create_marker_cache_from_specified_markers
    oc = obs['create']
    if m_create[0] == 0:
        if not oc['ok']:
            corr.append(('Markers.create_cache', f'implementation raised {oc["msg"]}; model accepts'))
        elif canon_obs_cache(oc['cache']) != canon_model_cache(rn, m_create[1]):
            corr.append(('Markers.create_cache', f'cache differs: impl {canon_obs_cache(oc["cache"])} '
                                                 f'model {canon_model_cache(rn, m_create[1])}'))
    elif m_create[0] == 1:
        if oc['ok']:
            corr.append(('Markers.create_cache', f'model rejects with {m_create[1]}; implementation accepts'))
        elif oc['err'] != m_create[1]:
            corr.append(('Markers.create_cache', f'error kind: impl {oc["err"]} ({oc["msg"]}) model {m_create[1]}'))
    else:
        corr.append(('Markers.create_cache', 'model could not decode the case'))
    # ---- (a) write_query_markers_to_h5
    ow = obs['write']
    if m_write[0] == 0:
        if not ow['ok']:
            corr.append(('Markers.write_query_markers', f'implementation raised {ow["msg"]}; model accepts'))
        elif canon_obs_cache(ow['cache']) != canon_model_cache(rn, m_write[1]):
            corr.append(('Markers.write_query_markers', 'cache differs'))
    elif m_write[0] == 1:
        if ow['ok'] or ow['err'] != m_write[1]:
            corr.append(('Markers.write_query_markers', f'model error {m_write[1]}, impl {ow}'))
    if not obs['table_untouched']:
        prop.append(('input-table-mutated', 'the caller\'s marker table was modified'))
    # ---- (b) the property's own statement on the observed output
    # spec = the declarative spec_markers (Model/Markers.v, tag 805), computed from the ORIGINAL table; nothing of
    # the model's step-by-step results (m_val, m_create) is used below
    spec = {rn.key_inv(k): rn.genes_inv(v) for k, v in m_spec[1]}      # parents with >= 2 children
    multi = [k for k, n in obs['children'].items() if n >= 2]
    assert sorted(multi) == sorted(spec.keys()), (multi, spec)
    qset = set(case['query'])
    if ov['ok']:
        for k in multi:
            got = sorted(set(ov['table'].get(k, [])) & qset)
            if got != sorted(spec[k]):
                prop.append((C_SPEC_VALIDATE, f'parent {k}: validate_marker_lookup returns {got} (restricted to the '
                                              f'query), the table implies {sorted(spec[k])}'))
    if oc['ok']:
        cache = oc['cache']
        if cache['query_names'] != list(case['query']) or cache['ref_names'] != list(case['ref']):
            prop.append(('cache-gene-names', 'gene name lists stored in the cache differ from the inputs'))
        for k in multi:
            if k not in cache['groups']:
                prop.append(('group-missing', f'parent {k} has >= 2 children but no group in the cache'))
                continue
            ri, qi = cache['groups'][k]
            rnames = [cache['ref_names'][i] for i in ri]
            qnames = [cache['query_names'][i] for i in qi]
            if rnames != qnames:
                prop.append(('pairing-by-name', f'parent {k}: reference columns {rnames} vs query columns {qnames}'))
            if ri != sorted(ri):
                prop.append(('reference-order', f'parent {k}: reference indices not ascending {ri}'))
            if sorted(set(rnames)) != sorted(spec[k]) or len(set(rnames)) != len(rnames):
                prop.append((C_SPEC, f'parent {k}: cache has {sorted(rnames)}, the table implies {sorted(spec[k])}'))
            if any(g not in case['query'] for g in rnames):
                prop.append(('gene-not-in-query', f'parent {k}: {rnames}'))
        osr = obs['serialize']
        if osr['ok']:
            rep = osr['table']
            for k, n in obs['children'].items():
                if k not in rep:
                    prop.append(('reported-missing', f'{k} missing from the reported table'))
                elif k != 'None' and n < 2:
                    if rep[k] != []:
                        prop.append(('single-child-reports-markers', f'{k}: {rep[k]}'))
                elif k in cache['groups']:
                    if rep[k] != [cache['ref_names'][i] for i in cache['groups'][k][0]]:
                        prop.append(('reported-differs-from-used', f'{k}: reported {rep[k]}'))
                    if k in spec and sorted(rep[k]) != sorted(spec[k]):
                        prop.append((C_SPEC, f'parent {k}: serialize_markers reports {sorted(rep[k])}, '
                                             f'the table implies {sorted(spec[k])}'))
        # the error clauses, judged on the ACCEPTED case
        # (i) a marker unknown to the reference, listed under a parent of the tree.  Which (key, gene) pairs demand
        #     the error is the declarative `unknown_demanded` (tag 808) of the ORIGINAL table: every unknown gene,
        #     except one that the query lacks too in an entry that is replaced by its patched version (documented).
        demanded = [(rn.key_inv(k), rn.gene_inv[g]) for k, g in m_unknown[1]]
        if demanded:
            prop.append((C_UNKNOWN, f'cache created although {demanded[:4]} (key, gene) are listed markers that are '
                                    f'not reference genes'))
        # (ii) a root that has to choose between >= 2 children and has no usable marker
        if obs['children']['None'] >= 2 and not (set(case['table'].get('None', [])) & qset):
            prop.append((C_ROOT, f"cache created although the root has {obs['children']['None']} children and none of "
                                 f"its markers {case['table'].get('None')} is in the query"))
        if res2 is not None:
            m_ser, m_used = res2
            if m_ser[0] == 0:
                mt = rn.table_inv(m_ser[1])
                if not osr['ok']:
                    corr.append(('Markers.serialize', f'implementation raised {osr["msg"]}; model accepts'))
                elif osr['table'] != mt or list(osr['table'].keys()) != list(mt.keys()):
                    corr.append(('Markers.serialize', f'reported table differs: impl {osr["table"]} model {mt}'))
            elif m_ser[0] == 1:
                if osr['ok'] or osr['err'] != m_ser[1]:
                    corr.append(('Markers.serialize', f'model error {m_ser[1]}, impl {osr}'))
            else:
                corr.append(('Markers.serialize', 'model could not decode'))
            for k, u in m_used[1]:
                if not u or u[0][0] != u[0][1]:
                    prop.append(('pairing-by-name', f'model `used` on the observed cache: {rn.key_inv(k)} {u}'))
    else:
        # errors: which are demanded by the property?
        root_multi = obs['children']['None'] >= 2
        root_usable = [g for g in case['table'].get('None', []) if g in case['query']]
        demanded = []
        if root_multi and not root_usable:
            demanded.append('root without usable markers')
        if oc['err'] == E_NOT_IN_REF:
            demanded.append('marker unknown to the reference')
        if oc['err'] in (E_VALIDATE, E_NOWHERE):
            demanded.append('a parent with >= 2 children is left without any usable gene')
        if oc['err'] == E_NO_OVERLAP:
            # legitimate only if the offending key is a parent with >= 2 children (min_markers = 0);
            # otherwise the key needs no markers and its entry must not abort anything: the defect F7
            # (repaired in the package; this class fires on a checkout that lacks the repair)
            key = oc['msg'].split("parent node '", 1)[1].split("' were present", 1)[0]
            if obs['children'].get(key, 0) >= 2:
                demanded.append('non-empty list of a branching parent without overlap (min_markers too small to patch)')
            else:
                prop.append((F7_CLASS, f"entry '{key}' (children: {obs['children'].get(key, 'not a parent')}) "
                                       f"aborts the cache creation: {oc['msg']}"))
        if obs.get('unneeded_variant') is not None:
            k = obs['unneeded_variant']
            prop.append((C_UNNEEDED, f"cache creation fails ({oc['msg']}) but succeeds once the entry of '{k}' "
                                     f"(children: {obs['children'].get(k, 'not a parent')}; reference genes only: "
                                     f"{case['table'][k]}) is emptied: an entry that needs no markers decides"))
        if not demanded and not prop and oc['err'] != 99:
            prop.append(('unexplained-error', oc['msg']))
        if oc['err'] == 99:
            prop.append(('unexpected-exception', oc['msg']))
    return corr, prop


def describe(case, obs, res1):
    return {'kind': 'function', 'case': case, 'observed': obs,
            'model': {'validate': res1[0], 'create': res1[1], 'write': res1[2], 'spec': res1[3],
                      'unknown_demanded': res1[4]}}


def evaluate(ctx, cases, first_idx=0):
    """Implementation and model on a list of cases -> [(case, renaming, observed, res1, corr, prop)]."""
    rns = [Renaming(c) for c in cases]
    obs = [run_impl(c, ctx.scratch, first_idx + i) for i, c in enumerate(cases)]
    first = []
    for c, rn in zip(cases, rns):
        first += first_phase_cases(c, rn)
    r1 = ctx.model(first)
    second, second_idx = [], []
    for i, (c, rn, o) in enumerate(zip(cases, rns, obs)):
        if o['create']['ok']:
            cs = cache_sx(rn, o['create']['cache'])
            second.append((804, [cs, rn.genes(o['create']['cache']['ref_names']), rn.tree_sx(c['tree'])]))
            second.append((807, [cs, rn.genes(o['create']['cache']['ref_names']),
                                 rn.genes(o['create']['cache']['query_names'])]))
            second_idx.append(i)
    r2 = ctx.model(second) if second else []
    r2 = {i: (r2[2 * j], r2[2 * j + 1]) for j, i in enumerate(second_idx)}
    out = []
    for i, (c, rn, o) in enumerate(zip(cases, rns, obs)):
        res1 = r1[N_FIRST * i:N_FIRST * i + N_FIRST]
        corr, prop = check_case(ctx, c, o, rn, res1, r2.get(i))
        out.append((c, rn, o, res1, corr, prop))
    return out


def function_cases(ctx):
    rng = ctx.rng
    n = ctx.n(1500, 40000)
    batch = 500
    done = 0
    pending = []       # cases on which the correspondence fails and no property failure was reported
    while done < n:
        m = min(batch, n - done)
        cases = [gen_case(rng) for _ in range(m)]
        for c, rn, o, res1, corr, prop in evaluate(ctx, cases, done):
            book(ctx, c, o, res1)
            report(ctx, c, o, res1, corr, prop, pending)
        done += m
    if pending:
        search_failing_input(ctx, pending, done)
        for c, o, res1, corr in pending:
            fn, msg = corr[0]
            d = dict(describe(c, o, res1))
            d['class'] = 'corr:' + fn
            d['correspondence_failures'] = corr
            ctx.violation(f'model and implementation disagree ({fn}): {msg}'[:600], d, no_input=True)


# ------------------------------------------------------------------ when the correspondence breaks
def neighbours(rng, case, limit=160):
    """Inputs close to `case` (same tree): other min_markers, query / reference gene sets changed by one gene,
    table entries removed, emptied, swapped, extended by one gene."""
    out = []

    def variant(**kw):
        c = json.loads(json.dumps(case))
        c.update(kw)
        out.append(c)
    for m in range(0, 7):
        if m != case['min_markers']:
            variant(min_markers=m)
    listed = sorted({g for v in case['table'].values() for g in v})
    genes = sorted(set(listed) | set(case['ref']) | set(case['query']))
    for g in sorted(set(case['query'])):
        variant(query=[x for x in case['query'] if x != g], dup_names=None)
    for g in genes:
        if g not in case['query']:
            variant(query=list(case['query']) + [g])
    for g in sorted(set(case['ref'])):
        if len(set(case['ref'])) > 1:
            variant(ref=[x for x in case['ref'] if x != g], dup_names=None)
    parents = ['None'] + [f'{lv}/{nd}' for lv in case['tree']['hierarchy'][:-1] for nd in case['tree'][lv]]
    for k in case['table']:
        variant(table={a: b for a, b in case['table'].items() if a != k})
        if case['table'][k]:
            variant(table={a: ([] if a == k else b) for a, b in case['table'].items()})
    pairs = [(a, b) for i, a in enumerate(parents) for b in parents[i + 1:]]
    rng.shuffle(pairs)
    for a, b in pairs[:40]:
        tb = dict(case['table'])
        va, vb = tb.get(a), tb.get(b)
        if va == vb:
            continue
        for k, v in ((a, vb), (b, va)):
            if v is None:
                tb.pop(k, None)
            else:
                tb[k] = v
        variant(table=tb)
    for _ in range(40):
        if not genes:
            break
        k = rng.choice(parents)
        tb = dict(case['table'])
        tb[k] = list(tb.get(k, [])) + [rng.choice(genes)]
        variant(table=tb)
    for c in out:
        c['extra_keys'] = [k for k in c['extra_keys'] if k in c['table']]
    if len(out) > limit:
        out = rng.sample(out, limit)
    return out


def search_failing_input(ctx, pending, idx0):
    """The correspondence is broken: look for an input on which the property's own statement fails on the
    implementation -- on neighbours of the first disagreeing cases, then on a fresh batch of the generator."""
    rng = ctx.rng
    found = 0
    tried = 0
    for c, o, res1, corr in pending[:8]:
        nb = neighbours(rng, c)
        tried += len(nb)
        for c2, rn2, o2, r2, corr2, prop2 in evaluate(ctx, nb, idx0):
            if prop2 and report_property(ctx, c2, o2, r2, corr2, prop2, found_by={
                    'search': 'neighbour of a case on which model and implementation disagree',
                    'disagreeing_case': c, 'disagreement': corr[:2]}):
                found += 1
                break
        if found >= 2:
            break
    if not found:
        fresh = [gen_case(rng) for _ in range(ctx.n(1500, 6000))]
        tried += len(fresh)
        for c2, rn2, o2, r2, corr2, prop2 in evaluate(ctx, fresh, idx0):
            if prop2 and report_property(ctx, c2, o2, r2, corr2, prop2, found_by={
                    'search': 'fresh batch after a correspondence failure'}):
                found += 1
                if found >= 2:
                    break
    ctx.extra['with_input_search'] = {'disagreeing_cases': len(pending), 'inputs_tried': tried, 'failing_inputs_found': found}


def book(ctx, c, o, res1):
    n_levels = len(c['tree']['hierarchy'])
    branching = sum(1 for v in o['children'].values() if v >= 2)
    fallback = o['validate']['ok'] and any(pw for _, pw in o['validate']['log'])
    outcome = 'ok' if o['create']['ok'] else f'error{o["create"]["err"]}'
    nontriv = n_levels >= 2 and branching >= 1 and fallback and o['create']['ok']
    ctx.count(json.dumps([c['tree'], c['table'], c['ref'], c['query'], c['min_markers']]), nontrivial=nontriv)
    ctx.dist('outcome', outcome)
    ctx.dist('levels', n_levels)
    ctx.dist('min_markers', c['min_markers'])
    ctx.dist('fallback_used', bool(fallback))
    if o['validate']['ok']:
        for _, pw in o['validate']['log']:
            ctx.dist('patched_with', 'none' if not pw else ('root-only' if pw == ['None'] else
                                                           ('ancestors+root' if 'None' in pw else f'{len(pw)}-ancestor(s)')))
    ctx.dist('extra_keys', len(c['extra_keys']))
    qset = set(c['query'])
    for k in unneeded_keys(c, o['children']):
        if c['table'][k] and not (set(c['table'][k]) & qset):
            # the situation of the repaired finding F7: a listed entry that needs no markers and has no query gene
            kind = ('single-child parent' if k in o['children'] else
                    ('leaf-level key' if k.split('/', 1)[0] == c['tree']['hierarchy'][-1] else 'key outside the tree'))
            ctx.dist('unneeded_entry_without_query_gene', f'{kind}: {outcome}')
    refset = set(c['ref'])
    if any(g not in refset for k in o['children'] for g in c['table'].get(k, [])):
        # a parent of the tree lists a gene that is no reference gene: rejected, or accepted under the documented excuse
        ctx.dist('unknown_marker_under_a_parent', 'accepted (excused: absent from the query, entry replaced)'
                 if o['create']['ok'] else f'rejected (error{o["create"]["err"]})')
    if c['dup_names']:
        ctx.dist('duplicate_names', c['dup_names'])
    if nontriv:
        ctx.sample({'tree': c['tree'], 'table': c['table'], 'query': c['query'], 'ref': c['ref'],
                    'min_markers': c['min_markers'], 'augment_log': o['validate']['log'],
                    'reported': o.get('serialize', {}).get('table')}, limit=3)


def report_property(ctx, c, o, res1, corr, prop, found_by=None):
    """One violation WITH input per class of property failure; True if one was reported (i.e. is not a known finding)."""
    reported = False
    seen = set()
    classes = {cls for cls, _ in prop}
    for cls, msg in prop:
        if cls in seen:
            continue
        if cls == C_SPEC_VALIDATE and C_SPEC in classes:
            continue          # same defect seen twice on this input; the cache is what is used (all_property_failures has both)
        seen.add(cls)
        d = dict(describe(c, o, res1))
        d['class'] = cls
        d['all_property_failures'] = prop
        d['correspondence_failures'] = corr
        if found_by:
            d['found_by'] = found_by
        if ctx.violation(f'C08 fails on a generated case: {msg}'[:600], d):
            reported = True
    return reported


def report(ctx, c, o, res1, corr, prop, pending):
    if not corr and not prop:
        return
    ctx.disagreements_checked += 1
    reported = report_property(ctx, c, o, res1, corr, prop) if prop else False
    if corr and not reported:
        # no (new) property failure on this very input: kept back for the search of a failing input
        pending.append((c, o, res1, corr))


def run(ctx):
    ctx.rule = ('generated (tree <= 4 levels / <= 8 leaves incl. single-child chains and single-node levels; table with '
                'missing parents, empty lists, duplicates, genes absent from query and/or reference, keys that are no '
                'parent; independent reference and query gene orders; min_markers 0..6). non-trivial = >= 2 levels, '
                '>= 1 parent with >= 2 children, >= 1 parent that needed fallback (non-empty patched_with), cache created')
    ctx.assumptions += [
        'entries that need no markers (single-child parents, leaf-level keys, keys of levels/nodes that are not in the '
        'tree) are generated with and without query genes (distribution unneeded_entry_without_query_gene); nothing is '
        'excluded on account of the repaired finding F7',
        "level and node names contain no '/' (a key 'level/node' then identifies the pair)",
        "'metadata' and 'log' keys of the table are ignored by the code; they are passed to the implementation but not to the model",
        'duplicate gene names in the query or reference list occur in 8% of the cases (the last column wins, as in the dicts of the code)',
        'trees are valid strict trees (accepted by TaxonomyTree)',
        "clause 'a marker unknown to the reference ends the run with an error' is judged on accepted cases for the keys "
        "that are parents of the tree (any number of children); excused, as documented in DESIGN/Props (the code drops it "
        "silently): a gene absent from the reference AND from the query in the entry of a non-root parent with >= 2 "
        "children and fewer than min_markers usable own genes that has something to patch with (Markers.entry_replaced); "
        "keys that are no parents of the tree are compared through the correspondence only",
    ]
    function_cases(ctx)
    # the marker lists of real mapping runs: reported = used (in reference order) at every node where a vote was held;
    # a flattened run (with or without a dropped level) uses the union of every list of the table
    from harness import mapcheck
    mapcheck.run_batch(ctx, ctx.n(16, 200), ('c08-',), 'runs', max_levels=4)


def replay(ctx, rec):
    case = rec.get('case')
    if case is None:
        print(json.dumps(rec, indent=1)[:4000])
        return 0
    rn = Renaming(case)
    obs = run_impl(case, ctx.scratch, 0)
    res1 = ctx.model(first_phase_cases(case, rn))
    res2 = None
    if obs['create']['ok']:
        cs = cache_sx(rn, obs['create']['cache'])
        res2 = tuple(ctx.model([(804, [cs, rn.genes(obs['create']['cache']['ref_names']), rn.tree_sx(case['tree'])]),
                                (807, [cs, rn.genes(obs['create']['cache']['ref_names']),
                                       rn.genes(obs['create']['cache']['query_names'])])]))
    corr, prop = check_case(ctx, case, obs, rn, res1, res2)
    print('INPUT', json.dumps(case, indent=1))
    print('IMPLEMENTATION', json.dumps(obs, indent=1, default=str))
    print('MODEL', json.dumps({'validate': res1[0], 'create': res1[1], 'spec': res1[3], 'unknown_demanded': res1[4]}, default=str))
    print('CORRESPONDENCE', corr)
    print('PROPERTY', prop)
    import shutil
    shutil.rmtree(ctx.scratch, ignore_errors=True)
    return 1 if (corr or prop) else 0
