"""C03 — confidence fields obey the documented arithmetic contract."""
import json

from harness import mapcheck


def run(ctx):
    ctx.rule = ('real run_mapping on generated scenarios (incl. iteration count 1, zero runners-up, more runners-up than '
                'siblings, single-child chains, flatten / dropped levels); every record checked against the arithmetic '
                'contract: k/iterations probabilities, runner-up shape via the extracted check_choice on recomputed votes, '
                'sums, running product, single-child semantics, inferred levels; the HDF5 output read back with hdf5_to_blob must carry the same numbers and runner-up lists; non-trivial = a (cell, level) vote among '
                '>= 2 children')
    ctx.assumptions += ['the [-1,1] clause is checked on the implementation with a 1e-9 allowance (real outputs contain '
                        '1.0000000000000002); the model proves it exactly',
                        'aggregate probability compared with the float running product within 1e-12']
    mapcheck.run_batch(ctx, ctx.n(30, 500), ('c03-', 'c02-votes', 'c15-hdf5'), 'map', max_levels=5)


def replay(ctx, rec):
    print(json.dumps(rec, indent=1)[:6000])
    return 0
