"""C15, the TEXT of the CSV output -- tie of coq/Model/CsvText.v to the real code.

(B) '%.4f' % x on generated doubles (what blob_to_csv's float_format does to the confidence column) against
    CsvText.fmt4k / fmt4_text (1552) and parse_fixed4 (1554), plus the property's own statement on the observed
    text (nearest, ties to even on the exact value, unit interval, monotone, format).
(A) tables of strings (+ float columns) through pandas' DataFrame.to_csv exactly as blob_to_csv calls it, and
    generated taxonomies / result blobs with wild node names through the REAL blob_to_csv: the file text must
    equal CsvText.csv_file (1550) byte for byte; pandas.read_csv(path, comment='#') -- the call of the
    example notebooks (docs/output.md names no reader), here with dtype=str, keep_default_na=False -- must return the fields whenever the model says the table is well_shaped (1553);
    the raw tokenizer output of pandas must equal CsvText.csv_parse (1551) on the written files and on a
    separate stream of arbitrary (malformed) texts.
(C) files larger than pandas' 262144-byte tokenizer chunk through the real blob_to_csv: a well_shaped table (cell
    ids with QUOTED leading blanks) must read back field for field; cell ids with UNQUOTED leading blanks placed on
    the chunk boundary lose blanks (finding F32; excluded from well_shaped).
The reader modelled is the tokenizer, i.e. read_csv(comment='#', dtype=str, keep_default_na=False); what pandas'
default type inference makes of labels like NA / 007 / None / 1e5 is observed (default_reader_observation) and not
judged: it is the choice of the reader's caller, not a statement about what the CSV holds."""
import copy
import io
import json
import math
import re
import warnings
from fractions import Fraction

import numpy as np

from harness.core import exc_class

F_HASH = 'F20-csv-unquoted-hash-lost-by-reader-with-comment'
F_CR = 'F21-csv-carriage-return-written-unquoted'
F_CHUNK = 'F32-csv-leading-blank-lost-at-pandas-chunk-boundary'
CHUNK = 262144

PLAIN = 'abcdeXYZ0123_-.'
SPECIAL = [',', '"', '\n', '\r', '#', ' ', '\t', "'", ';', '\\', '|', '/', 'é', '€', '\U0001d4b3', '\x0c', '\x85',
           ' ', '""', ', ', '\r\n', ' #']
NUM4 = re.compile(r'^-?\d+\.\d{4}$')


# ------------------------------------------------------------------ strings
def gen_str(rng, kind=None):
    """A field / name.  Returns the string; the kind drawn is only a generation device."""
    if kind is None:
        kind = rng.choices(['plain', 'spicy', 'empty', 'blank', 'hash', 'cr', 'quote', 'numlike'],
                           weights=[34, 30, 5, 7, 6, 4, 10, 4])[0]
    n = rng.randrange(1, 8)
    plain = ''.join(rng.choice(PLAIN) for _ in range(n))
    if kind == 'plain':
        return plain
    if kind == 'empty':
        return ''
    if kind == 'blank':
        return rng.choice([' ', '  ', '\t', ' ' + plain, plain + ' ', ' ' + plain + ' ', '\t' + plain, ' \t '])
    if kind == 'hash':
        return rng.choice(['#' + plain, plain + '#', '#', plain + '#' + plain, '"#' + plain, '#,' + plain])
    if kind == 'cr':
        return rng.choice([plain + '\r', '\r' + plain, plain + '\r' + plain, '\r', plain + '\r\n' + plain,
                           plain + ',\r' + plain, plain + '\rb'])
    if kind == 'quote':
        return rng.choice(['"' + plain + '"', plain + '"', '"', '""', plain + ',' + plain, plain + '\n' + plain,
                           ',', '\n', plain + '","' + plain, '"\n"'])
    if kind == 'numlike':
        return rng.choice(['NA', 'nan', 'None', '1.5', '-0', '1e5', 'True', 'NULL', '0.1000'])
    return ''.join(rng.choice(PLAIN) if rng.random() < 0.5 else rng.choice(SPECIAL) for _ in range(rng.randrange(0, 8)))


def needs_quote(s):
    return any(c in s for c in ',"\n')


def features(s):
    out = []
    if s == '':
        out.append('empty')
    if needs_quote(s):
        out.append('quoted')
    if ',' in s:
        out.append('comma')
    if '"' in s:
        out.append('dquote')
    if '\n' in s:
        out.append('lf')
    if '\r' in s:
        out.append('cr' if needs_quote(s) else 'cr-unquoted')
    if '#' in s:
        out.append('hash' if needs_quote(s) else 'hash-unquoted')
    if s[:1] in (' ', '\t') or s[-1:] in (' ', '\t'):
        out.append('edge-blank')
    if any(ord(c) > 127 for c in s):
        out.append('non-ascii')
    return out or ['plain']


def enc(s):
    return [ord(c) for c in s]


def dec(l):
    return ''.join(chr(c) for c in l)


def distinct(rng, n, used, nonempty=True, gen=gen_str):
    out = []
    for _ in range(n):
        for _ in range(100):
            s = gen(rng)
            if s not in used and (s != '' or not nonempty) and not s.startswith('﻿'):
                break
        else:
            s = f'n{len(used)}'
        used.add(s)
        out.append(s)
    return out


# ------------------------------------------------------------------ floats
TIES = [(2 * k + 1) / 32.0 for k in range(16)]      # the only doubles x in [0, 1] with x * 10^4 = integer + 1/2


def gen_float(rng):
    """(kind, value); the value is a python float, np.float64 or np.float32 scalar."""
    kind = rng.choices(['uniform', 'tie', 'tie-next', 'edge', 'float32', 'votes', 'tiny', 'large', 'dyadic',
                        'negative'], weights=[22, 10, 12, 8, 12, 12, 6, 6, 6, 6])[0]
    if kind == 'uniform':
        x = rng.random()
    elif kind == 'tie':
        x = rng.choice(TIES) + rng.choice([0, 0, 0, 1, 2, 7, 1000])
    elif kind == 'tie-next':
        t = rng.choice(TIES) + rng.choice([0, 0, 0, 1, 3])
        x = math.nextafter(t, rng.choice([-math.inf, math.inf]))
    elif kind == 'edge':
        x = rng.choice([0.0, 1.0, 1 - 2.0 ** -53, 1 + 2.0 ** -52, 0.99995, math.nextafter(0.99995, 0), 0.00005,
                        math.nextafter(0.00005, 1), 0.5, 0.99994999, 2.0 ** -1074, 5e-324, 0.00004999999])
    elif kind == 'float32':
        x = np.float32(rng.choice([rng.random(), rng.randrange(0, 101) / 100.0, rng.choice(TIES), 0.1, 1.0,
                                   rng.randrange(0, 38) / 37.0]))
    elif kind == 'votes':
        it = rng.choice([10, 100, 37, 7, 1000, 3])
        x = rng.randrange(0, it + 1) / it
    elif kind == 'tiny':
        x = rng.choice([1e-5, 5e-5, 4.9999e-5, 1e-7, 1e-300, rng.random() * 1e-4])
    elif kind == 'large':
        x = rng.choice([rng.random() * 1e10, float(2 ** 60), 1e22, 123456789.03125, rng.random() * 1e300, 2.0 ** 1023])
    elif kind == 'dyadic':
        x = sum(2.0 ** -rng.randrange(1, 14) for _ in range(rng.randrange(1, 5)))
    else:
        x = -rng.choice([rng.random(), rng.choice(TIES), 0.0, 1e-7, 1.0, 0.00005, 1 - 2.0 ** -53])
    if kind not in ('float32',) and rng.random() < 0.3:
        x = np.float64(x)
    return kind, x


def float_parts(x):
    """x = (-1)^neg * m * 2^e exactly."""
    x = float(x)
    neg = math.copysign(1.0, x) < 0
    a = abs(x)
    if a == 0.0:
        return [neg, 0, 0]
    mant, ex = math.frexp(a)
    m = int(mant * 2 ** 53)
    assert Fraction(m) * Fraction(2) ** (ex - 53) == Fraction(a)
    return [neg, m, ex - 53]


def fmt_property(x, text):
    """The property's statement on the text the implementation printed for x: list of failures."""
    fails = []
    if not NUM4.match(text):
        return [f'{text!r} is not digits.dddd']
    v = Fraction(float(x))
    k = int(text.replace('.', ''))        # exact: four decimals, so the digits are the number of 1/10000 units
    if text.startswith('-') and v > 0:
        fails.append('sign')
    d = abs(v * 10000 - k)
    if d > Fraction(1, 2):
        fails.append(f'{text} is not nearest to {float(x).hex()}')
    if d == Fraction(1, 2) and k % 2 != 0:
        fails.append(f'{text}: tie of the exact value {float(x).hex()} not to even')
    if 0 <= v <= 1 and not 0 <= k <= 10000:
        fails.append(f'{text} outside [0.0000, 1.0000] for a value in [0, 1]')
    return fails


def float_cases(ctx):
    rng = ctx.rng
    n = ctx.n(1500, 30000)
    cases = [gen_float(rng) for _ in range(n)]
    observed = ['%.4f' % x for _, x in cases]
    parts = [float_parts(x) for _, x in cases]
    res = ctx.model([(1552, p) for p in parts] + [(1554, enc(t)) for t in observed])
    order = []
    for i, ((kind, x), text, p) in enumerate(zip(cases, observed, parts)):
        ctx.dist('float kind', kind)
        ctx.dist('float type', type(x).__name__)
        ctx.count(('f', float(x).hex(), type(x).__name__), nontrivial=True)
        rec = {'kind': 'float', 'x_hex': float(x).hex(), 'type': type(x).__name__, 'observed': text}
        fails = fmt_property(x, text)
        if fails:
            ctx.violation(f"'%.4f' % {float(x).hex()}: " + '; '.join(fails), dict(rec, **{'class': 'fmt4-property'}))
        m = res[i]
        if m[0] != 0 or dec(m[1][1]) != text:
            ctx.violation(f"'%.4f' % {float(x).hex()} printed {text!r}, model {m}",
                          dict(rec, **{'class': 'corr:CsvText.run_fmt4'}), no_input=True)
        elif NUM4.match(text):
            k = m[1][0]
            back = res[n + i]
            if back != [0, [-k if text.startswith('-') else k]]:
                ctx.violation(f'parse_fixed4 of {text!r} gives {back}, fmt4k {k}',
                              dict(rec, **{'class': 'corr:CsvText.run_parse_fixed4'}), no_input=True)
            if not p[0]:
                order.append((Fraction(float(x)), k, text))
    order.sort(key=lambda t: t[0])
    for (a, ka, ta), (b, kb, tb) in zip(order, order[1:]):
        if ka > kb:
            ctx.violation(f'not monotone: {ta} for {a} but {tb} for {b}',
                          {'class': 'fmt4-monotone', 'kind': 'float', 'a': str(a), 'b': str(b)})
    ctx.sample({'float': cases[0][1].hex() if isinstance(cases[0][1], float) else float(cases[0][1]).hex(),
                "'%.4f'": observed[0]})


# ------------------------------------------------------------------ reading a written file
def raw_read(text, comment, width):
    """The tokenizer output of pandas for the text: rows of fields, trailing empty fields stripped
    (read_csv pads short rows, with '' under keep_default_na=False).  None = 'EOF inside string'."""
    import pandas as pd
    try:
        df = pd.read_csv(io.StringIO(text), header=None, names=list(range(width)), dtype=str, keep_default_na=False,
                         comment=comment, engine='c')
    except pd.errors.EmptyDataError:
        return []
    except pd.errors.ParserError as e:
        if 'EOF inside string' in str(e):
            return None
        return ('error', str(e)[:200])
    return [strip_row(list(r)) for r in df.itertuples(index=False)]


def strip_row(r):
    r = list(r)
    while r and r[-1] == '':
        r.pop()
    return r


def backtrack_quirk(text):
    """pandas' WHITESPACE_LINE backtracking re-reads from the previous '\\n': visible only when a bare '\\r'
    precedes, on the same '\\n'-line, a blank / tab (documented deviation of the model)."""
    return re.search('\r[^\n]*[ \t]', text) is not None


def user_read(path):
    """The notebooks' pd.read_csv(path, comment='#') (+ dtype=str, keep_default_na=False to see the fields)."""
    import pandas as pd
    try:
        df = pd.read_csv(path, comment='#', dtype=str, keep_default_na=False)
    except Exception as e:      # noqa: any failure to read is an observation
        return ('error', exc_class(e) + ': ' + str(e)[:160])
    return [[str(c) for c in df.columns]] + [list(r) for r in df.itertuples(index=False)]


def judge_files(ctx, recs):
    """recs: dicts with bodies (comment lines), rows (header first; list of list of str), text (the file the real
    code wrote), user (what the documented read gave), kind, case (replay)."""
    model_in = []
    for r in recs:
        b = [enc(x) for x in r['bodies']]
        t = [[enc(f) for f in row] for row in r['rows']]
        model_in += [(1550, [b, t]), (1553, [b, t]), (1551, [False, enc(r['text'])]), (1551, [True, enc(r['text'])])]
    res = ctx.model(model_in)
    for i, r in enumerate(recs):
        m_text, m_rt, m_p0, m_p1 = res[4 * i: 4 * i + 4]
        rec = {'kind': r['kind'], 'case': r['case']}
        # (a) byte for byte
        text_ok = m_text[0] == 0 and dec(m_text[1]) == r['text']
        if not text_ok:
            ctx.violation(f'{r["kind"]}: the file text differs from CsvText.csv_file: real {r["text"]!r} model '
                          f'{dec(m_text[1]) if m_text[0] == 0 else m_text!r}',
                          dict(rec, **{'class': 'corr:CsvText.run_csv_file'}), no_input=True)
        bodies_ok, ws0, ws1, rt0, rt1 = m_rt[1]
        rows = r['rows']
        unq = [f for row in rows for f in row if not needs_quote(f)]
        has_hash = any('#' in f for f in unq)
        has_cr = any('\r' in f for f in unq)
        blank_single = any(len(row) == 1 and row[0] != '' and row[0].strip(' \t') == '' for row in rows)
        lead_blank = any(row and row[0][:1] in (' ', '\t') and not needs_quote(row[0]) for row in rows)
        bad_char = any(c == '\x00' or 0xD800 <= ord(c) <= 0xDFFF for row in rows for f in row for c in f)
        # the text starts with U+FEFF (read_csv strips a leading byte order mark; audit 4, A6): CsvText.bom_ok
        lead_bom = bool(rows and rows[0] and rows[0][0][:1] == '\ufeff' and not needs_quote(rows[0][0]))
        # the model's hypotheses are what the harness thinks they are
        if bool(ws0) != (not has_cr and not blank_single and all(rows) and not lead_blank and not bad_char
                         and not lead_bom) \
                or bool(ws1) != (bool(ws0) and not has_hash):
            ctx.violation(f'{r["kind"]}: well_shaped flags {ws0} {ws1} unexpected for {rows!r}',
                          dict(rec, **{'class': 'corr:CsvText.well_shaped'}), no_input=True)
        want = [[[enc(f) for f in row] for row in rows]]
        if (ws0 and not r['bodies'] and rt0 != want) or (ws1 and bodies_ok and rt1 != want):
            ctx.violation(f'{r["kind"]}: the model round trip fails although the hypotheses of '
                          'c15_csv_text_roundtrip / c15_csv_comment_lines_safe hold',
                          dict(rec, **{'class': 'corr:CsvText.run_csv_roundtrip'}), no_input=True)
        # (b) the tokenizer of pandas on the written file == csv_parse
        if not text_ok:
            pass                # the reader is compared on files the model predicts
        elif lead_bom and not r['bodies']:
            # the excluded input is exactly where the real reader differs from the model of the tokenizer: it strips the BOM
            real = raw_read(r['text'], None, max(len(x) for x in rows) + 2)
            want_real = [strip_row([f for f in row]) for row in rows]
            want_real[0][0] = want_real[0][0][1:]
            ctx.dist('written file', 'leading BOM: excluded by well_shaped; pandas strips it')
            if real != want_real or r['user'] == rows:
                ctx.violation(f'{r["kind"]}: a leading U+FEFF was expected to be stripped by read_csv: raw {real!r} user {r["user"]!r}',
                              dict(rec, **{'class': 'corr:CsvText.bom_ok'}), no_input=True)
        elif r.get('chunk_case') and lead_blank:
            ctx.dist('written file', 'reader correspondence skipped (leading blanks on a chunk boundary: F32)')
        elif not backtrack_quirk(r['text']):
            width = max([len(x) for x in rows] + [len(x) for m in (m_p0, m_p1) if m[1] for x in m[1][0]] + [1]) + 2
            for cm, m in ((None, m_p0), ('#', m_p1)):
                real = raw_read(r['text'], cm, width)
                mod = None if not m[1] else [strip_row([dec(f) for f in row]) for row in m[1][0]]
                if real != mod:
                    ctx.violation(f'{r["kind"]}: pandas tokenizer (comment={cm!r}) on {r["text"]!r}: {real!r}, '
                                  f'csv_parse: {mod!r}', dict(rec, **{'class': 'corr:CsvText.run_csv_parse'}),
                                  no_input=True)
        else:
            ctx.dist('written file', 'reader correspondence skipped (bare CR before a blank)')
        # (c) the property: the documented read gives the fields back
        ok = r['user'] == rows
        if ws1 and bodies_ok:
            ctx.dist('written file', 'well_shaped (comment reader)')
            if not ok:
                ctx.violation(f'{r["kind"]}: pd.read_csv(comment="#") of the written file gives {r["user"]!r} for the '
                              f'fields {rows!r} (text {r["text"]!r})', dict(rec, **{'class': 'csv-readback'}))
        elif not ok:
            chunk = lead_blank and len(r['text']) > CHUNK
            cls = F_CR if has_cr else F_HASH if has_hash else F_CHUNK if chunk else 'csv-readback-excluded-shape'
            ctx.dist('written file', 'known: ' + ('unquoted CR' if has_cr else 'unquoted #' if has_hash else
                                                  'leading blank on a chunk boundary' if chunk else 'blank 1-col'))
            if chunk:
                diff = [(a, b) for a, b in zip(rows, r['user'] if isinstance(r['user'], list) else []) if a != b]
                ctx.violation(f'{r["kind"]}: pd.read_csv(comment="#") of a {len(r["text"])}-byte file loses leading blanks '
                              f'of a cell id that straddle the {CHUNK}-byte tokenizer chunk: {diff[:2]!r}',
                              dict(rec, **{'class': cls}))
                continue
            if blank_single and not has_cr and not has_hash:
                continue        # a one-column table, not a shape blob_to_csv produces: excluded (assumption)
            if lead_bom and not r['bodies'] and not has_cr and not has_hash:
                continue        # a text that starts with U+FEFF: excluded by well_shaped (assumption); blob_to_csv's files start with '#'
            ctx.violation(f'{r["kind"]}: pd.read_csv(comment="#") loses fields: {r["user"]!r} for {rows!r}',
                          dict(rec, **{'class': cls}))


# ------------------------------------------------------------------ (A-i) tables through DataFrame.to_csv
def gen_table(rng):
    ncols = rng.choice([1, 2, 3, 3, 4, 5, 6])
    nrows = rng.choice([0, 1, 2, 3, 3, 4, 6])
    mild = rng.random() < 0.55       # mostly valid: no unquoted '#' / CR

    def g(r):
        for _ in range(50):
            s = gen_str(r)
            if not mild or needs_quote(s) or ('#' not in s and '\r' not in s):
                return s
        return 'x'
    header = distinct(rng, ncols, set(), gen=g)
    cols = []
    for _ in range(ncols):
        kind = rng.choices(['str', 'cat', 'f64', 'f32', 'none'], weights=[45, 25, 15, 8, 7])[0]
        if kind in ('f64', 'f32'):
            vals = []
            for _ in range(nrows):
                x = float(gen_float(rng)[1])
                vals.append(float(np.float32(x)) if kind == 'f32' and abs(x) < 1e30 else x)
            if kind == 'f32' and any(abs(v) >= 1e30 for v in vals):
                kind = 'f64'
            cols.append({'kind': kind, 'values': [v.hex() for v in vals]})
        else:
            vals = [g(rng) for _ in range(nrows)]
            if kind == 'none':
                vals = [None if rng.random() < 0.4 else v for v in vals]
            cols.append({'kind': kind, 'values': vals})
    if ncols == 1 and cols[0]['kind'] in ('str', 'cat') and mild:
        cols[0]['values'] = [v if v.strip(' \t') != '' or v == '' else 'b' + v for v in cols[0]['values']]
    return {'header': header, 'cols': cols, 'nrows': nrows}


def table_cases(ctx):
    import pandas as pd
    rng = ctx.rng
    n = ctx.n(300, 6000)
    scratch = ctx.scratch / 'csvtext'
    scratch.mkdir(exist_ok=True)
    cases = [gen_table(rng) for _ in range(n)]
    # audit 4, A6: a table whose text starts with U+FEFF (excluded by well_shaped: the reader strips it), and the two
    # neighbours that are admitted (the field is quoted; the BOM is not at the start of the text)
    cases += [{'header': ['\ufeffid', 'n'], 'cols': [{'kind': 'str', 'values': ['c']}, {'kind': 'str', 'values': ['a']}], 'nrows': 1},
              {'header': ['\ufeff,id', 'n'], 'cols': [{'kind': 'str', 'values': ['c']}, {'kind': 'str', 'values': ['a']}], 'nrows': 1},
              {'header': ['id', '\ufeffn'], 'cols': [{'kind': 'str', 'values': ['\ufeffc']}, {'kind': 'str', 'values': ['a']}], 'nrows': 1}]
    floats = []
    for case in cases:
        for col in case['cols']:
            if col['kind'] in ('f64', 'f32'):
                floats += [float.fromhex(h) for h in col['values']]
    ftext = {}
    if floats:
        res = ctx.model([(1552, float_parts(x)) for x in floats])
        for x, m in zip(floats, res):
            ftext[float(x).hex()] = dec(m[1][1])
    recs = []
    for i, case in enumerate(cases):
        data = {}
        for name, col in zip(case['header'], case['cols']):
            if col['kind'] == 'f64':
                data[name] = np.array([float.fromhex(h) for h in col['values']], dtype=np.float64)
            elif col['kind'] == 'f32':
                data[name] = np.array([float.fromhex(h) for h in col['values']], dtype=np.float32)
            else:
                data[name] = pd.Series(col['values'], dtype=object)
        df = pd.DataFrame(data, columns=case['header'])
        for name, col in zip(case['header'], case['cols']):
            if col['kind'] == 'cat':
                df[name] = df[name].astype('category')
        path = scratch / f't{i}.csv'
        with warnings.catch_warnings():
            warnings.simplefilter('ignore')
            with open(path, 'w') as dst:                     # as blob_to_csv opens and writes it
                df.to_csv(dst, index=False, float_format='%.4f')
        text = open(path, newline='').read()
        rows = [list(case['header'])]
        for j in range(case['nrows']):
            row = []
            for col in case['cols']:
                v = col['values'][j]
                row.append(ftext[v] if col['kind'] in ('f64', 'f32') else '' if v is None else v)
            rows.append(row)
        user = user_read(path)
        path.unlink()
        for row in rows:
            for f in row:
                for ft in features(f):
                    ctx.dist('field features', ft)
        ctx.dist('table shape', f'{len(case["header"])} cols x {case["nrows"]} rows')
        for col in case['cols']:
            ctx.dist('column kind', col['kind'])
        ctx.count(('t', json.dumps(rows)), nontrivial=len(case['header']) >= 2 and case['nrows'] >= 1
                  and any(needs_quote(f) for row in rows for f in row))
        recs.append({'kind': 'to_csv-table', 'bodies': [], 'rows': rows, 'text': text, 'user': user, 'case': case})
        if i == 0:
            ctx.sample({'table': rows, 'text': text})
    judge_files(ctx, recs)


# ------------------------------------------------------------------ (A-ii) the real blob_to_csv
LEVELS = ['CCN_CLAS', 'CCN_SUBC', 'CCN_CLUS', 'class', 'subclass', 'cluster', 'lvl,1', 'le"vel', 'level two', 'Lévél',
          'L#4', ' lead', 'new\nline', 'division', 'c\rr']
READABLE = ['Class', 'sub,class', 'the "cluster"', 'neighborhood', 'R5', 'R 6', 'R#7', 'supertype']


def gen_blob_case(rng):
    mild = rng.random() < 0.6

    def g(r):
        for _ in range(50):
            s = gen_str(r)
            if s != '' and s.strip() != '' and '\x00' not in s and \
                    (not mild or needs_quote(s) or ('#' not in s and '\r' not in s)):
                return s
        return 'x'
    depth = rng.choice([1, 2, 2, 3])
    pool = [l for l in LEVELS if not mild or needs_quote(l) or ('#' not in l and '\r' not in l)]
    hierarchy = rng.sample(pool, depth)
    nodes = []
    for li in range(depth):
        k = rng.randrange(1, 4) if li == 0 else rng.randrange(len(nodes[-1]), len(nodes[-1]) + 3)
        nodes.append(distinct(rng, k, set(), gen=g))
    data = {'hierarchy': list(hierarchy)}
    for li, level in enumerate(hierarchy):
        if li + 1 < depth:
            kids = list(nodes[li + 1])
            rng.shuffle(kids)
            assign = {p: [] for p in nodes[li]}
            for j, c in enumerate(kids):
                (assign[nodes[li][j]] if j < len(nodes[li]) else assign[rng.choice(nodes[li])]).append(c)
            data[level] = assign
        else:
            data[level] = {n: [] for n in nodes[li]}
    if rng.random() < 0.6:
        nm = {}
        for li, level in enumerate(hierarchy):
            if rng.random() < 0.8:
                nm[level] = {}
                for nd in nodes[li]:
                    if rng.random() < 0.8:
                        e = {}
                        if rng.random() < 0.85:
                            e['name'] = g(rng)
                        if rng.random() < 0.7:
                            e['alias'] = g(rng)
                        nm[level][nd] = e
        data['name_mapper'] = nm
    if rng.random() < 0.4:
        rd = rng.sample([x for x in READABLE if not mild or '#' not in x or needs_quote(x)], depth)
        data['hierarchy_mapper'] = {l: r for l, r in zip(hierarchy, rd) if rng.random() < 0.8}
    ncell = rng.randrange(1, 5)
    ids = distinct(rng, ncell, set(), gen=g)
    ftype = rng.choice(['float', 'float', 'float64', 'float32', 'mixed'])
    results = []
    for cid in ids:
        cell = {'cell_id': cid}
        parent = None
        for li, level in enumerate(hierarchy):
            a = rng.choice(nodes[li]) if parent is None else rng.choice(data[hierarchy[li - 1]][parent] or nodes[li])
            parent = a
            cell[level] = {'assignment': a,
                           'bootstrapping_probability': [ftype, float(gen_float(rng)[1]).hex()],
                           'avg_correlation': [ftype, float(gen_float(rng)[1]).hex()],
                           'runner_up_assignment': [], 'runner_up_correlation': [], 'runner_up_probability': [],
                           'aggregate_probability': [ftype, float(gen_float(rng)[1]).hex()],
                           'directly_assigned': True}
        results.append(cell)
    meta = rng.choice([None, 'out.json', 'my results, v2.json', 'a#b.json', 'r"q".json'])
    return {'tree': data, 'results': results, 'meta_name': meta, 'single_iter': rng.random() < 0.3,
            'flatten_cfg': rng.choice([None, True, False])}


def mk_float(rng_tag, spec, pos):
    ftype, h = spec
    x = float.fromhex(h)
    if ftype == 'mixed':
        ftype = ['float', 'float64', 'float32'][pos % 3]
    if ftype == 'float32' and abs(x) < 1e30:
        return np.float32(x)
    if ftype == 'float64':
        return np.float64(x)
    return x


def blob_cases(ctx):
    import cell_type_mapper
    from cell_type_mapper.utils.output_utils import blob_to_csv
    from cell_type_mapper.taxonomy.taxonomy_tree import TaxonomyTree
    rng = ctx.rng
    n = ctx.n(120, 2500)
    scratch = ctx.scratch / 'csvtext_blob'
    (scratch / 'some' / 'dir').mkdir(parents=True, exist_ok=True)
    cases = [gen_blob_case(rng) for _ in range(n)]
    real_vals = []
    for case in cases:
        # the numbers the formatter receives (after the dtype the record list gives the column)
        pos = 0
        res = []
        for cell in case['results']:
            c = {'cell_id': cell['cell_id']}
            for level in case['tree']['hierarchy']:
                e = dict(cell[level])
                for key in ('bootstrapping_probability', 'avg_correlation', 'aggregate_probability'):
                    e[key] = mk_float(None, e[key], pos)
                    pos += 1
                c[level] = e
            res.append(c)
        real_vals.append(res)
    conf = [('avg_correlation', 'correlation_coefficient') if c['single_iter']
            else ('bootstrapping_probability', 'bootstrapping_probability') for c in cases]
    floats = [float(cell[level][ck]) for case, res, (ck, _) in zip(cases, real_vals, conf) for cell in res
              for level in case['tree']['hierarchy']]
    ftext = {}
    for x, m in zip(floats, ctx.model([(1552, float_parts(x)) for x in floats])):
        ftext[float(x).hex()] = dec(m[1][1])
    recs = []
    composed = []
    for i, (case, res, (ck, cl)) in enumerate(zip(cases, real_vals, conf)):
        data = case['tree']
        hierarchy = data['hierarchy']
        tree = TaxonomyTree(data=copy.deepcopy(data))
        path = scratch / f'b{i}.csv'
        meta = None if case['meta_name'] is None else str(scratch / 'some' / 'dir' / case['meta_name'])
        cfg = None if case['flatten_cfg'] is None else {'flatten': case['flatten_cfg']}
        try:
            with warnings.catch_warnings():
                warnings.simplefilter('ignore')
                blob_to_csv(results_blob=copy.deepcopy(res), taxonomy_tree=tree, output_path=path, confidence_key=ck,
                            confidence_label=cl, metadata_path=meta, config=cfg)
        except Exception as e:      # noqa
            ctx.violation(f'blob_to_csv raised {exc_class(e)}: {str(e)[:200]}',
                          {'class': 'csvtext-blob_to_csv-raised', 'kind': 'blob_to_csv', 'case': case})
            continue
        text = open(path, newline='').read()
        # the table the property describes, built here independently of the implementation
        hm = data.get('hierarchy_mapper', {})
        nm = data.get('name_mapper', {})
        rl = [hm.get(l, l) for l in hierarchy]
        header = ['cell_id']
        for li, r in enumerate(rl):
            header += [f'{r}_label', f'{r}_name'] + ([f'{r}_alias'] if li == len(rl) - 1 else []) + [f'{r}_{cl}']
        rows = [header]
        for cell in res:
            row = [cell['cell_id']]
            for li, level in enumerate(hierarchy):
                a = cell[level]['assignment']
                ent = nm.get(level, {}).get(a, {})
                row += [a, ent.get('name', a)] + ([ent.get('alias', a)] if li == len(rl) - 1 else [])
                row.append(ftext[float(cell[level][ck]).hex()])
            rows.append(row)
        bodies = ([] if case['meta_name'] is None else [f' metadata = {case["meta_name"]}']) + \
            [f' taxonomy hierarchy = {json.dumps(hierarchy)}'] + \
            ([f' readable taxonomy hierarchy = {json.dumps(rl)}'] if rl != hierarchy else []) + \
            [('' if cfg is None else " algorithm: 'correlation';" if cfg['flatten'] else " algorithm: 'hierarchical';")
             + f' codebase: {cell_type_mapper.__repository__}; version: {cell_type_mapper.__version__}']
        user = user_read(path)
        path.unlink()
        for row in rows:
            for f in row:
                for ft in features(f):
                    ctx.dist('field features', ft)
        ctx.dist('blob_to_csv case', f'depth {len(hierarchy)}, name tables {"yes" if nm else "no"}, '
                 f'readable {"yes" if hm else "no"}')
        ctx.dist('confidence dtype', str({type(c[l][ck]).__name__ for c in res for l in hierarchy}))
        ctx.count(('b', json.dumps(rows)), nontrivial=any(needs_quote(f) for row in rows for f in row))
        recs.append({'kind': 'blob_to_csv', 'bodies': bodies, 'rows': rows, 'text': text, 'user': user, 'case': case})
        # the same file against CsvText.blob_to_csv_text (the composition of the record model with the writer)
        c15case = {'tree': data, 'w': 0, 'single_iter': case['single_iter'], 'meta_name': case['meta_name'],
                   'flatten_cfg': case['flatten_cfg'],
                   'results': [{k: (v if k == 'cell_id' else
                                    {kk: (float(vv) if kk in ('bootstrapping_probability', 'avg_correlation',
                                                              'aggregate_probability') else vv)
                                     for kk, vv in v.items()}) for k, v in cell.items()} for cell in res]}
        composed.append((c15case, text, case))
        if i == 0:
            ctx.sample({'blob_to_csv text': text})
    judge_files(ctx, recs)
    from harness.props import c15
    model_in, kept = [], []
    for c15case, text, case in composed:
        names = c15.Names()
        args = c15.csv_model_args(c15case, names)
        call, neg_zero = c15.csv_text_input(c15case, names, args)
        if neg_zero:
            ctx.dist('blob_to_csv file vs blob_to_csv_text', 'skipped: a -0.0 in the blob')
            continue
        model_in.append(call)
        kept.append((text, case))
    for (text, case), m in zip(kept, ctx.model(model_in)):
        if m[0] == 0 and dec(m[1][0]) == text:
            ctx.dist('blob_to_csv file vs blob_to_csv_text', 'byte for byte equal'
                     + (', well_shaped for the comment reader' if m[1][1] and m[1][2] else ''))
        else:
            ctx.violation(f'blob_to_csv: the file differs from CsvText.blob_to_csv_text: real {text!r} model '
                          f'{dec(m[1][0]) if m[0] == 0 else m!r}',
                          {'class': 'corr:CsvText.run_blob_to_csv_text', 'kind': 'blob_to_csv', 'case': case},
                          no_input=True)


# ------------------------------------------------------------------ (C) files larger than one tokenizer chunk
def big_file_cases(ctx):
    import csv
    import cell_type_mapper
    from cell_type_mapper.utils.output_utils import blob_to_csv
    from cell_type_mapper.taxonomy.taxonomy_tree import TaxonomyTree
    scratch = ctx.scratch / 'csvtext_big'
    (scratch / 'some' / 'dir').mkdir(parents=True, exist_ok=True)
    data = {'hierarchy': ['class'], 'class': {'A': [], 'B, b': []}}
    tree = TaxonomyTree(data=copy.deepcopy(data))
    n_cells = 10500
    recs = []
    for kind, fmt in (('unquoted leading blanks', '   cell %06d'), ('quoted leading blanks', '  cell,%06d')):
        ids = [fmt % i for i in range(n_cells)]
        res = [{'cell_id': c, 'class': {'assignment': 'A' if i % 3 else 'B, b', 'bootstrapping_probability': 0.5,
                                        'avg_correlation': 0.25, 'runner_up_assignment': [],
                                        'runner_up_correlation': [], 'runner_up_probability': [],
                                        'aggregate_probability': 0.5, 'directly_assigned': True}}
               for i, c in enumerate(ids)]
        header = ['cell_id', 'class_label', 'class_name', 'class_alias', 'class_bootstrapping_probability']
        rows = [header] + [[c, r['class']['assignment'], r['class']['assignment'], r['class']['assignment'], '0.5000']
                           for c, r in zip(ids, res)]
        path = scratch / 'big.csv'
        pad = 0
        for attempt in range(2):
            # second pass: the metadata file name is lengthened so that the START of a row lies two bytes before the
            # chunk boundary (two of the leading blanks before it, the rest of the cell id after it)
            meta_name = 'o' * (pad + 1) + '.json'
            with warnings.catch_warnings():
                warnings.simplefilter('ignore')
                blob_to_csv(results_blob=copy.deepcopy(res), taxonomy_tree=tree, output_path=path,
                            confidence_key='bootstrapping_probability', confidence_label='bootstrapping_probability',
                            metadata_path=str(scratch / 'some' / 'dir' / meta_name), config=None)
            text = open(path, newline='').read()
            starts, pos = [], text.index('cell_id,')
            for ln in text[pos:].split('\n')[:-1]:
                starts.append(pos)
                pos += len(ln) + 1
            after = [(st, i) for i, st in enumerate(starts) if st >= CHUNK - 2 and i >= 1]
            s0, i0 = after[0]
            if s0 == CHUNK - 2:
                break
            prev_len = starts[i0] - starts[i0 - 1]
            pad += (CHUNK - 2) - (s0 - prev_len)
        assert len(text) > CHUNK and any(st == CHUNK - 2 for st in starts), (len(text), s0)
        user = user_read(path)
        plain = [r for r in csv.reader(io.StringIO(text, newline='')) if not (r and r[0].startswith('#'))]
        path.unlink()
        bodies = [f' metadata = {meta_name}', f' taxonomy hierarchy = {json.dumps(data["hierarchy"])}',
                  f' codebase: {cell_type_mapper.__repository__}; version: {cell_type_mapper.__version__}']
        ctx.count(('big', kind), nontrivial=True)
        ctx.dist('file > 256 KiB', f'{kind}: {len(text)} bytes, a row starts at byte {CHUNK - 2}')
        if plain != rows:
            ctx.violation(f'big file ({kind}): csv.reader does not find the fields in the written file',
                          {'class': 'csv-big-file-text', 'kind': 'big', 'case': kind})
        recs.append({'kind': 'blob_to_csv > 256 KiB, ' + kind, 'bodies': bodies, 'rows': rows, 'text': text,
                     'user': user, 'case': {'big': kind}, 'chunk_case': True})
    # the extracted model recurses over lists of ~300000 code points (List.map / app are not tail recursive in the
    # extraction): give the driver process a larger stack for this one call
    import resource
    soft, hard = resource.getrlimit(resource.RLIMIT_STACK)
    want = 4 << 30
    resource.setrlimit(resource.RLIMIT_STACK, (want if hard == resource.RLIM_INFINITY else min(want, hard), hard))
    try:
        judge_files(ctx, recs)
    finally:
        resource.setrlimit(resource.RLIMIT_STACK, (soft, hard))


def default_reader_observation(ctx):
    """pd.read_csv(path, comment='#') with pandas' defaults type-infers every column: observed, not judged (the
    property speaks of what the CSV holds).  With dtype=str, keep_default_na=False the labels come back verbatim."""
    import pandas as pd
    from cell_type_mapper.utils.output_utils import blob_to_csv
    from cell_type_mapper.taxonomy.taxonomy_tree import TaxonomyTree
    labels = ['NA', '007', 'None', '1e5', 'nan', 'True', 'NULL', '1.50', 'B cell']
    path = ctx.scratch / 'defaults.csv'
    ctx.count(('default-reader',), nontrivial=False)
    for a in labels:       # one file per label: pandas infers the type of a column from all of its values
        data = {'hierarchy': ['class'], 'class': {a: []}}
        res = [{'cell_id': f'c{i}', 'class': {'assignment': a, 'bootstrapping_probability': 0.5, 'avg_correlation': 0.25,
                                              'runner_up_assignment': [], 'runner_up_correlation': [],
                                              'runner_up_probability': [], 'aggregate_probability': 0.5,
                                              'directly_assigned': True}} for i in range(2)]
        with warnings.catch_warnings():
            warnings.simplefilter('ignore')
            blob_to_csv(results_blob=res, taxonomy_tree=TaxonomyTree(data=data), output_path=path,
                        confidence_key='bootstrapping_probability', confidence_label='bootstrapping_probability')
            default = list(pd.read_csv(path, comment='#')['class_label'])
            verbatim = list(pd.read_csv(path, comment='#', dtype=str, keep_default_na=False)['class_label'])
        path.unlink()
        ctx.dist('label read with pandas defaults (not judged)', f'{a!r} -> {default[0]!r}')
        if verbatim != [a, a]:
            ctx.violation(f'read_csv(comment="#", dtype=str, keep_default_na=False) gives {verbatim!r} for {a!r}',
                          {'class': 'csv-readback', 'kind': 'defaults', 'case': a})


# ------------------------------------------------------------------ the reader on arbitrary (malformed) texts
TEXT_ALPHA = ['a', 'b', ' ', '\t', ',', ',', ',', '\n', '\n', '\n', '\r', '#', 'é', "'", '\r\n', '""', '"a"', '"a,b"', '"#"',
              '"', '",', ',"', '"\n"']


def reader_cases(ctx):
    rng = ctx.rng
    n = ctx.n(600, 15000)
    texts = []
    while len(texts) < n:
        t = ''.join(rng.choice(TEXT_ALPHA) for _ in range(rng.randrange(0, 16)))
        if not backtrack_quirk(t):
            texts.append(t)
    res = ctx.model([(1551, [False, enc(t)]) for t in texts] + [(1551, [True, enc(t)]) for t in texts])
    for i, t in enumerate(texts):
        for cm, m in ((None, res[i]), ('#', res[n + i])):
            mod = None if not m[1] else [strip_row([dec(f) for f in row]) for row in m[1][0]]
            real = raw_read(t, cm, 20)
            ctx.dist('arbitrary text', 'EOF inside string' if real is None else 'error' if isinstance(real, tuple)
                     else f'{min(len(real), 4)}{"+" if len(real) > 4 else ""} rows')
            ctx.count(('r', t, cm), nontrivial=bool(real) and real is not None)
            if real != mod:
                ctx.violation(f'pandas tokenizer (comment={cm!r}) on {t!r}: {real!r}, csv_parse: {mod!r}',
                              {'class': 'corr:CsvText.run_csv_parse', 'kind': 'text', 'text': t}, no_input=True)


def run_part(ctx):
    ctx.rule += ('; CSV text: tables of 1-6 columns x 0-6 rows (string / categorical / None / float64 / float32 '
                 'columns) through DataFrame.to_csv as blob_to_csv calls it and taxonomies of depth 1-3 with generated '
                 'node names, aliases, level names, cell ids and metadata file names through the real blob_to_csv; '
                 "names draw from , \" LF CR # blank tab ' ; \\ non-ASCII (BMP and beyond) FF NEL LS, empty, number-like; "
                 '55-60% of the tables avoid an unquoted # / CR (valid stream), the rest do not; arbitrary texts over '
                 'a,b,blank,tab,comma,quote,LF,CR,#,CRLF (malformed stream) for the reader; doubles: uniform, exact '
                 'ties (2k+1)/32 (+ integer), their nextafter neighbours, 0, 1, 1-2^-53, float32-derived, votes/'
                 'iterations, tiny, large (to 2^1023), dyadic sums, negatives and -0.0; non-trivial = table with >= 2 '
                 'columns, >= 1 row and a quoted field / every double / text with >= 1 row')
    ctx.assumptions += [
        'CSV text: code points are valid Unicode scalars without NUL (a surrogate makes the writer raise UnicodeEncodeError; '
        'pandas\' C reader cuts a field at NUL; both are excluded by CsvText.well_shaped); a text that STARTS with U+FEFF is '
        'excluded by CsvText.well_shaped too (bom_ok: read_csv strips a leading byte order mark - driven: the table '
        '[[BOM+id, n], [c, a]] reads back as [[id, n], [c, a]]); the real file always starts with #, so a BOM cannot lead it; '
        'Python 3.12 csv.writer (3.13 quotes CR) and os.linesep == LF',
        'CSV text, LOCALE: blob_to_csv opens the file with open(path, "w") and NO encoding argument, so the bytes on disk are the '
        'locale\'s encoding of the modelled code points; the tie runs under a UTF-8 locale encoding '
        f'(locale.getpreferredencoding(False) = {__import__("locale").getpreferredencoding(False)!r} here) and reads the file back '
        'with the same default; under LC_ALL=C PYTHONUTF8=0 PYTHONCOERCECLOCALE=0 the encoding is ASCII and a non-ASCII node '
        'name / cell id makes the real blob_to_csv raise UnicodeEncodeError (an environment dependence of the real code, not modelled)',
        'CSV text: the reader modelled is the TOKENIZER: read_csv is called with dtype=str, keep_default_na=False on '
        'top of the comment="#" of the example notebooks (docs/output.md names no reader).  With pandas\' defaults '
        'the labels NA / None / nan / NULL come back as NaN, 007 as 7, 1e5 as 100000.0, a column of True/False as '
        'bool: that type inference is chosen by the caller of the reader and says nothing about what the CSV holds '
        '(the text of C15), so it is observed (dist "label read with pandas defaults") and not judged (no F33)',
        'CSV text: a row whose first field (cell id) starts with an UNQUOTED blank / tab is outside well_shaped: '
        'pandas\' tokenizer loses the blanks of such a row that lie before a 262144-byte chunk boundary (F32, shown '
        'on a file > 256 KiB); a file > 256 KiB whose cell ids have QUOTED leading blanks must read back exactly',
        'CSV text: column names are non-empty and pairwise distinct (pandas renames duplicates and empty names on '
        'reading); a ONE-column table whose field is blanks only reads as a blank line (not a shape blob_to_csv '
        'writes: it has >= 3 columns) -- c15_csv_text_roundtrip excludes it',
        'CSV text: the pandas tokenizer re-reads from the previous LF when a non-blank line starts with blanks '
        '(WHITESPACE_LINE backtracking); the model keeps the blanks instead: texts with a bare CR followed on the '
        'same LF-line by a blank/tab are left out of the reader correspondence',
        'CSV text: rows narrower than the widest are padded by read_csv with empty fields: tokenizer rows are '
        'compared after stripping trailing empty fields',
        "'%.4f': finite doubles (NaN / inf are not confidence values)",
    ]
    float_cases(ctx)
    table_cases(ctx)
    blob_cases(ctx)
    reader_cases(ctx)
    big_file_cases(ctx)
    default_reader_observation(ctx)
