"""C07 — mapping is invariant to count scale, declared normalisation, gene order."""
import json

import numpy as np

from harness import pipeline, paired


def run(ctx):
    from cell_type_mapper.cell_by_gene.utils import convert_to_cpm
    rng = ctx.rng
    ctx.rule = ('paired real run_mapping runs on integer raw counts: (a) raw vs the same matrix pre-normalised to log2(CPM+1) '
                'and declared log2CPM (factor 1, 1e-9); (b) every cell multiplied by a power of two (bitwise, any factor) or '
                'by another positive constant (factor 1, 1e-9); (c) gene columns permuted together with their names (bitwise, '
                'any factor); (d) for normalised input, extra non-marker / non-reference genes added or removed (bitwise, any '
                'factor); (e) one negative raw value => the run is rejected; non-trivial = a pair of runs on a tree with a '
                'real choice')
    ctx.assumptions += ['integer counts are used so that row sums are exact in binary64 and permutation is bitwise-neutral']
    n = ctx.n(10, 150)
    for k in range(n):
        sc = pipeline.gen_scenario(rng, max_levels=4, max_leaves=8, n_cells=rng.randrange(2, 8))
        ncell, ng = len(sc.cell_ids), len(sc.query_genes)
        raw = np.array([[float(rng.randrange(0, 40)) for _ in range(ng)] for _ in range(ncell)])
        if rng.random() < 0.3:
            raw[rng.randrange(ncell), :] = 0.0          # an all-zero cell: denominator falls back to 1
        desc = {'kind': 'paired-run', 'tree': sc.tree.data, 'markers': sc.markers, 'cell_ids': sc.cell_ids,
                'raw': raw.tolist(), 'query_genes': sc.query_genes, 'ref_genes': sc.ref_genes,
                'means': {str(a): b for a, b in sc.means.items()}}
        nontrivial = any(len(c) >= 2 for lv in sc.tree.model[:-1] for _, c in lv) or len(sc.tree.model[0]) >= 2

        def pair(name, va, vb, bitwise, kwargs_a, kwargs_b):
            ctx.count(('c07', k, name), nontrivial=nontrivial)
            ctx.dist('relation', name)
            ra = paired.run_once(ctx, sc, f'a{k}_{name}', **kwargs_a, **va)
            rb = paired.run_once(ctx, sc, f'b{k}_{name}', **kwargs_b, **vb)
            dd = dict(desc)
            dd.update({'relation': name, 'config_a': va, 'config_b': vb})
            if not ra['ok'] or not rb['ok']:
                dd['class'] = 'c07-run-raises'
                dd['error'] = ra['error'] or rb['error']
                ctx.violation(f'{name}: a run raised {dd["error"]}', dd)
                return
            a, b = paired.by_cell(ra), paired.by_cell(rb)
            for cid in sc.cell_ids:
                diff = paired.compare_records(a[cid], b[cid], sc.tree.levels, bitwise=bitwise)
                if diff:
                    ctx.disagreements_checked += 1
                    dd['class'] = f'c07-{name}'
                    ctx.violation(f'{name}: cell {cid}: {diff}', dd)
                    return

        # (a) raw vs declared normalised
        v1 = paired.base_var(rng, sc, factor=1.0)
        norm = np.log2(1.0 + convert_to_cpm(raw))
        pair('raw-vs-normalised', v1, v1, False,
             dict(query=raw, normalization='raw'), dict(query=norm, normalization='log2CPM'))
        # (b) scale
        vany = paired.base_var(rng, sc, factor=rng.choice([0.5, 0.75, 1.0]))
        pw = np.array([[2.0 ** rng.randrange(-3, 6)] for _ in range(ncell)])
        pair('scale-pow2', vany, vany, True, dict(query=raw, normalization='raw'), dict(query=raw * pw, normalization='raw'))
        cst = np.array([[rng.choice([3.0, 0.1, 7.5, 1000.0, 1e-3])] for _ in range(ncell)])
        pair('scale-any', v1, v1, False, dict(query=raw, normalization='raw'), dict(query=raw * cst, normalization='raw'))
        # (c) gene permutation
        perm = list(range(ng))
        rng.shuffle(perm)
        pair('gene-permutation', vany, vany, True, dict(query=raw, normalization='raw'),
             dict(query=raw[:, perm], genes=[sc.query_genes[j] for j in perm], normalization='raw'))
        # (d) extra genes, normalised input
        used = set(g for v in sc.markers.values() for g in v)
        removable = [j for j, g in enumerate(sc.query_genes) if g not in used or g not in sc.ref_genes]
        keep = [j for j in range(ng) if j not in set(rng.sample(removable, rng.randrange(0, len(removable) + 1)))]
        extra = [200 + j for j in range(rng.randrange(1, 4))]
        genes2 = [sc.query_genes[j] for j in keep] + extra
        q2 = np.hstack([norm[:, keep], np.array([[rng.randrange(0, 97) / 8.0 for _ in extra] for _ in range(ncell)])])
        order = list(range(len(genes2)))
        rng.shuffle(order)
        pair('extra-genes', vany, vany, True, dict(query=norm, normalization='log2CPM'),
             dict(query=q2[:, order], genes=[genes2[j] for j in order], normalization='log2CPM'))
        # (e) negative raw value
        neg = raw.copy()
        neg[rng.randrange(ncell), rng.randrange(ng)] = -1.0
        ctx.count(('c07', k, 'negative'), nontrivial=True)
        ctx.dist('relation', 'negative-raw')
        r = paired.run_once(ctx, sc, f'n{k}', query=neg, normalization='raw', encoding=rng.choice(['dense', 'csr', 'csc']), **v1)
        if r['ok'] or (r['output'] or {}).get('results'):
            dd = dict(desc)
            dd['class'] = 'c07-negative-accepted'
            dd['negative_query'] = neg.tolist()
            ctx.violation('raw input containing a negative value was mapped instead of rejected', dd)
        if k < 2:
            ctx.sample({'tree': sc.tree.data, 'raw': raw.tolist()[:2], 'config': vany})


def replay(ctx, rec):
    print(json.dumps(rec, indent=1)[:6000])
    return 0
