"""C07 — mapping is invariant to count scale, declared normalisation, gene order.

Two parts:
 * model tie (function level): the real convert_to_cpm / CellByGeneMatrix operations /
   is_data_ge_zero / write_query_markers_to_h5 / assemble_query_data against
   coq/Model/Normalize.v (tags 701-706);
 * paired REAL run_mapping runs (the property's own relational statement on the pipeline)."""
import contextlib
import io
import json
import shutil
import warnings
from fractions import Fraction

import numpy as np

from harness import pipeline, paired, gen, trees
from harness.core import exc_class

M6 = 10 ** 6
# finding F28 (known_findings.json): raw input outside the exact-sum domain, gene columns permuted -> results equal up
# to rounding but NOT bitwise (np.sum over the columns in file order)
F28 = 'F28-raw-permutation-not-bitwise-float-summation-order'
DOMAIN_TEXT = ('row sums (x k) exactly representable in the storage dtype: < 2^24 for float32, < 2^53 for float64; '
               'integer counts')
# on log2(1+v): v perturbed by <= 1e-12 relative moves log2(1+v) by <= 1e-12 * v/(1+v)/ln2 < 1.45e-12
LOG_ABS_TOL = 2e-12
CPM_REL_TOL = Fraction(1, 10 ** 12)


# ------------------------------------------------------------------ exactness of the float computation
def _odd_part_fits(n, bits):
    n = abs(n)
    while n and n % 2 == 0:
        n //= 2
    return n < 2 ** bits


def row_is_exact(row, bits):
    """True iff every float operation of convert_to_cpm on this integer row is exact in a
    binary format with `bits` bits of mantissa: the row sum (all partial sums are integers
    below 2^bits), x / S (the true quotient is a dyadic rational that fits) and (x / S) * 1e6
    (the true product fits).  IEEE division and multiplication are correctly rounded, so an
    exactly representable true result IS the computed result."""
    if sum(abs(x) for x in row) >= 2 ** bits:
        return False
    s = sum(row)
    den = s if s > 0 else 1
    for x in row:
        q = Fraction(x, den)
        if q.denominator & (q.denominator - 1):
            return False
        if not _odd_part_fits(q.numerator, bits):
            return False
        c = q * M6
        if not _odd_part_fits(c.numerator, bits):
            return False
    return True


def composition(rng, total, parts):
    cuts = sorted(rng.randrange(0, total + 1) for _ in range(parts - 1))
    cuts = [0] + cuts + [total]
    return [b - a for a, b in zip(cuts, cuts[1:])]


def gen_row(rng, ng, mode):
    if mode == 'zero':
        return [0] * ng
    if mode == 'dyadic':
        # S = 2^a * o and every entry a multiple of o: x / S = m / 2^a exactly
        a = rng.randrange(0, 11)
        o = rng.choice([1, 1, 1, 3, 5, 7, 15, 25, 125, 1000])
        return [m * o for m in composition(rng, 2 ** a, ng)]
    if mode == 'big':
        return [rng.randrange(0, 10 ** 7) if rng.random() < 0.7 else 0 for _ in range(ng)]
    return [rng.randrange(0, 200) if rng.random() < 0.75 else 0 for _ in range(ng)]


def gen_rows(rng, n_rows, ng, exact_bias):
    rows = []
    for _ in range(n_rows):
        r = rng.random()
        if r < 0.12:
            mode = 'zero'
        elif r < 0.12 + exact_bias:
            mode = 'dyadic'
        elif r < 0.95:
            mode = 'general'
        else:
            mode = 'big'
        rows.append(gen_row(rng, ng, mode))
    return rows


def pick_dtype(rng, rows, allow_int=True):
    """float32 only when the whole computation is exact in 24 bits (the 1e-12 tolerance of
    the general stream is meaningless in single precision)."""
    cands = [np.float64, np.float64]
    if allow_int and all(abs(x) < 2 ** 31 for r in rows for x in r):
        cands += [np.int64, np.int32]
    if all(row_is_exact(r, 24) for r in rows):
        cands += [np.float32, np.float32]
    return rng.choice(cands)


def bits_of(dtype):
    return 24 if np.dtype(dtype) == np.float32 else 53


def check_cpm_value(v, fr, exact):
    """v: the float the implementation produced; fr: the model's exact value."""
    fv = Fraction(float(v))
    if exact:
        return fv == fr
    return abs(fv - fr) <= CPM_REL_TOL * abs(fr)


def check_log_value(v, fr, exact, dtype):
    """v = implementation's log2(1+cpm); fr = the model's exact CPM value.  The model says
    'lg of the value fr'; lg is numpy's log2(1 + .) in the implementation's float type."""
    if exact:
        t = np.float32 if np.dtype(dtype) == np.float32 else np.float64
        x = t(fr.numerator / fr.denominator)        # exact: fr is representable (row_is_exact)
        assert Fraction(float(x)) == fr
        return float(v) == float(np.log2(t(1.0) + x))
    return abs(float(v) - float(np.log2(1.0 + float(fr)))) <= LOG_ABS_TOL


def frac_of(pair):
    return Fraction(pair[0], pair[1])


ERR_PATTERNS = [
    ('occurs more than once in selected_genes', 6),
    ('has been downsampled by genes', 5),
    ('already is not raw', 4),
    ('gene_identifiers, but data has', 2),
    ('appear more than once', 3),
    ('Do not know how to handle normalization', 9),
]


def err_code(e):
    if isinstance(e, KeyError):
        return 7
    if isinstance(e, IndexError):
        return 8
    if isinstance(e, RuntimeError):
        for pat, code in ERR_PATTERNS:
            if pat in str(e):
                return code
    return 99


def gname(i):
    return pipeline.gname(i)


def gnum(s):
    return int(s[1:])


# ------------------------------------------------------------------ stream A: convert_to_cpm
def cpm_cases(ctx):
    from cell_type_mapper.cell_by_gene.utils import convert_to_cpm
    rng = ctx.rng
    n = ctx.n(300, 6000)
    mats, cases = [], []
    for _ in range(n):
        ng = rng.choice([1, 1, 2, 3, 4, 5, 8, 13])
        rows = gen_rows(rng, rng.randrange(1, 6), ng, exact_bias=0.45)
        if rng.random() < 0.1:
            # negative entries: convert_to_cpm itself is total (the rejection happens upstream)
            i, j = rng.randrange(len(rows)), rng.randrange(ng)
            rows[i][j] = -rng.randrange(1, 50)
        dt = pick_dtype(rng, rows)
        mats.append((rows, dt))
        cases.append((701, rows))
    res = ctx.model(cases)
    for (rows, dt), r in zip(mats, res):
        arr = np.array(rows, dtype=dt)
        out = convert_to_cpm(arr)
        bits = bits_of(dt)
        bad = None
        if r[0] != 0 or out.shape != arr.shape:
            bad = f'shape/decoding: model {r[0]}, shapes {out.shape} vs {arr.shape}'
        else:
            for i, row in enumerate(rows):
                ex = row_is_exact(row, bits)
                ctx.count(('cpm', tuple(row), np.dtype(dt).name), nontrivial=(sum(row) > 0 and len(row) > 1))
                ctx.dist('cpm_stream', f'exact-equality({np.dtype(dt).name})' if ex else 'general-rel-1e-12')
                ctx.dist('cpm_row_kind', 'all-zero' if not any(row) else
                         ('single-gene' if len(row) == 1 else ('has-negative' if min(row) < 0 else 'ordinary')))
                for j in range(len(row)):
                    fr = frac_of(r[1][i][j])
                    if fr != Fraction(row[j] * M6, sum(row) if sum(row) > 0 else 1):
                        bad = f'model fraction {r[1][i][j]} is not x*10^6/denom for row {row} entry {j}'
                    elif not check_cpm_value(out[i, j], fr, ex):
                        bad = (f'convert_to_cpm row {row} ({np.dtype(dt).name}) entry {j}: implementation '
                               f'{float(out[i, j])!r}, model {fr} ({"exact" if ex else "1e-12"} comparison)')
                    if bad:
                        break
                if bad:
                    break
        if bad:
            ctx.disagreements_checked += 1
            ctx.violation('convert_to_cpm and its model disagree: ' + bad,
                          {'class': 'corr:Normalize.cpm_row', 'kind': 'convert_to_cpm', 'rows': rows, 'dtype': np.dtype(dt).name, 'model': r,
                           'impl': out.tolist()}, no_input=True)
    ctx.sample({'kind': 'convert_to_cpm', 'rows': mats[0][0], 'dtype': np.dtype(mats[0][1]).name, 'model': res[0]}, limit=6)


# ------------------------------------------------------------------ stream B: CellByGeneMatrix operations
def gen_sel(rng, genes):
    r = rng.random()
    k = rng.randrange(0, len(genes) + 1)
    sel = rng.sample(genes, k)
    if r < 0.12 and sel:
        sel.insert(rng.randrange(len(sel) + 1), rng.choice(sel))           # duplicate
    elif r < 0.24:
        sel.insert(rng.randrange(len(sel) + 1), 900 + rng.randrange(5))    # unknown name
    return sel


NORM_WIRE = {'raw': 0, 'log2CPM': 1}


def wire_ops_of(ops):
    return [[0] if o[0].startswith('log') else [2, o[1]] if o[0] == 'cells' else [1, o[1]] for o in ops]


def apply_real_ops(m, ops):
    for o in ops:
        if o[0] == 'log_inplace':
            m.to_log2CPM_in_place()
        elif o[0] == 'log_new':
            m = m.to_log2CPM()
        elif o[0] == 'down_new':
            m = m.downsample_genes([gname(g) for g in o[1]])
        elif o[0] == 'cells':
            m = m.downsample_cells(list(o[1]))
        else:
            m.downsample_genes_in_place([gname(g) for g in o[1]])
    return m


def ops_cases(ctx):
    from cell_type_mapper.cell_by_gene.cell_by_gene import CellByGeneMatrix
    rng = ctx.rng
    n = ctx.n(400, 8000)
    recs, cases = [], []
    for _ in range(n):
        ng = rng.choice([1, 2, 3, 4, 5, 6])
        genes = rng.sample(range(60), ng)
        rows = gen_rows(rng, rng.randrange(1, 5), ng, exact_bias=0.4)
        dt = pick_dtype(rng, rows)
        norm = rng.choice(['raw', 'raw', 'raw', 'raw', 'log2CPM', 'bogus'])
        names = list(genes)
        r = rng.random()
        if r < 0.06 and ng > 1:
            names[rng.randrange(1, ng)] = names[0]            # duplicate gene identifier
        elif r < 0.12:
            names = names + [77] if rng.random() < 0.5 or ng == 1 else names[:-1]   # wrong number of identifiers
        ops = []
        cur = list(names)
        nrow_cur = len(rows)
        for _k in range(rng.choice([0, 1, 1, 2, 2, 3, 3, 4])):
            r_op = rng.random()
            if r_op < 0.4:
                ops.append([rng.choice(['log_inplace', 'log_new'])])
            elif r_op < 0.55:
                # downsample_cells on a matrix without cell identifiers: integer row indices (non-negative; repeats
                # allowed; sometimes one out of range -> IndexError)
                idx = [rng.randrange(0, max(1, nrow_cur)) for _ in range(rng.randrange(0, 4))] if nrow_cur else []
                if rng.random() < 0.1:
                    idx.insert(rng.randrange(len(idx) + 1), nrow_cur + rng.randrange(0, 2))
                ops.append(['cells', idx])
                nrow_cur = len(idx)
            else:
                sel = gen_sel(rng, cur) if cur else []
                ops.append([rng.choice(['down_new', 'down_inplace']), sel])
                cur = list(sel)
        recs.append((names, rows, dt, norm, ops))
        cases.append((703, [names, rows, NORM_WIRE.get(norm, 5), wire_ops_of(ops)]))
    res = ctx.model(cases)
    for (names, rows, dt, norm, ops), r in zip(recs, res):
        arr = np.array(rows, dtype=dt)
        m = None
        try:
            m = CellByGeneMatrix(data=arr.copy(), gene_identifiers=[gname(g) for g in names], normalization=norm)
            m = apply_real_ops(m, ops)
            obs = ('ok',)
        except Exception as e:       # noqa
            obs = ('err', err_code(e), f'{exc_class(e)}: {e}'[:160])
        desc = {'kind': 'CellByGeneMatrix-ops', 'genes': names, 'rows': rows, 'dtype': np.dtype(dt).name,
                'normalization': norm, 'ops': ops, 'model': r,
                'impl': list(obs[1:]) if obs[0] == 'err' else {
                    'genes': m.gene_identifiers, 'norm': m.normalization, 'down': m._genes_downsampled,
                    'data': np.asarray(m.data).tolist()}}
        normalised = any(o[0].startswith('log') for o in ops)
        guard = obs[0] == 'err' and obs[1] == 5
        ctx.count(('ops', json.dumps([names, rows, norm, ops])),
                  nontrivial=(r[0] == 0 and normalised and any(o[0].startswith('down') for o in ops)) or guard)
        ctx.dist('ops_outcome', 'ok' if r[0] == 0 else f'error{r[1]}' if r[0] == 1 else 'undecodable')
        ctx.dist('ops_shape', '+'.join(o[0].split('_')[0] for o in ops) or 'none')
        bad = None
        if r[0] == 2:
            bad = 'model could not decode the case'
        elif r[0] == 1:
            if obs[0] != 'err':
                bad = f'model rejects (error {r[1]}), implementation accepts'
            elif obs[1] != r[1]:
                bad = f'error kinds differ: implementation {obs[1]} ({obs[2]}), model {r[1]}'
        else:
            if obs[0] != 'ok':
                bad = f'implementation raised {obs[2]}, model accepts'
            else:
                mg, md, mn, mdown = r[1]
                data = np.asarray(m.data)
                if [gnum(g) for g in m.gene_identifiers] != mg:
                    bad = f'gene identifiers {m.gene_identifiers} vs model {mg}'
                elif NORM_WIRE[m.normalization] != mn:
                    bad = f'normalization {m.normalization} vs model {mn}'
                elif bool(m._genes_downsampled) != bool(mdown):
                    bad = f'_genes_downsampled {m._genes_downsampled} vs model {mdown}'
                elif data.shape != (len(md), len(mg)):
                    bad = f'data shape {data.shape} vs model {(len(md), len(mg))}'
                else:
                    bits = bits_of(dt)
                    # the rows of the final matrix, as (row restricted to the genes it had when it was normalised):
                    # replay the selections on the integer rows
                    cur_rows, cur_genes, norm_rows = [list(r_) for r_ in rows], list(names), None
                    for o in ops:
                        if o[0].startswith('log'):
                            norm_rows = [list(r_) for r_ in cur_rows]
                        elif o[0] == 'cells':
                            cur_rows = [cur_rows[i_] for i_ in o[1]]
                            if norm_rows is not None:
                                norm_rows = [norm_rows[i_] for i_ in o[1]]
                        else:
                            cols = [cur_genes.index(g) for g in o[1]]
                            cur_genes = list(o[1])
                            if norm_rows is None:
                                cur_rows = [[r_[c_] for c_ in cols] for r_ in cur_rows]
                    for i, row in enumerate(norm_rows if normalised else cur_rows):
                        ex = row_is_exact(row, bits)
                        if normalised:
                            ctx.dist('log2cpm_stream', f'exact-equality({np.dtype(dt).name})' if ex else 'general-abs-2e-12')
                        for j in range(len(mg)):
                            fr = frac_of(md[i][j])
                            ok = check_log_value(data[i, j], fr, ex, dt) if normalised \
                                else Fraction(float(data[i, j])) == fr
                            if not ok:
                                bad = (f'data[{i},{j}] = {float(data[i, j])!r}; model value {fr}'
                                       f'{" under log2(1+.)" if normalised else ""} ({"exact" if ex else "tolerance"})')
                                break
                        if bad:
                            break
        if bad:
            ctx.disagreements_checked += 1
            desc['class'] = 'corr:Normalize.cbg_ops'
            ctx.violation('CellByGeneMatrix and its model disagree: ' + bad, desc, no_input=True)
        # the property's own statement on the observed behaviour: CPM is never taken over a
        # gene subset
        if obs[0] == 'ok' and normalised:
            first_log = next(i for i, o in enumerate(ops) if o[0].startswith('log'))
            downs = [i for i, o in enumerate(ops[:first_log]) if o[0].startswith('down')]
            if downs:
                if any(o[0] == 'cells' for o in ops[downs[-1] + 1:first_log]):
                    # OBSERVATION (audit 3, A13), not a finding: downsample_cells builds a new matrix through the
                    # constructor and the _genes_downsampled flag is not carried over (the model does the same:
                    # Normalize.downsample_cells_idx); no caller in the mapping pipeline normalises after it
                    ctx.extra['guard_lost_via_downsample_cells'] = ctx.extra.get('guard_lost_via_downsample_cells', 0) + 1
                    ctx.dist('guard', 'lost through downsample_cells (observation)')
                else:
                    desc['class'] = 'c07-normalised-after-downsampling'
                    ctx.violation('a matrix down-selected by gene was normalised (CPM over a subset of genes)', desc)
        if guard:
            ctx.sample({k: desc[k] for k in ('kind', 'genes', 'rows', 'ops', 'model', 'impl')}, limit=8)


def make_cases(ctx):
    """constructor checks (tag 702) incl. unknown normalisation strings."""
    from cell_type_mapper.cell_by_gene.cell_by_gene import CellByGeneMatrix
    rng = ctx.rng
    recs, cases = [], []
    for _ in range(ctx.n(80, 1500)):
        ng = rng.randrange(1, 5)
        genes = rng.sample(range(30), ng)
        if rng.random() < 0.25 and ng > 1:
            genes[-1] = genes[0]
        ncol = ng if rng.random() < 0.75 else rng.choice([ng + 1, max(1, ng - 1)])
        rows = [[rng.randrange(0, 9) for _ in range(ncol)] for _ in range(rng.randrange(1, 4))]
        norm = rng.choice(['raw', 'log2CPM', 'CPM', ''])
        recs.append((genes, rows, norm))
        cases.append((702, [genes, rows, NORM_WIRE.get(norm, 7)]))
    res = ctx.model(cases)
    for (genes, rows, norm), r in zip(recs, res):
        ctx.count(('make', json.dumps([genes, rows, norm])), nontrivial=False)
        try:
            m = CellByGeneMatrix(data=np.array(rows, dtype=float), gene_identifiers=[gname(g) for g in genes],
                                 normalization=norm)
            obs = [0, [[gnum(g) for g in m.gene_identifiers], np.asarray(m.data).astype(int).tolist(),
                       NORM_WIRE[m.normalization], int(bool(m._genes_downsampled))]]
        except Exception as e:      # noqa
            obs = [1, err_code(e)]
        ctx.dist('constructor_outcome', 'ok' if r[0] == 0 else f'error{r[1]}' if r[0] == 1 else 'undecodable')
        if obs != r:
            ctx.disagreements_checked += 1
            ctx.violation(f'CellByGeneMatrix(...) and make_cbg disagree: implementation {obs}, model {r}',
                          {'class': 'corr:Normalize.make_cbg', 'genes': genes, 'rows': rows, 'normalization': norm,
                           'model': r, 'impl': obs}, no_input=True)


# ------------------------------------------------------------------ stream C: prepare_query
def real_prepare(ctx, tag, tt, parents, qnames, refnames, lookup, data, norm, enc, chunk):
    """The calls the mapper makes on the query, in its order: marker cache
    (write_query_markers_to_h5), negative check (is_data_ge_zero), and per chunk the lines of
    election.run_type_assignment_on_h5ad_cpu (CellByGeneMatrix, to_log2CPM_in_place,
    downsample_genes_in_place(all_query_markers)), then matching.assemble_query_data per parent."""
    import h5py
    from cell_type_mapper.cell_by_gene.cell_by_gene import CellByGeneMatrix
    from cell_type_mapper.type_assignment.marker_cache_v2 import write_query_markers_to_h5
    from cell_type_mapper.type_assignment.matching import assemble_query_data
    from cell_type_mapper.validation.utils import is_data_ge_zero
    from cell_type_mapper.anndata_iterator.anndata_iterator import AnnDataRowIterator
    d = ctx.scratch / tag
    d.mkdir()
    with contextlib.redirect_stdout(io.StringIO()):
        return _real_prepare(d, tt, parents, qnames, refnames, lookup, data, norm, enc, chunk,
                             h5py, CellByGeneMatrix, write_query_markers_to_h5, assemble_query_data,
                             is_data_ge_zero, AnnDataRowIterator)


def _real_prepare(d, tt, parents, qnames, refnames, lookup, data, norm, enc, chunk,
                  h5py, CellByGeneMatrix, write_query_markers_to_h5, assemble_query_data,
                  is_data_ge_zero, AnnDataRowIterator):
    try:
        cache = d / 'cache.h5'
        write_query_markers_to_h5(marker_lookup=lookup, reference_gene_names=refnames,
                                  query_gene_names=qnames, output_cache_path=cache)
        q = d / 'q.h5ad'
        with warnings.catch_warnings():
            warnings.simplefilter('ignore')
            gen.write_h5ad(q, data, [f'c{i}' for i in range(data.shape[0])], qnames, encoding=enc)
        if norm == 'raw':
            ge = is_data_ge_zero(h5ad_path=q, layer='X')
            if not ge[0]:
                return ('err', 1, f'minimum {ge[1]}')
        with h5py.File(cache, 'r') as f:
            all_ids = json.loads(f['query_gene_names'][()].decode('utf-8'))
            all_markers = [all_ids[ii] for ii in f['all_query_markers'][()]]
        leaves = list(tt.all_leaves)
        ref = CellByGeneMatrix(
            data=np.arange(len(leaves) * len(refnames), dtype=float).reshape(len(leaves), len(refnames)),
            gene_identifiers=list(refnames), normalization='log2CPM', cell_identifiers=leaves)
        per_parent = [[None, []] for _ in parents]
        (d / 'tmp').mkdir()
        it = AnnDataRowIterator(h5ad_path=q, row_chunk_size=chunk, tmp_dir=d / 'tmp', max_gb=1)
        for ch in it:
            m = CellByGeneMatrix(data=ch[0], gene_identifiers=all_ids, normalization=norm)
            if m.normalization != 'log2CPM':
                m.to_log2CPM_in_place()
            m.downsample_genes_in_place(all_markers)
            for k, p in enumerate(parents):
                r = assemble_query_data(full_query_data=m, mean_profile_matrix=ref, taxonomy_tree=tt,
                                        marker_cache_path=cache, parent_node=p)
                per_parent[k][0] = list(r['query_data'].gene_identifiers)
                per_parent[k][1] += [np.asarray(row) for row in r['query_data'].data]
                if r['query_data'].gene_identifiers != r['reference_data'].gene_identifiers:
                    return ('err', 98, 'query and reference columns are not the same genes')
        del it
        return ('ok', all_markers, per_parent)
    except Exception as e:      # noqa
        return ('err', err_code(e), f'{exc_class(e)}: {e}'[:200])
    finally:
        shutil.rmtree(d, ignore_errors=True)


def same_prepared(a, b):
    """bitwise comparison of two observed results of real_prepare (the per-parent part)."""
    if a[0] != b[0]:
        return f'{a[0]} vs {b[0]} ({a[1:] if a[0] == "err" else b[1:]})'
    if a[0] == 'err':
        return None if a[1] == b[1] else f'error {a[1:]} vs {b[1:]}'
    for (ga, da), (gb, db) in zip(a[2], b[2]):
        if ga != gb:
            return f'columns {ga} vs {gb}'
        if len(da) != len(db) or any(x.tobytes() != y.tobytes() or x.dtype != y.dtype for x, y in zip(da, db)):
            return f'values differ for columns {ga}: {[x.tolist() for x in da]} vs {[y.tolist() for y in db]}'
    return None


def prepare_cases(ctx):
    from cell_type_mapper.taxonomy.taxonomy_tree import TaxonomyTree
    from cell_type_mapper.cell_by_gene.utils import convert_to_cpm
    rng = ctx.rng
    n = ctx.n(50, 1200)
    recs, cases = [], []
    for k in range(n):
        t = trees.random_tree(rng, max_levels=3, max_leaves=6)
        tt = TaxonomyTree(data=t.data)
        parents = tt.all_parents
        n_ref = rng.randrange(3, 10)
        ref = rng.sample(range(40), n_ref)
        qg = [g for g in ref if rng.random() < 0.8] or ref[:1]
        qg += rng.sample(range(100, 140), rng.randrange(0, 4))
        rng.shuffle(qg)
        usable = [g for g in ref if g in qg]
        lookup, lists = {}, []
        unknown = rng.random() < 0.12
        for p in parents:
            key = 'None' if p is None else f'{p[0]}/{p[1]}'
            lst = rng.sample(usable, rng.randrange(0 if rng.random() < 0.15 else 1, len(usable) + 1))
            if unknown and rng.random() < 0.5:
                absent = [g for g in ref if g not in qg]
                if absent:
                    lst.append(rng.choice(absent))       # a marker the query does not have
            lookup[key] = [gname(g) for g in lst]
            lists.append(sorted(lst, key=ref.index))       # reference order
        ncell = rng.randrange(1, 6)
        decl = rng.choice(['raw', 'raw', 'log2CPM'])
        if decl == 'raw':
            rows = gen_rows(rng, ncell, len(qg), exact_bias=0.35)
            if rng.random() < 0.12:
                rows[rng.randrange(ncell)][rng.randrange(len(qg))] = -rng.randrange(1, 9)
            dt = pick_dtype(rng, rows)
            arr = np.array(rows, dtype=dt)
            wire = rows
        else:
            rows = [[rng.randrange(0, 160) for _ in qg] for _ in range(ncell)]
            dt = rng.choice([np.float64, np.float32])
            arr = (np.array(rows, dtype=np.float64) / 8.0).astype(dt)
            wire = [[[x, 8] for x in r] for r in rows]
        enc = rng.choice(['dense', 'csr', 'csc'])
        if enc != 'dense' and not arr.any():
            enc = 'dense'      # a sparse matrix without stored values is C05/C13 territory (finding F2)
        chunk = rng.randrange(1, ncell + 2)
        recs.append(dict(tree=t, tt=tt, parents=parents, ref=ref, qg=qg, lookup=lookup, lists=lists, decl=decl,
                         rows=rows, dt=dt, arr=arr, enc=enc, chunk=chunk))
        cases.append((706, [qg, 0 if decl == 'raw' else 1, wire, lists]))
        cases.append((705, [qg, lists]))
        if decl == 'raw':
            cases.append((704, rows))
    res = iter(ctx.model(cases))
    for k, c in enumerate(recs):
        r = next(res)
        rc = next(res)
        rneg = next(res) if c['decl'] == 'raw' else None
        qnames, refnames = [gname(g) for g in c['qg']], [gname(g) for g in c['ref']]
        obs = real_prepare(ctx, f'fp{k}', c['tt'], c['parents'], qnames, refnames, c['lookup'], c['arr'], c['decl'],
                           c['enc'], c['chunk'])
        desc = {'kind': 'prepare_query', 'tree': c['tree'].data, 'ref_genes': c['ref'], 'query_genes': c['qg'],
                'marker_lookup': c['lookup'], 'lists_reference_order': c['lists'], 'declared': c['decl'],
                'rows(/8 if declared log2CPM)': c['rows'], 'dtype': np.dtype(c['dt']).name, 'encoding': c['enc'],
                'chunk': c['chunk'], 'model': r,
                'impl': list(obs[1:]) if obs[0] == 'err' else [[g, [x.tolist() for x in dd]] for g, dd in obs[2]]}
        nontriv = r[0] == 0 and len(c['parents']) >= 2 and any(len(l) >= 2 for l in c['lists'])
        ctx.count(('prep', k, json.dumps([c['qg'], c['rows'], c['lists']])), nontrivial=nontriv)
        ctx.dist('prepare_outcome', 'ok' if r[0] == 0 else f'error{r[1]}' if r[0] == 1 else 'undecodable')
        ctx.dist('prepare_declared', c['decl'])
        ctx.dist('prepare_encoding', c['enc'])
        bad = None
        if r[0] == 2 or rc[0] == 2:
            bad = 'model could not decode the case'
        elif r[0] == 1:
            if obs[0] != 'err':
                if r[1] == 1:
                    desc['class'] = 'c07-negative-accepted'
                    ctx.violation('raw input containing a negative value was prepared instead of rejected', desc)
                    continue
                bad = f'model rejects (error {r[1]}), implementation accepts'
            elif obs[1] != r[1]:
                bad = f'error kinds differ: implementation {obs[1:]} model {r[1]}'
            elif r[1] == 1 and rneg != [0, 1]:
                bad = f'has_negative {rneg} inconsistent with prepare_query error 1'
        elif obs[0] != 'ok':
            bad = f'implementation raised {obs[1:]}, model accepts'
        else:
            if rc[0] != 0 or [gnum(g) for g in obs[1]] != rc[1]:
                bad = f'all_query_markers {obs[1]} vs model {rc}'
            if rneg is not None and rneg != [0, 0]:
                bad = f'has_negative: model {rneg} but prepare_query accepted'
            bits = bits_of(c['dt'])
            for (gids, dd), lst, mm in zip(obs[2], c['lists'], r[1]):
                if bad:
                    break
                if gids != [gname(g) for g in lst]:
                    bad = f'columns {gids} are not the markers in reference order {lst}'
                    break
                if len(dd) != len(mm):
                    bad = f'{len(dd)} rows vs model {len(mm)}'
                    break
                for i, (vrow, mrow) in enumerate(zip(dd, mm)):
                    ex = c['decl'] != 'raw' or row_is_exact(c['rows'][i], bits)
                    for j in range(len(lst)):
                        fr = frac_of(mrow[j])
                        ok = check_log_value(vrow[j], fr, ex, c['dt']) if c['decl'] == 'raw' \
                            else Fraction(float(vrow[j])) == fr
                        if not ok:
                            bad = f'cell {i} gene {lst[j]}: implementation {float(vrow[j])!r}, model value {fr}'
                            break
                    if bad:
                        break
        if bad:
            ctx.disagreements_checked += 1
            desc['class'] = 'corr:Normalize.prepare_query'
            ctx.violation('query preparation and its model disagree: ' + bad, desc, no_input=True)
            continue
        if k < 3:
            ctx.sample({kk: desc[kk] for kk in ('kind', 'query_genes', 'marker_lookup', 'declared',
                                                  'rows(/8 if declared log2CPM)', 'model')}, limit=12)
        # ---- the property's own statement, on the implementation, at function level (bitwise) ----
        if obs[0] != 'ok':
            continue
        ng = len(c['qg'])
        nrow = c['arr'].shape[0]
        perm = list(range(ng))
        rng.shuffle(perm)
        ctx.dist('function_relation', 'gene-permutation')
        o2 = real_prepare(ctx, f'fq{k}', c['tt'], c['parents'], [qnames[j] for j in perm], refnames, c['lookup'],
                          c['arr'][:, perm], c['decl'], c['enc'], c['chunk'])
        diff = same_prepared(obs, o2)
        if diff:
            dd = dict(desc)
            dd.update({'class': 'c07-fn-gene-permutation', 'perm': perm})
            ctx.violation(f'permuting the gene columns with their names changed the prepared query: {diff}', dd)
        if c['decl'] == 'raw' and np.issubdtype(np.dtype(c['dt']), np.floating):
            ctx.dist('function_relation', 'raw-vs-declared')
            normed = np.log2(1.0 + convert_to_cpm(c['arr']))
            o3 = real_prepare(ctx, f'fr{k}', c['tt'], c['parents'], qnames, refnames, c['lookup'], normed, 'log2CPM',
                              c['enc'] if normed.any() else 'dense', c['chunk'])
            diff = same_prepared(obs, o3)
            if diff:
                dd = dict(desc)
                dd['class'] = 'c07-fn-raw-vs-declared'
                ctx.violation(f'declaring the normalised matrix gave another prepared query: {diff}', dd)
        if c['decl'] == 'raw' and np.dtype(c['dt']) in (np.dtype(np.float64), np.dtype(np.int64)):
            # integer counts times a positive INTEGER factor per cell: k*x and k*S are exact in binary64 (guarded
            # below), IEEE division is correctly rounded, so (k*x)/(k*S) is the same double as x/S: bitwise
            facs = [rng.choice([2, 3, 5, 7, 10, 12, 1000, 12345]) for _ in range(nrow)]
            if all(f * sum(abs(x) for x in row) < 2 ** 53 for f, row in zip(facs, c['rows'])):
                ctx.dist('function_relation', 'scale-integer')
                scaled = c['arr'] * np.array(facs, dtype=c['dt']).reshape(nrow, 1)
                o5 = real_prepare(ctx, f'fs{k}', c['tt'], c['parents'], qnames, refnames, c['lookup'], scaled, 'raw',
                                  c['enc'], c['chunk'])
                diff = same_prepared(obs, o5)
                if diff:
                    dd = dict(desc)
                    dd.update({'class': 'c07-fn-scale-integer', 'factors': facs})
                    ctx.violation(f'multiplying each raw cell by a positive integer changed the prepared query: {diff}', dd)
        if c['decl'] == 'log2CPM':
            ctx.dist('function_relation', 'extra-genes')
            used = set(g for lst in c['lists'] for g in lst)
            keep = [j for j in range(ng) if c['qg'][j] in used or rng.random() < 0.5]
            extra = rng.sample(range(200, 230), rng.randrange(0, 4))
            names2 = [qnames[j] for j in keep] + [gname(g) for g in extra]
            add = (np.array([[rng.randrange(0, 97) for _ in extra] for _ in range(nrow)], dtype=np.float64)
                   .reshape(nrow, len(extra)) / 8.0).astype(c['dt'])
            arr2 = np.hstack([c['arr'][:, keep], add])
            order = list(range(len(names2)))
            rng.shuffle(order)
            if names2:
                o4 = real_prepare(ctx, f'fx{k}', c['tt'], c['parents'], [names2[j] for j in order], refnames, c['lookup'],
                                  arr2[:, order], 'log2CPM', c['enc'] if arr2.any() else 'dense', c['chunk'])
                diff = same_prepared(obs, o4)
                if diff:
                    dd = dict(desc)
                    dd.update({'class': 'c07-fn-extra-genes', 'genes2': [names2[j] for j in order]})
                    ctx.violation(f'adding/removing non-marker genes changed the prepared query: {diff}', dd)


# ------------------------------------------------------------------ stream D: OUTSIDE the exact-sum domain
def big32_rows(rng, n_rows, ng):
    """integer counts, exactly representable in float32 (< 2^24 each), whose row sums exceed 2^24"""
    rows = []
    for _ in range(n_rows):
        while True:
            row = [rng.randrange(0, 2 ** 24) if rng.random() < 0.8 else rng.randrange(0, 50) for _ in range(ng)]
            if sum(row) > 2 ** 24 + 2 ** 20:
                break
        rows.append(row)
    return rows


def real_log2cpm(arr, names):
    from cell_type_mapper.cell_by_gene.cell_by_gene import CellByGeneMatrix
    m = CellByGeneMatrix(data=arr.copy(), gene_identifiers=list(names), normalization='raw')
    m.to_log2CPM_in_place()
    return np.asarray(m.data)


def outside_domain_fn(ctx):
    """The inputs the exact model does NOT describe (audit 3, A3), fed to the real to_log2CPM_in_place, and the
    property's clauses evaluated there:
      (a) float32 integer counts with row sums > 2^24, each cell times an integer: scale clause -- a rounding-level
          change is allowed by the property (counted); anything larger is a violation;
      (b) float64 NON-integer raw values, gene columns permuted;  (c) float32 counts with row sums > 2^24, permuted:
          the permutation clause says 'bitwise unchanged' -- a rounding-level difference is finding F28 (known), anything
          larger is a violation of its own class."""
    rng = ctx.rng
    for k in range(ctx.n(40, 600)):
        ng = rng.choice([3, 4, 6, 9, 12, 20, 40])
        nrow = rng.randrange(1, 6)
        names = [gname(g) for g in range(ng)]
        kind = 'abc'[k % 3]
        ctx.count(('outside', kind, k), nontrivial=True)
        if kind == 'a':
            rows = big32_rows(rng, nrow, ng)
            arr = np.array(rows, dtype=np.float32)
            assert (arr.astype(np.float64) == np.array(rows, dtype=np.float64)).all()
            facs = [rng.choice([3, 5, 7, 101, 999]) for _ in range(nrow)]
            scaled = arr * np.array(facs, dtype=np.float32).reshape(nrow, 1)
            a, b = real_log2cpm(arr, names), real_log2cpm(scaled, names)
            nd = int((a != b).sum())
            md = float(np.abs(a.astype(np.float64) - b.astype(np.float64)).max())
            ctx.dist('outside_domain', 'a float32 sum>2^24 x integer: ' + ('bitwise equal' if nd == 0 else 'rounding-level change (allowed)'))
            if nd:
                ctx.extra['outside_scale_rounding_level_changes'] = ctx.extra.get('outside_scale_rounding_level_changes', 0) + 1
            desc = {'kind': 'outside-domain', 'relation': 'scale-integer-float32-big', 'rows': rows, 'factors': facs,
                    'dtype': 'float32', 'max_abs_delta_log2cpm': md}
            if md > 1e-5:
                desc['class'] = 'c07-outside-domain-scale-beyond-rounding'
                ctx.violation(f'float32 counts times an integer changed log2CPM by {md} (more than rounding)', desc)
            # the model (exact) is still what the float code approximates: single-precision tolerance
            mod = ctx.model([(701, rows)])[0]
            ref = np.array([[np.log2(1.0 + float(frac_of(x))) for x in r] for r in mod[1]])
            if np.abs(a.astype(np.float64) - ref).max() > 1e-5:
                desc['class'] = 'corr:Normalize.cpm_row'
                ctx.violation('float32 log2CPM is not within 1e-5 of the exact model outside the domain', desc, no_input=True)
            continue
        if kind == 'b':
            arr = np.array([[rng.random() * 40.0 if rng.random() < 0.8 else 0.0 for _ in range(ng)] for _ in range(nrow)])
            dtn = 'float64'
            tol = 1e-12
        else:
            rows = big32_rows(rng, nrow, ng)
            arr = np.array(rows, dtype=np.float32)
            dtn = 'float32'
            tol = 1e-5
        perm = list(range(ng))
        rng.shuffle(perm)
        a = real_log2cpm(arr, names)
        b = real_log2cpm(arr[:, perm], [names[j] for j in perm])
        nd = int((a[:, perm] != b).sum())
        md = float(np.abs(a[:, perm].astype(np.float64) - b.astype(np.float64)).max())
        ctx.dist('outside_domain', f'{kind} {dtn} {"non-integer raw" if kind == "b" else "sum>2^24"} permuted: '
                 + ('bitwise equal' if nd == 0 else 'NOT bitwise equal (F28)'))
        if nd:
            desc = {'kind': 'outside-domain', 'relation': 'gene-permutation', 'stream': kind, 'dtype': dtn,
                    'raw': arr.tolist(), 'perm': perm, 'entries_not_bitwise_equal': nd, 'max_abs_delta_log2cpm': md,
                    'class': F28 if md <= tol else 'c07-outside-domain-permutation-beyond-rounding'}
            ctx.violation(f'to_log2CPM_in_place after permuting the gene columns of {dtn} raw data: {nd} entries not bitwise '
                          f'equal (max |delta| {md})', desc)


def outside_domain_runs(ctx):
    """(b), (c) through the REAL run_mapping, bootstrap factor 1: gene columns of raw data permuted with their names."""
    rng = ctx.rng
    for k in range(ctx.n(6, 60)):
        sc = pipeline.gen_scenario(rng, max_levels=3, max_leaves=6, n_cells=rng.randrange(6, 13))
        ncell, ng = len(sc.cell_ids), len(sc.query_genes)
        kind = 'bc'[k % 2] if k % 3 else 'b'
        if kind == 'b':
            raw = np.array([[rng.random() * 40.0 if rng.random() < 0.8 else 0.0 for _ in range(ng)] for _ in range(ncell)])
            dtn = 'float64'
        else:
            raw = np.array(big32_rows(rng, ncell, ng), dtype=np.float32)
            dtn = 'float32'
        v = paired.base_var(rng, sc, factor=1.0)
        perm = list(range(ng))
        rng.shuffle(perm)
        ctx.count(('outside-run', k, kind), nontrivial=True)
        ra = paired.run_once(ctx, sc, f'oa{k}', query=raw, normalization='raw', **v)
        rb = paired.run_once(ctx, sc, f'ob{k}', query=raw[:, perm], genes=[sc.query_genes[j] for j in perm],
                             normalization='raw', **v)
        desc = {'kind': 'paired-run', 'relation': 'gene-permutation-outside-domain', 'stream': kind, 'dtype': dtn,
                'tree': sc.tree.data, 'markers': sc.markers, 'cell_ids': sc.cell_ids, 'raw': raw.tolist(), 'perm': perm,
                'query_genes': sc.query_genes, 'ref_genes': sc.ref_genes,
                'means': {str(a): b for a, b in sc.means.items()}, 'config': v}
        if not ra['ok'] or not rb['ok']:
            desc['class'] = 'c07-run-raises'
            desc['error'] = ra['error'] or rb['error']
            ctx.violation(f'gene-permutation-outside-domain: a run raised {desc["error"]}', desc)
            continue
        a, b = paired.by_cell(ra), paired.by_cell(rb)
        n_vals = n_bits = 0
        worst = 0.0
        other = None
        for j, cid in enumerate(sc.cell_ids):
            # everything but the correlations must be identical (a near-tie vote may flip: excused as elsewhere);
            # correlations within rounding: 1e-9 (float64 data) / 1e-4 (float32 data)
            diff = paired.compare_records(a[cid], b[cid], sc.tree.levels, tol=1e-9 if kind == 'b' else 1e-4, bitwise=False)
            if diff:
                if paired.near_tie_cell(sc, ra['output'], raw[j].astype(np.float64), sc.query_genes, 'raw'):
                    ctx.extra['near_ties_excused'] = ctx.extra.get('near_ties_excused', 0) + 1
                    continue
                other = f'cell {cid}: {diff}'
                break
            for lv in sc.tree.levels:
                x, y = a[cid].get(lv), b[cid].get(lv)
                if x is None:
                    continue
                cx = [x['avg_correlation']] + list(x.get('runner_up_correlation', []))
                cy = [y['avg_correlation']] + list(y.get('runner_up_correlation', []))
                for u, w in zip(cx, cy):
                    n_vals += 1
                    if u != w:
                        n_bits += 1
                        worst = max(worst, abs(u - w))
        if other:
            ctx.disagreements_checked += 1
            desc['class'] = 'c07-gene-permutation-outside-domain-beyond-rounding'
            ctx.violation(f'permuting the gene columns of {dtn} raw data changed the mapping beyond rounding: {other}', desc)
            continue
        ctx.dist('outside_domain_runs', f'{kind} {dtn}: ' + ('all correlations bitwise equal' if n_bits == 0 else
                                                             'correlations NOT bitwise equal, assignments equal (F28)'))
        if n_bits:
            ctx.disagreements_checked += 1
            desc.update({'class': F28, 'correlations_compared': n_vals, 'not_bitwise_equal': n_bits, 'max_abs_delta': worst})
            ctx.violation(f'run_mapping on {dtn} raw data with permuted gene columns: {n_bits}/{n_vals} correlation values not '
                          f'bitwise equal (max |delta| {worst}), assignments and probabilities equal', desc)


def model_tie(ctx):
    cpm_cases(ctx)
    make_cases(ctx)
    ops_cases(ctx)
    prepare_cases(ctx)
    outside_domain_fn(ctx)


TIE_RULE = (
    'MODEL TIE (function level): convert_to_cpm on integer matrices (all-zero rows, single gene, negative entries; '
    'int32/int64/float64, float32 only when exact) vs cpm_row: EXACT equality of the binary value with the model fraction on rows '
    'for which every float operation is exact by construction (row sum = 2^a * o with every entry a multiple of o; decided per row '
    'by row_is_exact), relative 1e-12 otherwise (see distribution cpm_stream); CellByGeneMatrix constructor / '
    'to_log2CPM(_in_place) / downsample_genes(_in_place) sequences (duplicate / unknown / empty selections, bad normalisation '
    'strings, wrong shapes) vs make_cbg / to_log2cpm / downsample_genes incl. the _genes_downsampled guard: identifiers, order, '
    'flags exactly, error kinds through the enum, values exactly (exact stream) or |delta log2(1+v)| <= 2e-12 (distribution '
    'log2cpm_stream); write_query_markers_to_h5 + is_data_ge_zero + AnnDataRowIterator + the CellByGeneMatrix lines of '
    'run_type_assignment_on_h5ad_cpu + assemble_query_data vs marker_cache / has_negative / prepare_query on random trees (<=3 '
    'levels; dense/csr/csc; chunked), each followed by function-level BITWISE relations on the implementation (gene permutation, '
    'raw vs declared-normalised, extra genes, integer counts times a positive integer per cell); OUTSIDE-DOMAIN stream on the real '
    'to_log2CPM_in_place and the real run_mapping (float32 sums > 2^24 scaled / permuted, float64 non-integer raw permuted): '
    'scale = rounding-level change allowed and counted, permutation not bitwise = known finding F28, beyond rounding = violation.  non-trivial = cpm row with >=2 genes and positive sum / operation sequence that '
    'normalises and down-selects or trips the guard / prepare case with >=2 parents and a parent with >=2 markers.  ')


def run(ctx):
    ctx.assumptions += [
        'DOMAIN of the exact model and of theorems (1) scale and (3) gene permutation (raw half): ' + DOMAIN_TEXT +
        '.  The real convert_to_cpm sums each row with np.sum in the storage dtype and in column order; outside this domain '
        'the inputs are GENERATED in a separate stream (outside_domain_fn / outside_domain_runs: (a) float32 integer counts '
        'with row sums > 2^24 times an integer, (b) float64 non-integer raw values with permuted gene columns, (c) float32 '
        'counts with row sums > 2^24 permuted) and the property clauses are evaluated on the real code there: a '
        'rounding-level change under scaling is allowed by the property and counted '
        '(outside_scale_rounding_level_changes); a result that is not bitwise equal after a column permutation contradicts '
        'the property text and is reported through the class of known finding F28; any difference beyond rounding, any '
        'changed assignment (near ties excused) is a violation',
        'model tie: counts are integers (the model rows are Z); float32 inputs in the exact / 1e-12 streams only where the '
        'computation is exact in 24 bits (the outside-domain stream compares float32 with the model at 1e-5)',
        'CellByGeneMatrix operation sequences include downsample_cells with non-negative integer row indices on matrices '
        'without cell identifiers (negative indices, which numpy wraps, are not generated); OBSERVATION, not a finding: '
        'downsample_cells builds a new matrix and drops the _genes_downsampled flag, so downsample_genes -> downsample_cells '
        '-> to_log2CPM is accepted by the real code and by the model alike (counted: guard_lost_via_downsample_cells); no '
        'caller in the mapping pipeline does this',
        'model tie: log2(1+.) is not modelled: the model returns the exact CPM value and the harness applies numpy.log2(1+.) to it',
        'model tie: the three CellByGeneMatrix lines of election.run_type_assignment_on_h5ad_cpu are replicated by the harness '
        '(real_prepare); the real lines themselves run in the paired run_mapping runs',
        'model tie: duplicate query gene names and sparse matrices without stored values are not generated for prepare_query '
        '(constructor stream covers duplicates; empty sparse matrices are C05/C13, finding F2)',
        'markers absent from the reference are not generated (C08)',
    ]
    model_tie(ctx)
    paired_runs(ctx)
    outside_domain_runs(ctx)


def paired_runs(ctx):
    from cell_type_mapper.cell_by_gene.utils import convert_to_cpm
    rng = ctx.rng
    ctx.rule = TIE_RULE + (
                'PAIRED REAL RUNS: '
                'paired real run_mapping runs on integer raw counts: (a) raw vs the same matrix pre-normalised to log2(CPM+1) '
                'and declared log2CPM (factor 1, 1e-9); (b) every cell multiplied by a power of two (bitwise, any factor) or '
                'by another positive constant (factor 1, 1e-9); (c) gene columns permuted together with their names (bitwise, '
                'any factor); (d) for normalised input, extra non-marker / non-reference genes added or removed (bitwise, any '
                'factor); (e) one negative raw value => the run is rejected; non-trivial = a pair of runs on a tree with a '
                'real choice')
    ctx.assumptions += ['paired runs (a)-(e): integer counts are used so that row sums are exact in binary64 and permutation is '
                        'bitwise-neutral (' + DOMAIN_TEXT + '); the complementary inputs are in outside_domain_runs']
    ctx.assumptions += [
        'scale relation: the Coq theorems (c07_scale_invariant, c07_scale_invariant_rational(_matrix), *_vote) are over integer '
        'raw counts (Z) and integer factors, or a rational factor b/a between two integer matrices; the real code takes any '
        'numeric dtype.  Checked BITWISE: integer raw counts times a positive integer per cell (function level, float64/int64, '
        'products below 2^53) and times a power of two per cell (paired runs, any bootstrap factor).  For a non-integer '
        'factor (paired runs use 0.1, 7.5, 1e-3; measured separately: 0.3, 1.7) or non-integer raw values, float rounding '
        'changes log2CPM in the last bits (measured on CellByGeneMatrix.to_log2CPM_in_place: max |delta| 3.6e-15, relative '
        '2.2e-16; about 70% of 3-cell test matrices differ in at least one bit), which the property (a statement about the MAPPING '
        'under a change of count scale, quantified at bootstrap factor 1 for the relations that perturb floating-point '
        'values) does not forbid and this check does not claim to be bitwise: those pairs are compared at bootstrap '
        'factor 1 with tolerance 1e-9 on the reported numbers and the same assignments, a flipped near-tie vote being '
        'excused and counted (near_ties_excused); non-integer RAW values are generated only in the outside-domain streams',
    ]
    n = ctx.n(10, 150)
    for k in range(n):
        sc = pipeline.gen_scenario(rng, max_levels=4, max_leaves=8, n_cells=rng.randrange(2, 8))
        ncell, ng = len(sc.cell_ids), len(sc.query_genes)
        raw = np.array([[float(rng.randrange(0, 40)) for _ in range(ng)] for _ in range(ncell)])
        if rng.random() < 0.3:
            raw[rng.randrange(ncell), :] = 0.0          # an all-zero cell: denominator falls back to 1
        desc = {'kind': 'paired-run', 'tree': sc.tree.data, 'markers': sc.markers, 'cell_ids': sc.cell_ids,
                'raw': raw.tolist(), 'query_genes': sc.query_genes, 'ref_genes': sc.ref_genes,
                'means': {str(a): b for a, b in sc.means.items()}}
        nontrivial = any(len(c) >= 2 for lv in sc.tree.model[:-1] for _, c in lv) or len(sc.tree.model[0]) >= 2

        def pair(name, va, vb, bitwise, kwargs_a, kwargs_b):
            ctx.count(('c07', k, name), nontrivial=nontrivial)
            ctx.dist('relation', name)
            ra = paired.run_once(ctx, sc, f'a{k}_{name}', **kwargs_a, **va)
            rb = paired.run_once(ctx, sc, f'b{k}_{name}', **kwargs_b, **vb)
            dd = dict(desc)
            dd.update({'relation': name, 'config_a': va, 'config_b': vb})
            if not ra['ok'] or not rb['ok']:
                dd['class'] = 'c07-run-raises'
                dd['error'] = ra['error'] or rb['error']
                ctx.violation(f'{name}: a run raised {dd["error"]}', dd)
                return
            a, b = paired.by_cell(ra), paired.by_cell(rb)
            for cid in sc.cell_ids:
                diff = paired.compare_records(a[cid], b[cid], sc.tree.levels, bitwise=bitwise)
                if diff and not bitwise:
                    # relations that perturb the floats (non-power-of-two scaling, normalising in the harness):
                    # a vote that is a near tie (within 1e-9) may legitimately flip; excused and counted
                    j = sc.cell_ids.index(cid)
                    if paired.near_tie_cell(sc, ra['output'], raw[j], sc.query_genes, 'raw'):
                        ctx.extra['near_ties_excused'] = ctx.extra.get('near_ties_excused', 0) + 1
                        continue
                if diff:
                    ctx.disagreements_checked += 1
                    dd['class'] = f'c07-{name}'
                    ctx.violation(f'{name}: cell {cid}: {diff}', dd)
                    return

        # (a) raw vs declared normalised
        v1 = paired.base_var(rng, sc, factor=1.0)
        norm = np.log2(1.0 + convert_to_cpm(raw))
        pair('raw-vs-normalised', v1, v1, False,
             dict(query=raw, normalization='raw'), dict(query=norm, normalization='log2CPM'))
        # (b) scale
        vany = paired.base_var(rng, sc, factor=rng.choice([0.5, 0.75, 1.0]))
        pw = np.array([[2.0 ** rng.randrange(-3, 6)] for _ in range(ncell)])
        pair('scale-pow2', vany, vany, True, dict(query=raw, normalization='raw'), dict(query=raw * pw, normalization='raw'))
        cst = np.array([[rng.choice([3.0, 0.1, 7.5, 1000.0, 1e-3])] for _ in range(ncell)])
        pair('scale-any', v1, v1, False, dict(query=raw, normalization='raw'), dict(query=raw * cst, normalization='raw'))
        # (c) gene permutation
        perm = list(range(ng))
        rng.shuffle(perm)
        pair('gene-permutation', vany, vany, True, dict(query=raw, normalization='raw'),
             dict(query=raw[:, perm], genes=[sc.query_genes[j] for j in perm], normalization='raw'))
        # (d) extra genes, normalised input
        used = set(g for v in sc.markers.values() for g in v)
        removable = [j for j, g in enumerate(sc.query_genes) if g not in used or g not in sc.ref_genes]
        keep = [j for j in range(ng) if j not in set(rng.sample(removable, rng.randrange(0, len(removable) + 1)))]
        extra = [200 + j for j in range(rng.randrange(1, 4))]
        genes2 = [sc.query_genes[j] for j in keep] + extra
        q2 = np.hstack([norm[:, keep], np.array([[rng.randrange(0, 97) / 8.0 for _ in extra] for _ in range(ncell)])])
        order = list(range(len(genes2)))
        rng.shuffle(order)
        pair('extra-genes', vany, vany, True, dict(query=norm, normalization='log2CPM'),
             dict(query=q2[:, order], genes=[genes2[j] for j in order], normalization='log2CPM'))
        # (d') the same relation under a very small memory budget, many cells, a chunk size larger than the query and
        # many extra genes: the chunking (hence the per-chunk generator) must not depend on the width of the file
        if k % 3 == 0:
            sc2 = pipeline.gen_scenario(rng, max_levels=3, max_leaves=6, n_cells=rng.randrange(12, 21))
            used2 = set(g for v in sc2.markers.values() for g in v)
            q0 = np.array([[rng.randrange(0, 97) / 8.0 for _ in sc2.query_genes] for _ in sc2.cell_ids])
            extra2 = [300 + j for j in range(rng.randrange(25, 45))]
            genes_b = list(sc2.query_genes) + extra2
            qb = np.hstack([q0, np.array([[rng.randrange(0, 97) / 8.0 for _ in extra2] for _ in sc2.cell_ids])])
            vsm = paired.base_var(rng, sc2, factor=0.5)
            vsm.update(chunk_size=50, n_processors=2, bootstrap_iteration=5, max_gb=rng.choice([2e-6, 1e-6, 5e-7]))
            ctx.count(('c07', k, 'extra-genes-small-budget'), nontrivial=True)
            ctx.dist('relation', 'extra-genes-small-budget')
            ra = paired.run_once(ctx, sc2, f'sa{k}', query=q0, normalization='log2CPM', **vsm)
            rb = paired.run_once(ctx, sc2, f'sb{k}', query=qb, genes=genes_b, normalization='log2CPM', **vsm)
            dd = {'kind': 'paired-run', 'relation': 'extra-genes-small-budget', 'tree': sc2.tree.data, 'markers': sc2.markers,
                  'cell_ids': sc2.cell_ids, 'query': q0.tolist(), 'query_genes': sc2.query_genes, 'extra_genes': extra2,
                  'ref_genes': sc2.ref_genes, 'means': {str(a): b for a, b in sc2.means.items()}, 'config': vsm}
            if not ra['ok'] or not rb['ok']:
                dd['class'] = 'c07-run-raises'
                dd['error'] = ra['error'] or rb['error']
                ctx.violation(f'extra-genes-small-budget: a run raised {dd["error"]}', dd)
            else:
                a, b = paired.by_cell(ra), paired.by_cell(rb)
                for cid in sc2.cell_ids:
                    diff = paired.compare_records(a[cid], b[cid], sc2.tree.levels, bitwise=True)
                    if diff:
                        ctx.disagreements_checked += 1
                        dd['class'] = 'c07-extra-genes-small-budget'
                        ctx.violation(f'extra genes under a small memory budget: cell {cid}: {diff}', dd)
                        break
        # (e) negative raw value
        neg = raw.copy()
        if rng.random() < 0.5:
            neg[rng.randrange(ncell), rng.randrange(ng)] = -1.0
            enc_neg, chunks_neg = rng.choice(['dense', 'csr', 'csc']), rng.choice([None, None, 1, 2, 3])
        else:
            # a chunked dense file scanned in several blocks, the negative value sitting in a block that also
            # holds a new running maximum (the last column grows down the rows)
            for i in range(ncell):
                neg[i, ng - 1] = 1000.0 + 10.0 * i
            neg[rng.randrange(ncell), ng - 1] = -1.0
            enc_neg, chunks_neg = 'dense', rng.choice([1, 2])
        ctx.count(('c07', k, 'negative'), nontrivial=True)
        ctx.dist('relation', 'negative-raw')
        ctx.dist('negative_layout', f'{enc_neg} chunks={chunks_neg}')
        r = paired.run_once(ctx, sc, f'n{k}', query=neg, normalization='raw', encoding=enc_neg, h5_chunks=chunks_neg, **v1)
        if r['ok'] or (r['output'] or {}).get('results'):
            dd = dict(desc)
            dd['class'] = 'c07-negative-accepted'
            dd['negative_query'] = neg.tolist()
            ctx.violation('raw input containing a negative value was mapped instead of rejected', dd)
        # (e') the same verdicts when the file is REPLACED at the same path between two runs of one process
        # (no scratch directory, so the path string reaches the scan unchanged): clean then negative -> the second
        # run is rejected; negative then clean -> the second run succeeds
        if k % 2 == 0:
            first_clean = rng.random() < 0.7
            steps = [dict(query=raw, normalization='raw', encoding=rng.choice(['dense', 'csr', 'csc'])),
                     dict(query=neg, normalization='raw', encoding=enc_neg, chunks=chunks_neg)]
            if not first_clean:
                steps.reverse()
            hist = paired.run_history_same_path(ctx, sc, f'nh{k}', steps, **v1)
            ctx.count(('c07', k, 'negative-history'), nontrivial=True)
            ctx.dist('relation', 'negative-raw-after-' + ('clean' if first_clean else 'negative') + '-run-on-the-same-path')
            neg_res, clean_res = (hist[1], hist[0]) if first_clean else (hist[0], hist[1])
            dd = dict(desc)
            dd['negative_query'] = neg.tolist()
            dd['order'] = 'clean, then negative' if first_clean else 'negative, then clean'
            if neg_res['ok'] or (neg_res['output'] or {}).get('results'):
                dd['class'] = 'c07-negative-accepted'
                ctx.violation(f'two runs on one path in one process ({dd["order"]}): raw input containing a negative '
                              'value was mapped instead of rejected', dd)
            elif not clean_res['ok']:
                dd['class'] = 'c07-run-raises'
                dd['error'] = clean_res['error']
                ctx.violation(f'two runs on one path in one process ({dd["order"]}): the run on the non-negative file '
                              f'raised {clean_res["error"]}', dd)
        if k < 2:
            ctx.sample({'tree': sc.tree.data, 'raw': raw.tolist()[:2], 'config': vany})


def replay(ctx, rec):
    """Re-run one recorded case through implementation and model and print both."""
    kind = rec.get('kind')
    print(json.dumps({k: v for k, v in rec.items() if k not in ('model', 'impl')}, indent=1)[:6000])
    if kind is None and 'rows' in rec and 'dtype' in rec and 'ops' not in rec:
        kind = 'convert_to_cpm'
    if kind == 'convert_to_cpm':
        from cell_type_mapper.cell_by_gene.utils import convert_to_cpm
        out = convert_to_cpm(np.array(rec['rows'], dtype=np.dtype(rec['dtype'])))
        mod = ctx.model([(701, rec['rows'])])[0]
        print('implementation:', [[repr(float(v)) for v in row] for row in out])
        print('model (num den):', mod)
        bad = 0
        for i, row in enumerate(rec['rows']):
            ex = row_is_exact(row, bits_of(rec['dtype']))
            for j in range(len(row)):
                okv = check_cpm_value(out[i, j], frac_of(mod[1][i][j]), ex)
                bad += not okv
                print(f'  row {i} entry {j}: {"exact" if ex else "1e-12"} comparison -> {"agree" if okv else "DISAGREE"}')
        return 1 if bad else 0
    if kind == 'CellByGeneMatrix-ops':
        from cell_type_mapper.cell_by_gene.cell_by_gene import CellByGeneMatrix
        ops = rec['ops']
        mod = ctx.model([(703, [rec['genes'], rec['rows'], NORM_WIRE.get(rec['normalization'], 5), wire_ops_of(ops)])])[0]
        try:
            m = CellByGeneMatrix(data=np.array(rec['rows'], dtype=np.dtype(rec['dtype'])),
                                 gene_identifiers=[gname(g) for g in rec['genes']], normalization=rec['normalization'])
            m = apply_real_ops(m, ops)
            print('implementation: genes', m.gene_identifiers, 'normalization', m.normalization, 'downsampled',
                  m._genes_downsampled, 'data', np.asarray(m.data).tolist())
            impl_ok = True
        except Exception as e:      # noqa
            print('implementation raised', err_code(e), f'{exc_class(e)}: {e}')
            impl_ok = False
        print('model:', mod, '(data are exact CPM values num/den; log2(1+.) is applied by the harness)')
        return 0 if impl_ok == (mod[0] == 0) else 1
    if kind == 'prepare_query':
        from cell_type_mapper.taxonomy.taxonomy_tree import TaxonomyTree
        tt = TaxonomyTree(data=rec['tree'])
        rows = rec['rows(/8 if declared log2CPM)']
        dt = np.dtype(rec['dtype'])
        if rec['declared'] == 'raw':
            arr, wire = np.array(rows, dtype=dt), rows
        else:
            arr, wire = (np.array(rows, dtype=np.float64) / 8.0).astype(dt), [[[x, 8] for x in r] for r in rows]
        mod = ctx.model([(706, [rec['query_genes'], 0 if rec['declared'] == 'raw' else 1, wire, rec['lists_reference_order']])])[0]
        obs = real_prepare(ctx, 'replay', tt, tt.all_parents, [gname(g) for g in rec['query_genes']],
                           [gname(g) for g in rec['ref_genes']], rec['marker_lookup'], arr, rec['declared'],
                           rec['encoding'], rec['chunk'])
        print('implementation:', obs[1:] if obs[0] == 'err' else [[g, [x.tolist() for x in dd]] for g, dd in obs[2]])
        print('model:', mod, '(raw input: exact CPM values num/den, log2(1+.) applied by the harness)')
        return 0 if (obs[0] == 'ok') == (mod[0] == 0) else 1
    if kind == 'outside-domain' and rec.get('relation') == 'gene-permutation':
        arr = np.array(rec['raw'], dtype=np.dtype(rec['dtype']))
        perm = rec['perm']
        names = [gname(g) for g in range(arr.shape[1])]
        a = real_log2cpm(arr, names)
        b = real_log2cpm(arr[:, perm], [names[j] for j in perm])
        nd = int((a[:, perm] != b).sum())
        print(f'to_log2CPM_in_place on the raw matrix and on its column permutation {perm}: {nd} entries not bitwise equal, '
              f'max |delta| {float(np.abs(a[:, perm].astype(np.float64) - b.astype(np.float64)).max())!r}')
        print('row sums in file order:', arr.sum(axis=1).tolist(), ' permuted:', arr[:, perm].sum(axis=1).tolist())
        return 1 if nd else 0
    print('paired real runs are replayed by re-running the two configurations printed above through '
          'harness.paired.run_once (tree, markers, raw matrix and both configurations are in the record)')
    return 0
