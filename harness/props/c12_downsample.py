"""C12, part "downsample": the table of a non-behemoth parent, the per-parent entry of the pipeline and
the tie-break the code really uses (additions at the end of Model/Selection.v, tags 1260-1263).

(A) MarkerGeneArray.downsample_pairs_to_other(only_keep_pairs=leaves_to_compare(parent)) on the array
    thinned to the query genes, against Selection.downsample_pairs (tag 1260): gene names, the new
    pair lookup (which key sits at which local number), the by-pair rows of every local pair,
    _get_taxonomy_idx on the new array; the by-gene view of the real array must agree with its by-pair
    view.
(B) select_all_markers (workers 1..3, behemoth cut-offs {0, 1, huge}, random override tables) against
    Selection.select_parent with this_n_per = n_per_for default override parent (tag 1261), for EVERY
    parent, those without a pair to discriminate included (the short-circuit) and queries without any
    reference gene (RuntimeError) included.  The rule handed to select_parent reads the next gene off
    the list the implementation returned; the model must finish with exactly that list.
(C) the rule itself: the history (was the list re-sorted, utility array, chosen genes) along the run the
    implementation made is computed by the model (tag 1262); np.argsort - the real numpy, on an int64
    array as in the code - of every array on which the code re-sorted is handed to the model as a
    table, and select_with (pick_pop table) (tag 1263) must return the implementation's list, gene by
    gene: the pops of the possibly stale sorted_utility_idx are what the model says they are.
(D) _run_selection on an empty taxonomy_idx_array raises (ValueError): the [] of a parent without pairs
    comes from the short-circuit only.
(E) genes_at_a_time = k in {2, 3, 5} (audit 3, A10; additions at the end of Model/SelectionK.v, tags
    1264-1266): every parent with pairs is run through the real select_marker_genes_v2 twice - on its
    downsampled array and as a behemoth on the full array - with the batches recorded (wrapper of
    c12_batch.py).  The model computes the history along both recorded runs (tag 1264); the real
    np.argsort of every array on which the code re-sorted is handed back as a table; select_with_k
    (pick_pop table) (tag 1265) must reproduce both real lists gene by gene, and select_parent_k
    (tag 1266: the per-parent entry, behemoth and not, same rule) must give the two real lists as well.
    Property on the observed lists (c12_batch_threshold_irrelevant): the genes popped in the loop are
    the same sequence in both runs, the desperate prefixes are permutations of each other."""
import json
import warnings

import numpy as np

from harness.core import exc_class

HUGE = 10 ** 9


def _names_to_idx(names, selected):
    pos = {g: i for i, g in enumerate(names)}
    return [pos.get(g, 10 ** 6) for g in selected]


def _viol(ctx, cls, msg, desc, prop=False):
    d = dict(desc)
    d['class'] = cls
    ctx.disagreements_checked += 1
    if prop:
        ctx.violation(f'C12 (downsample part) fails on a generated case: {msg}'[:700], d)
    else:
        ctx.violation(f'model and implementation disagree ({cls}): {msg}'[:700], d, no_input=True)


def _is_argsort(u, order):
    """the hypothesis is_argsort of c12_numpy_rule_is_legal, on one array: a permutation of the indices with
    non-decreasing values"""
    return sorted(order) == list(range(len(u))) and all(u[a] <= u[b] for a, b in zip(order, order[1:]))


def _world_desc(base, world, **kw):
    w = dict(world)
    if w.get('override') is not None:
        w['override'] = [[('None' if k is None else list(k)), v] for k, v in w['override'].items()]
    d = {'kind': 'downsample', 'world': w}
    d.update(kw)
    return d


# ------------------------------------------------------------------ (A) + (C): function level
def function_part(ctx, base, worlds):
    from cell_type_mapper.marker_selection.marker_array import MarkerGeneArray
    from cell_type_mapper.marker_selection.selection import select_marker_genes_v2, _get_taxonomy_idx
    recs = []
    for world, tree, ref in worlds:
        rn = base.Renaming(world)
        leaf_level = world['tree']['hierarchy'][-1]
        overlap = bool(set(world['genes']) & set(world['query']))
        for parent in tree.all_parents:
            leaves = tree.leaves_to_compare(parent)
            if not leaves:
                continue
            n_per = world['n_per_utility']
            if world['override'] and parent in world['override']:
                n_per = world['override'][parent]
            obs = {'n_per': n_per}
            try:
                with warnings.catch_warnings():
                    warnings.simplefilter('ignore')
                    arr = MarkerGeneArray.from_cache_path(cache_path=ref, query_gene_names=list(world['query']))
                    ds = arr.downsample_pairs_to_other(only_keep_pairs=leaves)
                    obs['genes'] = [str(g) for g in ds.gene_names]
                    obs['n_pairs'] = int(ds.n_pairs)
                    look = ds.taxonomy_pair_to_idx
                    keys = {}
                    for lv in look:
                        for a in look[lv]:
                            for b, k in look[lv][a].items():
                                keys[int(k)] = (lv, a, b)
                    obs['keys'] = [list(keys.get(k, ('?', '?', '?'))) for k in range(obs['n_pairs'])]
                    obs['tables'] = [[sorted(int(v) for v in ds.down_by_pair.get_genes_for_pair(k)),
                                      sorted(int(v) for v in ds.up_by_pair.get_genes_for_pair(k))]
                                     for k in range(obs['n_pairs'])]
                    by_gene = [[[], []] for _ in range(obs['n_pairs'])]
                    for g in range(len(obs['genes'])):
                        for k in ds.down_by_gene.get_pairs_for_gene(g):
                            by_gene[int(k)][0].append(g)
                        for k in ds.up_by_gene.get_pairs_for_gene(g):
                            by_gene[int(k)][1].append(g)
                    obs['by_gene'] = [[sorted(a), sorted(b)] for a, b in by_gene]
                    obs['idx'] = [int(i) for i in _get_taxonomy_idx(taxonomy_tree=tree, parent_node=parent,
                                                                    marker_gene_array=ds)]
                    res = select_marker_genes_v2(marker_gene_array=ds, query_gene_names=list(world['query']),
                                                 taxonomy_tree=tree, parent_node=parent, n_per_utility=n_per)
                    obs['selected'] = [str(g) for g in res]
                    # the same parent as a behemoth (full table, global pair numbers)
                    arr2 = MarkerGeneArray.from_cache_path(cache_path=ref, query_gene_names=list(world['query']))
                    res2 = select_marker_genes_v2(marker_gene_array=arr2, query_gene_names=list(world['query']),
                                                  taxonomy_tree=tree, parent_node=parent, n_per_utility=n_per)
                    obs['selected_behemoth'] = [str(g) for g in res2]
                obs['ok'] = True
            except Exception as e:
                obs['ok'] = False
                obs['msg'] = f'{exc_class(e)}: {e}'[:300]
            recs.append((world, rn, tree, parent, leaf_level, overlap, obs))
    first = ctx.model([(1260, [rn.refmarkers(w), [rn.gene[g] for g in w['query']], rn.tree_sx(w['tree']), rn.parent(p)])
                       for w, rn, t, p, ll, ov, o in recs])
    second, where = [], []
    for i, ((w, rn, t, p, ll, ov, o), m) in enumerate(zip(recs, first)):
        if o['ok'] and m[0] == 0:
            arr_m, idx_m = m[1]
            ng = len(arr_m[0])
            pd = [e[1] for e in arr_m[1]]
            sel = _names_to_idx(o['genes'], o['selected'])
            second.append((1262, [ng, pd, idx_m, o['n_per'], sel]))
            where.append(i)
    hist = ctx.model(second)
    third, where3 = [], []
    for i, h in zip(where, hist):
        w, rn, t, p, ll, ov, o = recs[i]
        m = first[i]
        if h[0] != 0:
            continue
        table = []
        for flag, u, ch in h[1]:
            if flag:
                order = [int(v) for v in np.argsort(np.array(u, dtype=np.int64))]    # int64 utility_array, default kind
                if not _is_argsort(u, order):
                    _viol(ctx, 'c12-ds:np-argsort-is-not-an-argsort', f'np.argsort({u}) = {order}',
                          _world_desc(base, w, parent=(list(p) if p is not None else None)), prop=True)
                ctx.dist('np_argsort_is_argsort', _is_argsort(u, order))
                if [u, order] not in table:
                    table.append([u, order])
        arr_m, idx_m = m[1]
        third.append((1263, [len(arr_m[0]), [e[1] for e in arr_m[1]], idx_m, o['n_per'], table]))
        where3.append(i)
    pops = dict(zip(where3, ctx.model(third)))
    hists = dict(zip(where, hist))
    for i, ((w, rn, t, p, ll, ov, o), m) in enumerate(zip(recs, first)):
        desc = _world_desc(base, w, parent=(list(p) if p is not None else None), observed=o, model=m)
        n_pairs = o.get('n_pairs', 0)
        nontriv = bool(o['ok'] and n_pairs >= 2 and len(o['genes']) >= 2)
        ctx.count(json.dumps(['ds-fn', w['table'], w['query'], str(p)]), nontrivial=nontriv)
        if not o['ok']:
            if not ov and 'No gene overlap' in o['msg']:
                ctx.dist('downsample_outcome', 'no-overlap-refused')
                continue
            ctx.dist('downsample_outcome', 'raised')
            _viol(ctx, 'c12-ds:implementation-raised', o['msg'], desc, prop=True)
            continue
        ctx.dist('downsample_outcome', 'ok')
        ctx.dist('downsample_pairs_kept', min(n_pairs, 10))
        if m[0] != 0:
            _viol(ctx, 'corr:Selection.downsample_pairs', f'the model refuses ({m}) what the implementation accepted', desc)
            continue
        arr_m, idx_m = m[1]
        genes_m = [rn.gene_inv[g] for g in arr_m[0]]
        if genes_m != o['genes']:
            _viol(ctx, 'corr:Selection.downsample_pairs', f'gene names: impl {o["genes"]} model {genes_m}', desc)
        node_inv = {v: k for k, v in rn.node.items()}
        keys_m = [[ll, node_inv[e[0][0]], node_inv[e[0][1]]] for e in arr_m[1]]
        if keys_m != o['keys']:
            _viol(ctx, 'corr:Selection.downsample_pairs', f'pair lookup: impl {o["keys"]} model {keys_m}', desc)
        tables_m = [[sorted(e[1][0]), sorted(e[1][1])] for e in arr_m[1]]
        if tables_m != o['tables']:
            _viol(ctx, 'corr:Selection.downsample_pairs', f'by-pair rows: impl {o["tables"]} model {tables_m}', desc)
        if list(idx_m) != o['idx']:
            _viol(ctx, 'corr:Selection.parent_idx', f'_get_taxonomy_idx on the downsampled array: impl {o["idx"]} model {idx_m}', desc)
        # property on the observed array: its two views agree; a behemoth run selects the same SET
        if o['by_gene'] != o['tables']:
            _viol(ctx, 'c12-ds:by-gene-view-differs', f'by_gene {o["by_gene"]} by_pair {o["tables"]}', desc, prop=True)
        if sorted(o['selected']) != sorted(o['selected_behemoth']):
            _viol(ctx, 'c12-ds:selection-depends-on-threshold',
                  f'downsampled {o["selected"]} behemoth {o["selected_behemoth"]}', desc, prop=True)
        # (C)
        h = hists.get(i)
        if h is None or h[0] != 0:
            _viol(ctx, 'corr:Selection.hist_along', f'the returned list {o["selected"]} is not a run of the model: {h}', desc)
            continue
        ctx.dist('resorts_along_the_run', min(sum(1 for e in h[1] if e[0]), 8))
        ctx.dist('stale_pops_along_the_run', min(sum(1 for e in h[1][1:-1] if not e[0]), 8))
        pp = pops.get(i)
        sel = _names_to_idx(o['genes'], o['selected'])
        if pp is None or pp[0] != 0 or list(pp[1]) != sel:
            _viol(ctx, 'corr:Selection.pick_pop',
                  f'select_with (pick_pop np.argsort) gives {pp} but the implementation chose {sel}', desc)
        else:
            ctx.traces_validated += 1


# ------------------------------------------------------------------ (B): the per-parent entry of the pipeline
def stage_part(ctx, base, worlds):
    from cell_type_mapper.marker_selection.selection_pipeline import select_all_markers
    rng = ctx.rng
    recs = []
    for world, tree, ref in worlds:
        rn = base.Renaming(world)
        nw = rng.choice([1, 2, 3])
        cutoff = rng.choice([0, 1, HUGE])
        leaf_level = world['tree']['hierarchy'][-1]
        n_leaves = len(world['tree'][leaf_level])
        n_pairs_total = n_leaves * (n_leaves - 1) // 2
        obs = {'config': [nw, cutoff]}
        try:
            with warnings.catch_warnings(), base.quiet_stdout():
                warnings.simplefilter('ignore')
                out, _ = select_all_markers(marker_cache_path=ref, query_gene_names=list(world['query']),
                                            taxonomy_tree=tree, n_per_utility=world['n_per_utility'],
                                            n_processors=nw, behemoth_cutoff=cutoff,
                                            n_per_utility_override=world['override'], tmp_dir=str(ctx.scratch))
            obs['ok'] = True
            obs['table'] = {('None' if k is None else f'{k[0]}/{k[1]}'): [str(g) for g in v] for k, v in out.items()}
        except Exception as e:
            obs['ok'] = False
            obs['msg'] = f'{exc_class(e)}: {e}'[:300]
        recs.append((world, rn, tree, n_pairs_total, obs))
    cases, where = [], []
    for wi, (world, rn, tree, n_pairs_total, obs) in enumerate(recs):
        thinned = [g for g in world['genes'] if g in set(world['query'])]
        ov = world['override'] or {}
        ov_sx = [[rn.parent(p), int(v)] for p, v in ov.items()]
        for p in tree.all_parents:
            key = 'None' if p is None else f'{p[0]}/{p[1]}'
            lp = tree.leaves_to_compare(p)
            bh = base.is_behemoth(len(lp), obs['config'][1], n_pairs_total)
            sel = _names_to_idx(thinned, obs['table'].get(key, [])) if obs['ok'] else []
            cases.append((1261, [rn.refmarkers(world), [rn.gene[g] for g in world['query']], rn.tree_sx(world['tree']),
                                 rn.parent(p), bh, int(world['n_per_utility']), ov_sx, 0, sel]))
            where.append((wi, p, key, len(lp), sel, len(thinned)))
    res = ctx.model(cases)
    bad = {}
    for (wi, p, key, n_lp, sel, n_thin), r in zip(where, res):
        world, rn, tree, n_pairs_total, obs = recs[wi]
        exp_n = world['n_per_utility']
        if world['override'] and p in world['override']:
            exp_n = world['override'][p]
        problems = bad.setdefault(wi, [])
        if r[0] != exp_n:
            problems.append(('corr:Selection.n_per_for', f'{key}: model uses n_per_utility {r[0]}, the table says {exp_n}'))
        tag = r[1][0]
        if not obs['ok']:
            if tag == 2 and 'No gene overlap' in obs['msg']:
                ctx.dist('select_parent_outcome', 'no-overlap-refused')
            else:
                problems.append(('c12-ds:implementation-raised', f'{obs["msg"]} (model: {r[1]})'))
            continue
        if key not in obs['table']:
            problems.append(('c12-ds:parent-missing-from-table', key))
            continue
        if tag == 0:
            ctx.dist('select_parent_outcome', 'short-circuit')
            if n_lp != 0 or obs['table'][key] != []:
                problems.append(('corr:Selection.select_parent', f'{key}: model short-circuits, impl {obs["table"][key]} with {n_lp} pairs'))
        elif tag == 1:
            ng, w = r[1][1], r[1][2]
            if n_lp == 0:
                problems.append(('corr:Selection.select_parent', f'{key}: no pair to discriminate but the model runs the selection'))
            elif ng != n_thin:
                problems.append(('corr:Selection.select_parent', f'{key}: array of {ng} genes in the model, {n_thin} thinned genes'))
            elif w[0] != 0 or list(w[1]) != sel:
                problems.append(('corr:Selection.select_parent', f'{key}: the list {sel} returned by select_all_markers '
                                                                 f'{obs["config"]} is not what the model finishes with: {w}'))
            else:
                ctx.dist('select_parent_outcome', 'run')
                ctx.traces_validated += 1
        else:
            problems.append(('corr:Selection.select_parent', f'{key}: model error {r[1]} but the implementation returned {obs["table"][key]}'))
    for wi, (world, rn, tree, n_pairs_total, obs) in enumerate(recs):
        n_skip = sum(1 for p in tree.all_parents if not tree.leaves_to_compare(p))
        ctx.count(json.dumps(['ds-st', world['table'], world['query'], world['n_per_utility'], str(world['override']), obs['config']]),
                  nontrivial=bool(obs['ok'] and len(tree.all_parents) - n_skip >= 2))
        ctx.dist('select_parent_has_short_circuit_parent', n_skip > 0)
        ctx.dist('select_parent_override', world['override'] is not None)
        problems = bad.get(wi, [])
        if problems:
            cls = problems[0][0]
            desc = _world_desc(base, world, observed=obs, failures=problems[:10])
            _viol(ctx, cls, problems[0][1], desc, prop=cls.startswith('c12-ds:'))


# ------------------------------------------------------------------ (E): genes_at_a_time > 1, behemoth vs downsampled
KS_BATCH = [2, 3, 5]


def batch_part(ctx, base, worlds, all_k=False):
    from cell_type_mapper.marker_selection.marker_array import MarkerGeneArray
    from cell_type_mapper.marker_selection.selection import select_marker_genes_v2
    from harness.props.c12_batch import recording
    recs = []
    counter = 0
    for world, tree, ref in worlds:
        if not (set(world['genes']) & set(world['query'])):
            continue
        rn = base.Renaming(world)
        for parent in tree.all_parents:
            leaves = tree.leaves_to_compare(parent)
            if not leaves:
                continue
            for k in (KS_BATCH if all_k else [KS_BATCH[counter % len(KS_BATCH)]]):
                counter += 1
                n_per = world['n_per_utility']
                if world['override'] and parent in world['override']:
                    n_per = world['override'][parent]
                obs = {'n_per': n_per, 'k': k}
                try:
                    with warnings.catch_warnings():
                        warnings.simplefilter('ignore')
                        arr = MarkerGeneArray.from_cache_path(cache_path=ref, query_gene_names=list(world['query']))
                        ds = arr.downsample_pairs_to_other(only_keep_pairs=leaves)
                        obs['genes'] = [str(g) for g in ds.gene_names]
                        with recording() as r1:
                            res = select_marker_genes_v2(marker_gene_array=ds, query_gene_names=list(world['query']),
                                                         taxonomy_tree=tree, parent_node=parent, n_per_utility=n_per,
                                                         genes_at_a_time=k)
                        obs['ds'] = [[str(g) for g in res]] + [x for x in r1.split()]
                        arr2 = MarkerGeneArray.from_cache_path(cache_path=ref, query_gene_names=list(world['query']))
                        with recording() as r2:
                            res2 = select_marker_genes_v2(marker_gene_array=arr2, query_gene_names=list(world['query']),
                                                          taxonomy_tree=tree, parent_node=parent, n_per_utility=n_per,
                                                          genes_at_a_time=k)
                        obs['bh'] = [[str(g) for g in res2]] + [x for x in r2.split()]
                    obs['ok'] = True
                except Exception as e:
                    obs['ok'] = False
                    obs['msg'] = f'{exc_class(e)}: {e}'[:300]
                recs.append((world, rn, tree, parent, obs))
    q = lambda w, rn: [rn.gene[g] for g in w['query']]
    first = ctx.model([c for w, rn, t, p, o in recs
                       for c in ((1260, [rn.refmarkers(w), q(w, rn), rn.tree_sx(w['tree']), rn.parent(p)]),
                                 (1203, [rn.refmarkers(w), q(w, rn), rn.tree_sx(w['tree']), rn.parent(p), True]))])
    arrays = {}
    second, where = [], []
    for i, (w, rn, t, p, o) in enumerate(recs):
        m_ds, m_bh = first[2 * i], first[2 * i + 1]
        if not o['ok'] or m_ds[0] != 0 or m_bh[0] != 0:
            continue
        arr_m, idx_ds = m_ds[1]
        g_bh, pd_bh, idx_bh = m_bh[1]
        ng = len(arr_m[0])
        arrays[i] = {'ds': (ng, [e[1] for e in arr_m[1]], idx_ds), 'bh': (len(g_bh), pd_bh, idx_bh)}
        for side in ('ds', 'bh'):
            a = arrays[i][side]
            sel, pre, bat = o[side]
            second.append((1264, [a[0], a[1], a[2], o['n_per'], o['k'], _names_to_idx(o['genes'], pre),
                                  [_names_to_idx(o['genes'], b) for b in bat]]))
            where.append((i, side))
    hist = dict(zip(where, ctx.model(second)))
    third, where3 = [], []
    tables = {}
    for i in arrays:
        w, rn, t, p, o = recs[i]
        table = []
        for side in ('ds', 'bh'):
            h = hist[(i, side)]
            if h[0] != 0:
                continue
            for flag, u, ch in h[1]:
                if flag:
                    order = [int(v) for v in np.argsort(np.array(u, dtype=np.int64))]
                    if not _is_argsort(u, order):
                        _viol(ctx, 'c12-ds:np-argsort-is-not-an-argsort', f'np.argsort({u}) = {order}',
                              _world_desc(base, w, parent=(list(p) if p is not None else None)), prop=True)
                    ctx.dist('np_argsort_is_argsort', _is_argsort(u, order))
                    if [u, order] not in table:
                        table.append([u, order])
        tables[i] = table
        for side in ('ds', 'bh'):
            a = arrays[i][side]
            third.append((1265, [a[0], a[1], a[2], o['n_per'], o['k'], table]))
            where3.append((i, side))
        third.append((1266, [rn.refmarkers(w), q(w, rn), rn.tree_sx(w['tree']), rn.parent(p), o['n_per'], o['k'], table]))
        where3.append((i, 'parent'))
    out3 = dict(zip(where3, ctx.model(third)))
    for i, (w, rn, t, p, o) in enumerate(recs):
        desc = _world_desc(base, w, parent=(list(p) if p is not None else None), observed=o, part='E')
        ctx.count(json.dumps(['ds-batch', w['table'], w['query'], str(p), o['k']]),
                  nontrivial=bool(o['ok'] and len(o.get('genes', [])) >= 2 and len(o['ds'][2]) >= 1
                                  and any(len(b) >= 2 for b in o['ds'][2])))
        if not o['ok']:
            _viol(ctx, 'c12-ds:implementation-raised', o['msg'], desc, prop=True)
            continue
        ctx.dist('batch_downsample_k', o['k'])
        # property on the observed lists: same popped sequence, prefixes permutations of each other
        if o['ds'][2] != o['bh'][2] or sorted(o['ds'][1]) != sorted(o['bh'][1]):
            _viol(ctx, 'c12-ds:selection-depends-on-threshold-batch',
                  f'k={o["k"]}: downsampled {o["ds"][1:]} behemoth {o["bh"][1:]}', desc, prop=True)
        if i not in arrays:
            _viol(ctx, 'corr:Selection.downsample_pairs', f'model refuses the arrays: {first[2 * i]} {first[2 * i + 1]}', desc)
            continue
        okc = True
        for side in ('ds', 'bh'):
            sel = _names_to_idx(o['genes'], o[side][0])
            h = hist[(i, side)]
            if h[0] != 0:
                _viol(ctx, 'corr:SelectionK.hist_along_k', f'k={o["k"]} {side}: the recorded batches {o[side][1:]} are not a run of the model: {h}', desc)
                okc = False
                continue
            pp = out3.get((i, side))
            if pp is None or pp[0] != 0 or list(pp[1]) != sel:
                _viol(ctx, 'corr:SelectionK.select_with_k-pick_pop',
                      f'k={o["k"]} {side}: select_with_k (pick_pop np.argsort) gives {pp} but the implementation chose {sel}', desc)
                okc = False
        pr = out3.get((i, 'parent'))
        if okc and pr is not None:
            want = {'bh': _names_to_idx(o['genes'], o['bh'][0]), 'ds': _names_to_idx(o['genes'], o['ds'][0])}
            for side, r in (('bh', pr[0]), ('ds', pr[1])):
                if r[0] != 1 or r[2][0] != 0 or list(r[2][1]) != want[side]:
                    _viol(ctx, 'corr:SelectionK.select_parent_k',
                          f'k={o["k"]} {side}: select_parent_k gives {r}, the implementation {want[side]}', desc)
                    okc = False
        if okc:
            ctx.traces_validated += 1
            ctx.dist('batch_downsample_resorts', min(sum(1 for e in hist[(i, 'ds')][1] if e[0]), 8))


# ------------------------------------------------------------------ (D)
def empty_pairs_raise(ctx, base, worlds):
    from cell_type_mapper.marker_selection.marker_array import MarkerGeneArray
    from cell_type_mapper.marker_selection.selection import _run_selection
    from cell_type_mapper.marker_selection.utils import create_utility_array
    for world, tree, ref in worlds:
        if not (set(world['genes']) & set(world['query'])):
            continue
        outcome = 'returned'
        try:
            with warnings.catch_warnings():
                warnings.simplefilter('ignore')
                arr = MarkerGeneArray.from_cache_path(cache_path=ref, query_gene_names=list(world['query']))
                idx = np.array([], dtype=int)
                ua, mc = create_utility_array(marker_gene_array=arr, gb_size=10, taxonomy_mask=idx)
                _run_selection(marker_gene_array=arr, utility_array=ua, marker_census=mc, taxonomy_idx_array=idx,
                               n_per_utility=world['n_per_utility'], parent_node=None)
        except ValueError:
            outcome = 'ValueError'
        except Exception as e:
            outcome = exc_class(e)
        ctx.dist('run_selection_on_no_pairs', outcome)
        if outcome == 'returned':
            _viol(ctx, 'corr:Selection.select_parent-short-circuit',
                  '_run_selection returned on an empty taxonomy_idx_array; the model assumes it is never called there',
                  _world_desc(base, world))
        return


def run_part(ctx):
    """Called once from harness/props/c12.py:run, after its other parts (their random stream is unchanged)."""
    from harness.props import c12 as base
    ctx.rule += ('; part downsample: same generator; (A)+(C) every parent with pairs: downsample_pairs_to_other, _get_taxonomy_idx, '
                 'select_marker_genes_v2 on the downsampled array, np.argsort pops; (B) select_all_markers, one random '
                 '(workers, cut-off) per table, every parent; (E) every parent with pairs, behemoth and downsampled, genes_at_a_time in {2,3,5}; '
                 'non-trivial = (A) >= 2 pairs kept and >= 2 genes, (B) >= 2 parents with pairs, (E) a batch of >= 2 genes was popped')
    ctx.assumptions += [
        'part downsample: only_keep_pairs = leaves_to_compare(parent) (no repetition; every pair is in the file): a file that '
        'lacks a pair of the parent (RuntimeError, PErrPair in the model) is not generated',
        'part downsample: np.argsort is taken from the installed numpy on an int64 array (the dtype of utility_array); the model '
        'quantifies over every function of the array (pick_pop sorter); the hypothesis is_argsort of c12_numpy_rule_is_legal '
        '(a permutation of the indices, values non-decreasing) is checked on every np.argsort result handed to the model',
        'part downsample (E): genes_at_a_time in {2, 3, 5}, one k per (table, parent) in rotation; queries without any '
        'reference gene are skipped there (covered by (B))',
    ]
    import time
    t0 = time.time()
    n = ctx.n(80, 800)
    done = 0
    first = True
    while done < n:
        m = min(100, n - done)
        worlds, d = base.make_worlds(ctx, m, f'ds_{done}')
        function_part(ctx, base, worlds)
        stage_part(ctx, base, worlds[:max(1, (2 * m) // 3)])
        batch_part(ctx, base, worlds)
        if first:
            empty_pairs_raise(ctx, base, worlds)
            first = False
        base.cleanup(d)
        done += m
    ctx.extra['downsample_part_wall_s'] = round(time.time() - t0, 1)
