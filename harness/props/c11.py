"""C11 — reference markers are sound and complete for the stated criteria.

Tie: correct_ttest / approx_correct_ttest / penetrance_parameter_distance / approx_penetrance_test /
exact_penetrance_test / score_differential_genes / _get_validity_mask on dyadic grids where binary64
arithmetic is exact, then both routes end to end (find_markers_for_all_taxonomy_pairs; p-value mask
route) on generated statistics files, vs coq/Model/Holm.v + Penetrance.v (tags 1101-1111), plus the
property's own statement on every observed output.  welch_cases: Model/Welch.v (tags 1150-1154) - aggregate_stats,
_calculate_tt_nu, pij_from_stats, q_score_from_pij, welch_t_test (exact and skipping) and score_differential_genes
all computed FROM THE SUMMARY STATISTICS, scipy's t.cdf as a per-gene oracle.  boring_premises /
boring_premise_cases: the premises of c11_boring_t_sound / c11_sound_exact_welch evaluated numerically on every
(t, nu) that occurs and over the range of p_th; boring_huge_nu_case: where they fail (known finding)."""
import contextlib
import io
import itertools
import json
import math
import pathlib
import shutil
import warnings
from fractions import Fraction

import h5py
import numpy as np

EPS10 = Fraction(1.0e-10)
EPS6 = Fraction(1.0e-6)
ERR = {'E_SHAPE': 1, 'E_Q1': 2, 'E_QDIFF': 3, 'E_FOLD': 4, 'E_EMPTY': 5, 'E_INDEX': 6, 'E_NOGENES': 7}
# F8 and F13 (= finding F17) are REPAIRED defects (known_findings.json: kind "fixed", suppresses nothing): the
# class strings stay so that a regression is reported under the name of the finding
F8 = 'F8-floor-within-1e-5-of-strict-threshold'
F12 = 'F12-mask-route-records-pair-with-one-cell-cluster'
F13 = 'F13-no-marker-in-one-direction-raises'


@contextlib.contextmanager
def quiet():
    with contextlib.redirect_stdout(io.StringIO()), warnings.catch_warnings(), np.errstate(all='ignore'):
        warnings.simplefilter('ignore')
        yield


def fr(x):
    return Fraction(float(x))


def scale_bits(values):
    k = 0
    for v in values:
        k = max(k, fr(v).denominator.bit_length() - 1)
    return k


def to_int(v, k):
    f = fr(v) * (1 << k)
    assert f.denominator == 1, (v, k)
    return f.numerator


# ------------------------------------------------------------------ exact reference computations
def holm_exact(p, order=None):
    """full Holm-Bonferroni in exact arithmetic; `order` optionally breaks ties differently."""
    m = len(p)
    idx = sorted(range(m), key=(lambda i: (p[i], i)) if order is None else (lambda i: (p[i], order[i])))
    out = [None] * m
    acc = None
    for rank, i in enumerate(idx):
        v = p[i] * (m - rank)
        acc = v if acc is None else max(acc, v)
        out[i] = min(acc, Fraction(1))
    return out


def report(ctx, desc, corr, prop, kind, model_fn, cls=None):
    if not corr and not prop:
        return
    ctx.disagreements_checked += 1
    desc = dict(desc, kind=kind, problems=(prop + corr)[:8])
    if prop:
        desc['class'] = cls or (f'{kind}:' + prop[0].split(':')[0][:60].replace(' ', '-'))
        ctx.violation(f'{kind}: ' + '; '.join((prop + corr)[:3]), desc)
    else:
        desc['class'] = f'corr:{model_fn}'
        ctx.violation(f'{kind}: model and implementation disagree: ' + '; '.join(corr[:3]), desc, no_input=True)


# ------------------------------------------------------------------ A. Holm
def holm_cases(ctx):
    from cell_type_mapper.utils.stats_utils import correct_ttest, approx_correct_ttest
    rng = ctx.rng
    K = 10
    grid = [i / 1024 for i in (0, 1, 2, 3, 5, 8, 16, 64, 100, 128, 256, 300, 512, 700, 1000, 1023, 1024)]
    recs, cases = [], []
    for _ in range(ctx.n(700, 25000)):
        n = rng.choice([0, 1, 2, 3, 4, 5, 6, 8, 10])
        pool = rng.sample(grid, rng.randrange(1, 6))
        p = [rng.choice(pool) for _ in range(n)]
        kind = rng.choice(['full', 'pad', 'approx', 'approx'])
        if kind == 'approx':
            th = rng.choice(grid[1:] + [1.0, 1.0, 1.25, 0.01])
            k = max(K, scale_bits([th]))
            with quiet():
                obs = approx_correct_ttest(np.array(p, dtype=float), th)
            cases.append((1102, [1 << k, to_int(th, k), [to_int(v, k) for v in p]]))
            recs.append((kind, p, th, k, obs))
        else:
            pad = 0 if kind == 'full' else rng.randrange(0, 6)
            with quiet():
                obs = correct_ttest(np.array(p, dtype=float), padding=pad)
            cases.append((1101, [1 << K, pad, [to_int(v, K) for v in p]]))
            recs.append((kind, p, pad, K, obs))
    res = ctx.model(cases)
    for (kind, p, arg, k, obs), r in zip(recs, res):
        desc = {'fn': 'approx_correct_ttest' if kind == 'approx' else 'correct_ttest', 'p': p,
                'p_th' if kind == 'approx' else 'padding': arg, 'observed': [float(v) for v in obs], 'model': r}
        ties = len(set(p)) < len(p)
        ctx.count(('holm', kind, tuple(p), arg), nontrivial=len(p) >= 3 and ties)
        ctx.dist('holm', kind + ('/ties' if ties else ''))
        corr, prop = [], []
        got = [fr(v) for v in obs]
        if r[0] != 0 or [Fraction(v, 1 << k) for v in r[1]] != got:
            corr.append(f'observed {[float(v) for v in obs]} model {r}')
        pf = [fr(v) for v in p]
        if kind == 'full':
            # tie invariance: any order among equal p-values gives the observed values
            alt = holm_exact(pf, order=[-i for i in range(len(p))])
            if got != holm_exact(pf) or got != alt:
                prop.append(f'correct_ttest differs from the Holm-Bonferroni values {[float(v) for v in holm_exact(pf)]}')
        if kind == 'approx' and arg <= 1.0:
            full = holm_exact(pf)
            T = fr(arg)
            for i in range(len(p)):
                if (got[i] < T) != (full[i] < T):
                    prop.append(f'gene {i}: restricted value {float(got[i])} vs full Holm {float(full[i])} decide differently at p_th')
                elif pf[i] < T and got[i] != full[i]:
                    prop.append(f'gene {i}: p below p_th but restricted value {float(got[i])} != full Holm {float(full[i])}')
        report(ctx, desc, corr, prop, 'holm', 'Holm.' + desc['fn'])


# ------------------------------------------------------------------ B. penetrance
Q_GRID = [i / 64 for i in (0, 1, 4, 6, 7, 8, 16, 32, 44, 45, 46, 48, 63, 64)]
F_GRID = [i / 16 for i in (0, 1, 8, 12, 13, 14, 16, 17, 24, 40)]
FINE = [2.0 ** -17, 2.0 ** -20, 2.0 ** -16, 2.0 ** -18]


def gen_thresholds(rng, tight=False):
    """(q1_th, q1_min, qdiff_th, qdiff_min, fold_th, fold_min), each strict threshold above its floor."""
    out = []
    for grid in (Q_GRID, Q_GRID, F_GRID):
        while True:
            th = rng.choice(grid[2:])
            if tight and rng.random() < 0.6:
                mn = th - rng.choice(FINE)
            else:
                mn = rng.choice([g for g in grid if g < th])
            if mn < th:
                break
        out += [th, mn]
    return out


def gen_score(rng, th, tight):
    """one gene's (q1, qdiff, fold) on the grid, with values at / next to the thresholds."""
    vals = []
    for k, grid in enumerate((Q_GRID, Q_GRID, F_GRID)):
        t, mn = th[2 * k], th[2 * k + 1]
        r = rng.random()
        if r < 0.25:
            v = rng.choice([t, mn])
        elif r < 0.45 and tight:
            v = rng.choice([t, mn]) + rng.choice([-1, 1]) * rng.choice(FINE)
        elif r < 0.7:
            v = rng.choice([g for g in grid if g > t] or [t])
        else:
            v = rng.choice(grid)
        vals.append(v)
    return vals


def spec_penetrance(scores, th, valid, exact):
    """the property's statement on a penetrance mask: returns (unsound genes, missing genes, extra-when-exact)."""
    q1_th, q1_min, qd_th, qd_min, f_th, f_min = th
    unsound, missing, extra = [], [], []
    for g, ((q1, qd, f), v) in enumerate(zip(scores, valid)):
        strict = q1 > q1_th and qd > qd_th and f > f_th
        below = q1 < q1_min or qd < qd_min or f < f_min
        if v and below:
            unsound.append(g)
        if strict and not v:
            missing.append(g)
        if exact and v and not strict:
            extra.append(g)
    return unsound, missing, extra


def min_gap_sq(th):
    return min((fr(th[0]) - fr(th[1])) ** 2, (fr(th[2]) - fr(th[3])) ** 2, (fr(th[4]) - fr(th[5])) ** 2)


def penetrance_cases(ctx):
    from cell_type_mapper.diff_exp import scores as sc
    rng = ctx.rng
    recs, cases = [], []
    for _ in range(ctx.n(900, 30000)):
        tight = rng.random() < 0.3
        th = gen_thresholds(rng, tight)
        if rng.random() < 0.05:      # rejected settings: threshold not above its floor
            k = rng.randrange(3)
            th[2 * k + 1] = th[2 * k] if rng.random() < 0.5 else th[2 * k] + 0.25
        n = rng.choice([0, 1, 2, 3, 4, 5, 6, 8])
        base = [gen_score(rng, th, tight) for _ in range(max(1, n // 2))]
        scores = [list(rng.choice(base)) if rng.random() < 0.3 else gen_score(rng, th, tight) for _ in range(n)]
        if rng.random() < 0.2 and n:
            scores[rng.randrange(n)] = [-1.0, 0.0, -1.0]        # a gene outside the gene list
        n_valid = rng.choice([0, 1, 1, 2, 3, 5, 30])
        exact = rng.random() < 0.25
        q1 = np.array([s[0] for s in scores], dtype=float)
        qd = np.array([s[1] for s in scores], dtype=float)
        fo = np.array([s[2] for s in scores], dtype=float)
        kw = dict(q1_th=th[0], q1_min_th=th[1], qdiff_th=th[2], qdiff_min_th=th[3], log2_fold_th=th[4],
                  log2_fold_min_th=th[5])
        k = scale_bits([v for s in scores for v in s] + th)
        S = 1 << k
        ith = [to_int(v, k) for v in th]
        isc = [[to_int(v, k) for v in s] for s in scores]
        obs = {}
        try:
            with quiet():
                d = sc.penetrance_parameter_distance(q1_score=q1.copy(), qdiff_score=qd.copy(), log2_fold=fo.copy(), **kw)
            obs['dist'] = {kk: (vv.tolist()) for kk, vv in d.items()}
        except RuntimeError as e:
            obs['dist_err'] = ERR['E_Q1'] if 'q1_th must' in str(e) else ERR['E_QDIFF'] if 'qdiff_th must' in str(e) \
                else ERR['E_FOLD'] if 'log2_fold_th must' in str(e) else 99
        except ValueError as e:
            obs['dist_err'] = ERR['E_EMPTY'] if 'zero-size array' in str(e) else 98
        try:
            with quiet():
                if exact:
                    v = np.logical_and(fo > th[4], sc.exact_penetrance_test(q1_score=q1.copy(), qdiff_score=qd.copy(),
                                                                            q1_th=th[0], qdiff_th=th[2]))
                else:
                    v = sc.approx_penetrance_test(q1_score=q1.copy(), qdiff_score=qd.copy(), log2_fold=fo.copy(),
                                                  n_valid=n_valid, **kw)
            obs['valid'] = [bool(x) for x in v]
        except RuntimeError as e:
            obs['valid_err'] = ERR['E_Q1'] if 'q1_th must' in str(e) else ERR['E_QDIFF'] if 'qdiff_th must' in str(e) \
                else ERR['E_FOLD'] if 'log2_fold_th must' in str(e) else 99
        except ValueError as e:
            obs['valid_err'] = ERR['E_EMPTY'] if 'zero-size array' in str(e) else 98
        except IndexError:
            obs['valid_err'] = ERR['E_INDEX']
        cases.append((1103, [S, ith, isc]))
        cases.append((1104, [S, ith, exact, n_valid, isc]))
        recs.append((th, scores, n_valid, exact, k, obs))
    res = ctx.model(cases)
    for j, (th, scores, n_valid, exact, k, obs) in enumerate(recs):
        rd, rv = res[2 * j], res[2 * j + 1]
        desc = {'thresholds': dict(zip(('q1_th', 'q1_min_th', 'qdiff_th', 'qdiff_min_th', 'log2_fold_th',
                                        'log2_fold_min_th'), th)),
                'scores(q1,qdiff,fold)': scores, 'n_valid': n_valid, 'exact': exact, 'observed': obs,
                'model_distance': rd, 'model_valid': rv}
        gap_ok = min_gap_sq(th) >= EPS10
        ctx.count(('pen', tuple(th), tuple(map(tuple, scores)), n_valid, exact),
                  nontrivial=len(scores) >= 3 and 'valid' in obs and any(obs['valid']) and not all(obs['valid']))
        ctx.dist('penetrance', ('exact' if exact else 'approx') + ('/tight-floor' if not gap_ok else '')
                 + ('/rejected' if 'valid_err' in obs else ''))
        corr, prop = [], []
        S2 = 2 * (1 << k) ** 2
        if 'dist' in obs:
            if rd[0] != 0:
                corr.append(f'distance: implementation returned, model raises {rd}')
            else:
                for g, row in enumerate(rd[1]):
                    for name, mv in zip(('true', 'q1', 'qdiff', 'fold', 'wgt'), row[:5]):
                        if fr(obs['dist'][name][g]) * S2 != mv:
                            corr.append(f'distance[{name}][{g}] = {obs["dist"][name][g]!r}, model {mv}/{S2}')
                    if bool(obs['dist']['invalid'][g]) != bool(row[5]):
                        corr.append(f'invalid[{g}] = {obs["dist"]["invalid"][g]}, model {row[5]}')
        elif rd[:2] != [1, obs.get('dist_err')]:
            corr.append(f'distance: implementation error {obs.get("dist_err")}, model {rd}')
        if 'valid' in obs:
            if rv[0] != 0 or [bool(x) for x in rv[1]] != obs['valid']:
                corr.append(f'mask {obs["valid"]}, model {rv}')
            uns, mis, ext = spec_penetrance(scores, th, obs['valid'], exact)
            if not (th[0] > th[1] and th[2] > th[3] and th[4] > th[5]):
                uns, mis, ext = [], [], []       # outside the quantifier: a threshold not above its floor
            cls = None
            if uns:
                prop.append(f'gene(s) {uns} pass although below a floor')
                if not exact and not gap_ok:
                    cls = F8
            if mis:
                prop.append(f'gene(s) {mis} pass every strict threshold but are not accepted')
            if ext:
                prop.append(f'exact penetrance accepted gene(s) {ext} that fail a strict threshold')
            report(ctx, desc, corr, prop, 'penetrance', 'Penetrance.penetrance_tests', cls)
            continue
        elif rv[:2] != [1, obs.get('valid_err')]:
            corr.append(f'mask: implementation error {obs.get("valid_err")}, model {rv}')
        report(ctx, desc, corr, prop, 'penetrance', 'Penetrance.penetrance_tests')


# ------------------------------------------------------------------ D. _get_validity_mask
def validity_mask_cases(ctx):
    from cell_type_mapper.diff_exp.p_value_markers import _get_validity_mask
    rng = ctx.rng
    f16 = [float(np.float16(v)) for v in (0.001, 0.0010004, 0.002, 0.0625, 0.5, 1.0, 1.5, 3.0, 100.0, 65504.0)]
    recs, cases = [], []
    for _ in range(ctx.n(500, 15000)):
        ng = rng.randrange(1, 9)
        idx = sorted(rng.sample(range(ng), rng.randrange(0, ng + 1)))
        pool = [-1.0, -1.0] + rng.sample(f16, rng.randrange(1, 5))
        dist = [rng.choice(pool) for _ in idx]
        n_valid = rng.choice([0, 1, 1, 2, 3, ng, ng + 1, 30])
        vgi = None
        if rng.random() < 0.4:
            vgi = sorted(rng.sample(range(ng), rng.randrange(1, ng + 1)))
        obs = {}
        try:
            with quiet():
                v = _get_validity_mask(n_valid=n_valid, n_genes=ng, gene_indices=np.array(idx, dtype=np.int64),
                                       raw_distances=np.array(dist, dtype=float),
                                       valid_gene_idx=None if vgi is None else np.array(vgi, dtype=np.int64))
            obs['valid'] = [bool(x) for x in v]
        except IndexError:
            obs['err'] = ERR['E_INDEX']
        k = 24
        mask = [] if vgi is None else [[g in vgi for g in range(ng)]]
        cases.append((1107, [1 << k, n_valid, ng, [[g, to_int(d, k)] for g, d in zip(idx, dist)], mask]))
        recs.append((ng, idx, dist, n_valid, vgi, obs))
    for (ng, idx, dist, n_valid, vgi, obs), r in zip(recs, ctx.model(cases)):
        desc = {'n_genes': ng, 'gene_indices': idx, 'raw_distances': dist, 'n_valid': n_valid, 'valid_gene_idx': vgi,
                'observed': obs, 'model': r}
        ctx.count(('vmask', ng, tuple(idx), tuple(dist), n_valid, None if vgi is None else tuple(vgi)),
                  nontrivial='valid' in obs and any(obs['valid']) and len(idx) >= 2)
        ctx.dist('validity_mask', 'error' if 'err' in obs else 'ok')
        corr, prop = [], []
        if 'valid' in obs:
            if r[0] != 0 or [bool(x) for x in r[1]] != obs['valid']:
                corr.append(f'mask {obs["valid"]}, model {r}')
            for g, v in enumerate(obs['valid']):
                in_mask = g in idx
                strict = in_mask and dist[idx.index(g)] < 0
                listed = vgi is None or g in vgi
                if v and not (in_mask and listed):
                    prop.append(f'gene {g} accepted although absent from the p-value mask / the gene list')
                if strict and listed and not v:
                    prop.append(f'gene {g} is strictly valid (-1) and listed but not accepted')
        elif r[:2] != [1, obs['err']]:
            corr.append(f'implementation error {obs["err"]}, model {r}')
        report(ctx, desc, corr, prop, 'validity_mask', 'Penetrance.get_validity_mask')


# ------------------------------------------------------------------ statistics files
def gen_stats(rng, exact_grid, marker_like=False):
    """cluster statistics: per cluster n, and per gene (sum, sumsq, ge1) built from actual small samples so
    that variances are consistent.  exact_grid: cluster sizes are powers of two and values multiples of 1/4."""
    n_genes = rng.choice([1, 2, 3, 4, 5, 6, 8, 10])
    n_leaves = rng.choice([2, 3, 3, 4, 4, 5, 6])
    if marker_like:
        n_genes = rng.choice([4, 5, 6, 8, 10, 12])
        n_leaves = rng.choice([3, 4, 4, 5, 6])
    sizes = []
    for _ in range(n_leaves):
        if marker_like and rng.random() < 0.8:
            sizes.append(rng.choice([2, 3, 4, 4, 5, 8] if not exact_grid else [2, 4, 4, 8]))
        elif exact_grid:
            sizes.append(rng.choice([1, 2, 2, 4, 4, 8, 16]))
        else:
            sizes.append(rng.choice([0, 1, 2, 2, 3, 4, 5, 6, 7, 9, 12]))
    # gene profiles: level per cluster from a small set, spread from {0 (zero variance), small, big}
    data = []
    protos = []
    for g in range(n_genes):
        if protos and rng.random() < 0.25:
            protos.append(protos[rng.randrange(len(protos))])      # duplicated gene: ties everywhere
            continue
        if marker_like:
            levels = [rng.choice([0.0, 0.0, 8.0, 12.0]) for _ in range(n_leaves)]
            spread = [rng.choice([0.0, 0.25, 0.5, 0.5]) for _ in range(n_leaves)]
        else:
            levels = [rng.choice([0.0, 0.0, 0.0, 0.5, 1.0, 4.0, 8.0, 8.0, 12.0]) for _ in range(n_leaves)]
            spread = [rng.choice([0.0, 0.25, 0.25, 0.5, 0.5, 1.0, 3.0]) for _ in range(n_leaves)]
        protos.append((levels, spread))
    for c in range(n_leaves):
        n = sizes[c]
        X = np.zeros((n, n_genes))
        for g in range(n_genes):
            lv, sp = protos[g]
            for i in range(n):
                sign = 1 if i % 2 == 0 else -1
                step = (i // 2) % 3 / 2.0
                v = lv[c] + sign * sp[c] * (1 + step) / 2
                X[i, g] = max(0.0, round(v * 4) / 4)
        data.append(X)
    return {'n_genes': n_genes, 'n_leaves': n_leaves, 'sizes': sizes, 'data': data}


def write_stats_file(path, leaves, tree, st, genes):
    order = sorted(leaves)
    with h5py.File(path, 'w') as f:
        f.create_dataset('taxonomy_tree', data=json.dumps(tree).encode('utf-8'))
        f.create_dataset('cluster_to_row', data=json.dumps({c: i for i, c in enumerate(order)}).encode('utf-8'))
        f.create_dataset('col_names', data=json.dumps(genes).encode('utf-8'))
        idx = [leaves.index(c) for c in order]
        f.create_dataset('n_cells', data=np.array([st['sizes'][i] for i in idx], dtype=np.int64))
        ng = st['n_genes']
        f.create_dataset('sum', data=np.array([st['data'][i].sum(axis=0) if st['sizes'][i] else np.zeros(ng) for i in idx]))
        f.create_dataset('sumsq', data=np.array([(st['data'][i] ** 2).sum(axis=0) if st['sizes'][i] else np.zeros(ng) for i in idx]))
        for key, cut in (('gt0', 0.0), ('gt1', 1.0), ('ge1', 1.0 - 1.0e-6)):
            f.create_dataset(key, data=np.array([(st['data'][i] > cut).sum(axis=0) if st['sizes'][i] else np.zeros(ng, dtype=int)
                                                 for i in idx], dtype=np.int64))


WELCH_ISSUES = []
WELCH_CHECKED = [0]


def welch_reference_check(s1, s2, name1, name2):
    """The raw p-values are model inputs taken from the implementation; that they ARE Welch p-values
    (statistic, Welch-Satterthwaite degrees of freedom, two-sided Student tail) is checked here against
    an independent computation: exact rationals for t^2 and nu, scipy's Student CDF for the tail."""
    from cell_type_mapper.utils.stats_utils import welch_t_test
    import scipy.stats
    n1, n2 = int(s1['n_cells']), int(s2['n_cells'])
    if n1 < 2 or n2 < 2:
        return
    with quiet():
        tt, nu, pv = welch_t_test(mean1=s1['mean'], var1=s1['var'], n1=n1, mean2=s2['mean'], var2=s2['var'], n2=n2,
                                  boring_t=None, big_nu=None)
    for g in range(len(tt)):
        m1, m2, v1, v2 = (Fraction(float(x)) for x in (s1['mean'][g], s2['mean'][g], s1['var'][g], s2['var'][g]))
        a, b = v1 / n1, v2 / n2
        if a + b <= 0 or not np.isfinite(tt[g]) or not np.isfinite(nu[g]):
            continue
        WELCH_CHECKED[0] += 1
        t2 = (m1 - m2) ** 2 / (a + b)
        nu_ref = (a + b) ** 2 / (a * a / (n1 - 1) + b * b / (n2 - 1))
        t_ref = math.copysign(math.sqrt(float(t2)), float(m1 - m2))
        p_ref = 2.0 * scipy.stats.t.sf(abs(t_ref), float(nu_ref))
        bad = []
        if abs(float(tt[g]) - t_ref) > 1e-9 * max(1.0, abs(t_ref)):
            bad.append(f't = {float(tt[g])!r}, Welch statistic {t_ref!r}')
        if abs(float(nu[g]) - float(nu_ref)) > 1e-9 * float(nu_ref):
            bad.append(f'nu = {float(nu[g])!r}, Welch-Satterthwaite degrees of freedom {float(nu_ref)!r}')
        if abs(float(pv[g]) - p_ref) > 1e-7 * max(p_ref, 1e-300) and abs(float(pv[g]) - p_ref) > 1e-15:
            bad.append(f'p = {float(pv[g])!r}, two-sided Student tail {p_ref!r}')
        if bad and len(WELCH_ISSUES) < 5:
            WELCH_ISSUES.append({'pair': [name1, name2], 'gene': g, 'n1': n1, 'n2': n2,
                                 'mean1': float(m1), 'mean2': float(m2), 'var1': float(v1), 'var2': float(v2),
                                 'problems': bad})


def pair_inputs(cluster_stats, level, a, b, p_th):
    """what the workers compute for one pair up to the raw p-values and the scores: taken from the
    implementation's own routines (these numbers are model INPUTS)."""
    from cell_type_mapper.utils.stats_utils import welch_t_test, boring_t_from_p_value
    from cell_type_mapper.diff_exp.score_utils import pij_from_stats, q_score_from_pij
    s1, s2 = cluster_stats[f'{level}/{a}'], cluster_stats[f'{level}/{b}']
    welch_reference_check(s1, s2, f'{level}/{a}', f'{level}/{b}')
    with quiet():
        _, _, p = welch_t_test(mean1=s1['mean'], var1=s1['var'], n1=s1['n_cells'], mean2=s2['mean'], var2=s2['var'],
                               n2=s2['n_cells'], boring_t=boring_t_from_p_value(p_th), big_nu=None)
        p = np.where(np.isfinite(p), p, 1.0)
        pij1, pij2, fold = pij_from_stats(cluster_stats=cluster_stats, node_1=f'{level}/{a}', node_2=f'{level}/{b}')
        q1, qd = q_score_from_pij(pij1, pij2)
    return {'n1': int(s1['n_cells']), 'n2': int(s2['n_cells']), 'p': [float(v) for v in p],
            'q1': [float(v) for v in q1], 'qdiff': [float(v) for v in qd], 'fold': [float(v) for v in fold],
            'mean1': [float(v) for v in s1['mean']], 'mean2': [float(v) for v in s2['mean']]}


def enc_pair(pi, p_th, k):
    kp = scale_bits(pi['p'] + [p_th])
    return [pi['n1'], pi['n2'], 1 << kp, to_int(p_th, kp), [to_int(v, kp) for v in pi['p']],
            [[to_int(a, k), to_int(b, k), to_int(c, k)] for a, b, c in zip(pi['q1'], pi['qdiff'], pi['fold'])],
            [to_int(v, k) for v in pi['mean1']], [to_int(v, k) for v in pi['mean2']]]


def near_tie(pi, th, p_th, mask_list):
    """True when a primitive comparison of the float computation is within 1e-9 (relative) of flipping, so
    that exact arithmetic need not agree: p*m next to p_th, a distance next to 1e-10, or two distances that
    agree to 1e-9 and whose float values compare differently from their exact values."""
    from cell_type_mapper.diff_exp.scores import penetrance_parameter_distance
    T = fr(p_th)
    p = [fr(v) for v in pi['p']]
    m = len(p)
    for v in p:
        for mult in range(1, m + 1):
            x = v * mult
            if x != T and abs(x - T) <= T * Fraction(1, 10 ** 9):
                return True
    q1_th, q1_min, qd_th, qd_min, f_th, f_min = [fr(v) for v in th]

    def term(x, t):
        return Fraction(0) if x > t else (x - t) ** 2
    sc = []
    for g in range(m):
        if mask_list is not None and not mask_list[g]:
            sc.append((-1.0, 0.0, -1.0))
        else:
            sc.append((pi['q1'][g], pi['qdiff'][g], pi['fold'][g]))
    if m == 0:
        return False
    with quiet():
        d = penetrance_parameter_distance(
            q1_score=np.array([x[0] for x in sc]), qdiff_score=np.array([x[1] for x in sc]),
            log2_fold=np.array([x[2] for x in sc]), q1_th=th[0], q1_min_th=th[1], qdiff_th=th[2],
            qdiff_min_th=th[3], log2_fold_th=th[4], log2_fold_min_th=th[5])
    entries = []
    for g in range(m):
        a, b, c = term(fr(sc[g][0]), q1_th), term(fr(sc[g][1]), qd_th), term(fr(sc[g][2]), f_th)
        tot = a + b + c
        if tot != EPS10 and abs(tot - EPS10) <= EPS10 * Fraction(1, 10 ** 6):
            return True
        if (fr(d['true'][g]) < EPS10) != (tot < EPS10):
            return True
        if d['invalid'][g]:
            continue
        for name, ex in (('q1', b + Fraction(3, 2) * a + c), ('qdiff', Fraction(3, 2) * b + a + c),
                         ('fold', b + a + Fraction(3, 2) * c)):
            entries.append((ex, fr(d[name][g])))
    for i in range(len(entries)):
        for j in range(i + 1, len(entries)):
            (e1, f1), (e2, f2) = entries[i], entries[j]
            if ((e1 > e2) - (e1 < e2)) != ((f1 > f2) - (f1 < f2)) and abs(e1 - e2) <= max(e1, e2) * Fraction(1, 10 ** 9):
                return True     # rounding reorders two distances that are equal to 1e-9
    return False


def exact_decisions(pi, th, p_th, gene_ok):
    """per gene, in exact arithmetic: (corrected p below p_th, strictly passing, below a floor)."""
    T = fr(p_th)
    holm = holm_exact([fr(v) for v in pi['p']])
    out = []
    for g in range(len(pi['p'])):
        q1, qd, f = fr(pi['q1'][g]), fr(pi['qdiff'][g]), fr(pi['fold'][g])
        strict = q1 > fr(th[0]) and qd > fr(th[2]) and f > fr(th[4])
        below = q1 < fr(th[1]) or qd < fr(th[3]) or f < fr(th[5])
        out.append({'weak': q1 >= fr(th[0]) and qd >= fr(th[2]) and f >= fr(th[4]), 'p_ok': holm[g] < T, 'p_near': holm[g] != T and abs(holm[g] - T) <= T * Fraction(1, 10 ** 9),
                    'strict': strict, 'below': below, 'listed': gene_ok[g]})
    return out


def spec_markers(pi, th, p_th, gene_ok, exact, up, down, n_min=2):
    """the property's statement for one pair on the observed up / down gene lists."""
    probs = []
    dec = exact_decisions(pi, th, p_th, gene_ok)
    big = pi['n1'] >= n_min and pi['n2'] >= n_min
    both = sorted(set(up) & set(down))
    if both:
        probs.append(('both', f'gene(s) {both} recorded both up and down'))
    for g, dd in enumerate(dec):
        rec = g in up or g in down
        if dd['p_near']:
            continue
        if rec:
            if not big:
                probs.append(('small', f'gene {g} recorded although a cluster has fewer than {n_min} cells '
                                       f'({pi["n1"]}, {pi["n2"]})'))
            if not dd['p_ok']:
                probs.append(('p', f'gene {g} recorded although its Holm-corrected p-value is not below p_th'))
            if dd['below']:
                probs.append(('floor', f'gene {g} recorded although below a floor'))
            if not dd['listed']:
                probs.append(('list', f'gene {g} recorded although not in the gene list'))
            if exact and not dd['strict']:
                probs.append(('exact', f'gene {g} recorded with exact penetrance although it fails a strict threshold'))
            want_up = pi['mean2'][g] > pi['mean1'][g]
            if (g in up) != want_up:
                probs.append(('direction', f'gene {g}: recorded {"up" if g in up else "down"}, means {pi["mean1"][g]} -> {pi["mean2"][g]}'))
        elif big and dd['p_ok'] and dd['strict'] and dd['listed']:
            probs.append(('missing', f'gene {g} passes every strict criterion but is not recorded'))
    return probs


def rows_of(ptr, idx):
    return [sorted(int(v) for v in idx[ptr[i]:ptr[i + 1]]) for i in range(len(ptr) - 1)]


def read_marker_file(path):
    with h5py.File(path, 'r') as f:
        o = {'pair_to_idx': json.loads(f['pair_to_idx'][()].decode('utf-8')),
             'gene_names': json.loads(f['gene_names'][()].decode('utf-8')), 'n_pairs': int(f['n_pairs'][()])}
        for grp in ('sparse_by_pair', 'sparse_by_gene'):
            for k in ('up_pair_idx', 'up_gene_idx', 'down_pair_idx', 'down_gene_idx'):
                o[f'{grp}/{k}'] = [int(v) for v in f[grp][k][()]]
    return o


def transpose_rows(rows, n_cols):
    out = [[] for _ in range(n_cols)]
    for i, r in enumerate(rows):
        for c in r:
            out[c].append(i)
    return out


def marker_error(e):
    msg = str(e)
    if isinstance(e, ValueError) and 'chunk dimensions must be positive' in msg.lower():
        return 'nochunk'
    if isinstance(e, RuntimeError) and 'do not overlap' in msg:
        return ERR['E_NOGENES']
    if isinstance(e, RuntimeError) and ('must be >' in msg):
        return ERR['E_Q1'] if 'q1_th must' in msg else ERR['E_QDIFF'] if 'qdiff_th must' in msg else ERR['E_FOLD']
    return f'{type(e).__name__}: {msg}'[:200]


TH_SETS = [
    [0.5, 0.1, 0.7, 0.1, 1.0, 0.8], [0.5, 0.1, 0.7, 0.1, 1.0, 0.8],
    [0.5, 0.25, 0.5, 0.25, 1.0, 0.5], [0.25, 0.0, 0.5, 0.0, 0.5, 0.25], [0.75, 0.5, 0.75, 0.5, 2.0, 1.0],
    [0.5, 0.0, 0.25, 0.0, 0.25, 0.0], [0.9375, 0.5, 0.875, 0.125, 3.0, 0.75],
]


def sdg_cases(ctx):
    """score_differential_genes itself, with n_valid_min and valid_gene_idx varied."""
    from cell_type_mapper.taxonomy.taxonomy_tree import TaxonomyTree
    from cell_type_mapper.diff_exp.score_utils import read_precomputed_stats
    from cell_type_mapper.diff_exp.scores import score_differential_genes
    from cell_type_mapper.utils.stats_utils import boring_t_from_p_value
    rng = ctx.rng
    d = ctx.scratch / 'sdg'
    d.mkdir()
    recs, cases = [], []
    for ci in range(ctx.n(60, 2500)):
        st = gen_stats(rng, exact_grid=rng.random() < 0.5)
        leaves = [f'c{i}' for i in range(st['n_leaves'])]
        genes = [f'g{i}' for i in range(st['n_genes'])]
        tree = {'hierarchy': ['cluster'], 'cluster': {c: [] for c in leaves}}
        path = d / 'stats.h5'
        write_stats_file(path, leaves, tree, st, genes)
        with quiet():
            cs = read_precomputed_stats(path, TaxonomyTree(data=tree), for_marker_selection=True)['cluster_stats']
        th = list(rng.choice(TH_SETS))
        p_th = rng.choice([0.01, 0.01, 0.05, 0.5, 1.0, 0.001])
        for a, b in rng.sample(list(itertools.combinations(leaves, 2)), min(3, st['n_leaves'] * (st['n_leaves'] - 1) // 2)):
            if rng.random() < 0.5:
                a, b = b, a
            exact = rng.random() < 0.25
            n_valid = rng.choice([1, 2, 3, 30])
            n_valid_min = rng.choice([0, 1, 2, 3, 10])
            vgi = None
            if rng.random() < 0.4:
                vgi = sorted(rng.sample(range(st['n_genes']), rng.randrange(0, st['n_genes'] + 1)))
            pi = pair_inputs(cs, 'cluster', a, b, p_th)
            with quiet():
                _, v, up = score_differential_genes(
                    node_1=f'cluster/{a}', node_2=f'cluster/{b}', precomputed_stats=cs, p_th=p_th, q1_th=th[0],
                    qdiff_th=th[2], log2_fold_th=th[4], q1_min_th=th[1], qdiff_min_th=th[3], log2_fold_min_th=th[5],
                    n_cells_min=2, boring_t=boring_t_from_p_value(p_th), exact_penetrance=exact, n_valid=n_valid,
                    n_valid_min=n_valid_min, valid_gene_idx=None if vgi is None else np.array(vgi, dtype=np.int64))
            k = scale_bits(pi['q1'] + pi['qdiff'] + pi['fold'] + pi['mean1'] + pi['mean2'] + th + [1.0])
            mask = None if vgi is None else [g in vgi for g in range(st['n_genes'])]
            cases.append((1105, [[1 << k, [to_int(x, k) for x in th], 2, exact, n_valid, n_valid_min],
                                 [] if mask is None else [mask], enc_pair(pi, p_th, k)]))
            recs.append((pi, th, p_th, exact, n_valid, n_valid_min, mask, [bool(x) for x in v], [bool(x) for x in up]))
    shutil.rmtree(d, ignore_errors=True)
    for (pi, th, p_th, exact, n_valid, n_valid_min, mask, v, up), r in zip(recs, ctx.model(cases)):
        desc = {'pair': pi, 'thresholds': th, 'p_th': p_th, 'exact': exact, 'n_valid': n_valid, 'n_valid_min': n_valid_min,
                'gene_mask': mask, 'observed_valid': v, 'observed_up': up, 'model': r}
        m = len(v)
        dec = exact_decisions(pi, th, p_th, mask or [True] * m)
        pass2 = None if mask is None and False else [(mask[g] if mask else True) and dec[g]['p_ok'] for g in range(m)]
        skip = near_tie(pi, th, p_th, mask) or near_tie(pi, th, p_th, pass2)
        ctx.count(('sdg', json.dumps(pi, sort_keys=True), tuple(th), p_th, exact, n_valid, n_valid_min, str(mask)),
                  nontrivial=any(v) and not all(v) and not skip)
        ctx.dist('score_differential_genes', 'near-tie-skipped' if skip else
                 ('small-cluster' if min(pi['n1'], pi['n2']) < 2 else ('some-valid' if any(v) else 'none-valid')))
        corr, prop = [], []
        if not skip:
            if r[0] != 0 or [bool(x) for x in r[1][0]] != v or [bool(x) for x in r[1][1]] != up:
                corr.append(f'validity {v} up {up}, model {r}')
        if min(pi['n1'], pi['n2']) >= 2 or not any(v):
            ups = [g for g in range(m) if v[g] and up[g]]
            downs = [g for g in range(m) if v[g] and not up[g]]
            prop += [t for _, t in spec_markers(pi, th, p_th, mask or [True] * m, exact, ups, downs)]
        else:
            prop.append('genes valid although a cluster has fewer than 2 cells')
        report(ctx, desc, corr, prop, 'score_differential_genes', 'Penetrance.score_differential_genes')


def f16_expected(w2, S):
    """the binary16 number _p_values_worker stores for a weighted distance w2/(2 S^2)."""
    v = float(Fraction(w2, 2 * S * S))
    v = min(max(v, 0.0), 65504.0)
    if v == 0.0:
        return -1.0
    eps = float(np.finfo(np.float16).resolution)
    if abs(v) < eps:
        v = eps
    with np.errstate(all='ignore'):
        return float(np.float16(v))


def mask_n_per(n_genes, max_gb, n_pairs, n_processors):
    """n_per of create_sparse_by_pair_marker_file_from_p_mask (max_gb already halved by the caller)."""
    n_per = int(np.round(max_gb * 1024 ** 3 / (n_genes * 20)))
    if n_per > n_pairs // (2 * n_processors):
        n_per = n_pairs // (2 * n_processors)
    if n_per == 0:
        n_per = 10000
    n_per -= n_per % 8
    return max(8, n_per)


def e2e_cases(ctx):
    from cell_type_mapper.taxonomy.taxonomy_tree import TaxonomyTree
    from cell_type_mapper.diff_exp.score_utils import read_precomputed_stats
    from cell_type_mapper.diff_exp.markers import find_markers_for_all_taxonomy_pairs
    from cell_type_mapper.diff_exp.p_value_mask import create_p_value_mask_file
    from cell_type_mapper.diff_exp.p_value_markers import find_markers_for_all_taxonomy_pairs_from_p_mask
    rng = ctx.rng
    for ci in range(ctx.n(30, 450)):
        d = ctx.scratch / f'e2e{ci}'
        d.mkdir()
        st = gen_stats(rng, exact_grid=rng.random() < 0.4, marker_like=rng.random() < 0.65)
        nl, ng = st['n_leaves'], st['n_genes']
        names = set()
        while len(names) < nl:
            names.add(rng.choice(['cl', 'X', 'a_', '1', 'Zz']) + str(rng.randrange(50)))
        leaves = sorted(names)
        rng.shuffle(leaves)
        genes = [f'{rng.choice(["g", "G", "ENS"])}{i}_{rng.randrange(9)}' for i in range(ng)]
        hier = ['class', 'cluster'] if rng.random() < 0.5 else ['cluster']
        tree = {'hierarchy': hier}
        if len(hier) == 2:
            k = rng.randrange(1, nl + 1)
            par = {f'P{i}': [] for i in range(k)}
            for i, c in enumerate(leaves):
                par[f'P{i}' if i < k else f'P{rng.randrange(k)}'].append(c)
            tree['class'] = par
        tree['cluster'] = {c: [] for c in leaves}
        th = list(rng.choice(TH_SETS))
        p_th = rng.choice([0.01, 0.01, 0.05, 0.5, 1.0])
        exact = rng.random() < 0.25
        n_valid = rng.choice([1, 2, 2, 3, 3, 30])
        if rng.random() < 0.8:
            n_valid = min(n_valid, ng)
        gl_kind = rng.choice(['none', 'none', 'none', 'subset', 'subset', 'subset+unknown', 'subset+unknown', 'disjoint'])
        gene_list = None
        if gl_kind.startswith('subset'):
            gene_list = rng.sample(genes, rng.randrange(1, ng + 1)) + (['nope1', 'nope2'] if 'unknown' in gl_kind else [])
        elif gl_kind == 'disjoint':
            gene_list = ['nope1', 'nope2']
        gene_ok = [gene_list is None or g in gene_list for g in genes]
        path = d / 'stats.h5'
        write_stats_file(path, leaves, tree, st, genes)
        with quiet():
            tt = TaxonomyTree(data=tree)
            cs = read_precomputed_stats(path, tt, for_marker_selection=True)['cluster_stats']
        pairs = list(itertools.combinations(sorted(leaves), 2))
        pis = [pair_inputs(cs, 'cluster', a, b, p_th) for a, b in pairs]
        k = scale_bits([x for pi in pis for key in ('q1', 'qdiff', 'fold', 'mean1', 'mean2') for x in pi[key]] + th + [1.0])
        S = 1 << k
        ith = [to_int(x, k) for x in th]
        base_desc = {'leaves': leaves, 'genes': genes, 'tree': tree, 'sizes': dict(zip(leaves, st['sizes'])),
                     'cells': {c: st['data'][i].tolist() for i, c in enumerate(leaves)}, 'thresholds': th, 'p_th': p_th,
                     'exact_penetrance': exact, 'n_valid': n_valid, 'gene_list': gene_list}
        skip = False
        for pi in pis:
            if min(pi['n1'], pi['n2']) < 2:
                continue
            m1 = None if gene_list is None else gene_ok
            dec = exact_decisions(pi, th, p_th, gene_ok)
            m2 = [gene_ok[g] and dec[g]['p_ok'] for g in range(ng)]
            if near_tie(pi, th, p_th, m1) or (not exact and near_tie(pi, th, p_th, m2)):
                skip = True
        # ---------------- main route, several worker counts / budgets
        cfgs = rng.sample([(w, gb) for w in (1, 2, 3, 4) for gb in (1.0e-9, 0.001, 1.0)], ctx.n(2, 3))
        outs = []
        for w, gb in cfgs:
            out = d / f'markers_{w}_{gb}.h5'
            tmp = d / f'tmp_{w}_{gb}'
            tmp.mkdir()
            try:
                with quiet():
                    find_markers_for_all_taxonomy_pairs(
                        precomputed_stats_path=path, taxonomy_tree=tt, output_path=out, p_th=p_th, q1_th=th[0],
                        qdiff_th=th[2], log2_fold_th=th[4], q1_min_th=th[1], qdiff_min_th=th[3], log2_fold_min_th=th[5],
                        n_processors=w, tmp_dir=str(tmp), max_gb=gb, exact_penetrance=exact, n_valid=n_valid,
                        gene_list=gene_list)
                outs.append((w, gb, read_marker_file(out), None))
            except Exception as e:      # noqa
                outs.append((w, gb, None, marker_error(e)))
        mcases = [(1106, [[S, ith, 2, exact, n_valid, 10], [ctx_rank(genes, g) for g in genes],
                          [] if gene_list is None else [[ctx_rank(genes, g) for g in gene_list]], w,
                          [enc_pair(pi, p_th, k) for pi in pis]]) for w, gb, _, _ in outs]
        mres = ctx.model(mcases)
        first_ok = None
        for (w, gb, o, err), r in zip(outs, mres):
            desc = dict(base_desc, n_processors=w, max_gb=gb, model=r, error=err, route='find_markers_for_all_taxonomy_pairs',
                        observed=None if o is None else {kk: vv for kk, vv in o.items() if kk.startswith('sparse')})
            n_rec = 0 if o is None else len(o['sparse_by_pair/up_gene_idx']) + len(o['sparse_by_pair/down_gene_idx'])
            ctx.count(('e2e', json.dumps(base_desc, sort_keys=True, default=str), w, gb),
                      nontrivial=bool(o is not None and n_rec >= 2 and nl >= 3 and not skip))
            ctx.dist('main_route', 'near-tie-skipped' if skip else ('ok' if o is not None else f'error-{err}'))
            ctx.dist('main_route_workers', w)
            corr, prop, cls = [], [], None
            if o is None:
                exp = r[1] if r[0] == 1 else None
                if not skip and (r[0] != 1 or exp != err):
                    corr.append(f'implementation raised {err}, model {r[:2]}')
                if err == 'nochunk':
                    # (regression of F17) a zero-size HDF5 chunk: the run aborts because one direction has no marker;
                    # markers of the other direction (or strictly passing genes) are lost with the run
                    lost = []
                    for (a, b), pi in zip(pairs, pis):
                        dec = exact_decisions(pi, th, p_th, gene_ok)
                        if min(pi['n1'], pi['n2']) >= 2:
                            lost += [(a, b, g) for g, dd in enumerate(dec) if dd['p_ok'] and dd['strict'] and dd['listed']]
                    ctx.dist('main_route_nochunk', 'markers-lost' if lost else 'nothing-to-record')
                    if lost:
                        prop.append(f'run raised "{err}" (no marker in one direction): strictly passing (pair, gene) {lost[:4]} are not recorded')
                        cls = F13
            else:
                if first_ok is None:
                    first_ok = o
                elif {kk: vv for kk, vv in o.items()} != first_ok:
                    prop.append('output depends on the worker count / memory budget')
                up_rows = rows_of(o['sparse_by_pair/up_pair_idx'], o['sparse_by_pair/up_gene_idx'])
                dn_rows = rows_of(o['sparse_by_pair/down_pair_idx'], o['sparse_by_pair/down_gene_idx'])
                n_up, n_dn = len(o['sparse_by_pair/up_gene_idx']), len(o['sparse_by_pair/down_gene_idx'])
                ctx.dist('main_route_directions', 'no-marker-at-all' if n_up + n_dn == 0 else
                         ('no-up-marker' if n_up == 0 else ('no-down-marker' if n_dn == 0 else 'both-directions')))
                if not skip:
                    if r[0] != 0:
                        corr.append(f'implementation wrote a file, model raises {r[:2]}')
                    else:
                        for name, mv in zip(('up_pair_idx', 'up_gene_idx', 'down_pair_idx', 'down_gene_idx'), r[1]):
                            if o[f'sparse_by_pair/{name}'] != mv:
                                corr.append(f'sparse_by_pair/{name} = {o["sparse_by_pair/" + name]}, model {mv}')
                # (b)
                if o['gene_names'] != genes or o['n_pairs'] != len(pairs):
                    prop.append('gene_names / n_pairs of the marker file differ from the statistics file')
                idx_of = {}
                for a, b in pairs:
                    idx_of[(a, b)] = o['pair_to_idx'].get('cluster', {}).get(a, {}).get(b)
                if sorted(v for v in idx_of.values() if v is not None) != list(range(len(pairs))):
                    prop.append(f'pair_to_idx {o["pair_to_idx"]} does not number the leaf pairs')
                elif len(up_rows) != len(pairs) or len(dn_rows) != len(pairs):
                    prop.append('sparse_by_pair index arrays do not have one row per pair')
                else:
                    for (a, b), pi in zip(pairs, pis):
                        i = idx_of[(a, b)]
                        for kind, text in spec_markers(pi, th, p_th, gene_ok, exact, up_rows[i], dn_rows[i]):
                            prop.append(f'pair ({a}, {b}): {text}')
                    for dirn, rows_ in (('up', up_rows), ('down', dn_rows)):
                        tr = transpose_rows(rows_, ng)
                        got = rows_of(o[f'sparse_by_gene/{dirn}_gene_idx'], o[f'sparse_by_gene/{dirn}_pair_idx']) \
                            if len(o[f'sparse_by_gene/{dirn}_gene_idx']) == ng + 1 else None
                        if got != tr:
                            prop.append(f'sparse_by_gene ({dirn}) is not the transpose of sparse_by_pair')
                        for rr in rows_:
                            if len(set(rr)) != len(rr):
                                prop.append(f'duplicate gene in a sparse_by_pair row ({dirn})')
            report(ctx, desc, corr, prop, 'markers', 'Penetrance.find_markers', cls)
        # ---------------- pair swap: rename the leaves so that their order reverses
        if first_ok is not None:
            order = sorted(leaves)
            ren = {c: f'r{len(order) - 1 - i:02d}_{c}' for i, c in enumerate(order)}
            tree2 = {'hierarchy': hier}
            if len(hier) == 2:
                tree2['class'] = {pp: [ren[c] for c in ch] for pp, ch in tree['class'].items()}
            tree2['cluster'] = {ren[c]: [] for c in leaves}
            path2 = d / 'stats_swapped.h5'
            write_stats_file(path2, [ren[c] for c in leaves], tree2, st, genes)
            out2 = d / 'markers_swapped.h5'
            o2, err2 = None, None
            try:
                with quiet():
                    find_markers_for_all_taxonomy_pairs(
                        precomputed_stats_path=path2, taxonomy_tree=TaxonomyTree(data=tree2), output_path=out2, p_th=p_th,
                        q1_th=th[0], qdiff_th=th[2], log2_fold_th=th[4], q1_min_th=th[1], qdiff_min_th=th[3],
                        log2_fold_min_th=th[5], n_processors=cfgs[0][0], tmp_dir=str(d), max_gb=1.0,
                        exact_penetrance=exact, n_valid=n_valid, gene_list=gene_list)
                o2 = read_marker_file(out2)
            except Exception as e:      # noqa
                err2 = marker_error(e)
            ctx.count()
            prop = []
            if o2 is None:
                prop.append(f'renaming the clusters makes the run fail: {err2}')
            else:
                up1 = rows_of(first_ok['sparse_by_pair/up_pair_idx'], first_ok['sparse_by_pair/up_gene_idx'])
                dn1 = rows_of(first_ok['sparse_by_pair/down_pair_idx'], first_ok['sparse_by_pair/down_gene_idx'])
                up2 = rows_of(o2['sparse_by_pair/up_pair_idx'], o2['sparse_by_pair/up_gene_idx'])
                dn2 = rows_of(o2['sparse_by_pair/down_pair_idx'], o2['sparse_by_pair/down_gene_idx'])
                for (a, b), pi in zip(pairs, pis):
                    i1 = first_ok['pair_to_idx']['cluster'][a][b]
                    i2 = o2['pair_to_idx']['cluster'].get(ren[b], {}).get(ren[a])
                    if i2 is None:
                        prop.append(f'pair ({ren[b]}, {ren[a]}) missing after renaming')
                        continue
                    if (up1[i1], dn1[i1]) != (dn2[i2], up2[i2]):
                        pi_sw = pair_inputs(read_precomputed_stats(path2, TaxonomyTree(data=tree2), True)['cluster_stats'],
                                            'cluster', ren[b], ren[a], p_th)
                        dsw = exact_decisions(pi_sw, th, p_th, gene_ok)
                        d0 = exact_decisions(pi, th, p_th, gene_ok)
                        if skip or any(x['p_near'] for x in dsw + d0) or any(x['p_ok'] != y['p_ok'] for x, y in zip(dsw, d0)):
                            ctx.dist('pair_swap', 'near-tie-skipped')
                            continue
                        prop.append(f'pair ({a}, {b}): up {up1[i1]} down {dn1[i1]}; swapped: up {up2[i2]} down {dn2[i2]}')
                ctx.dist('pair_swap', 'checked')
            report(ctx, dict(base_desc, renaming=ren, route='pair swap'), [], prop, 'pair_swap', 'Penetrance.find_markers')
        # ---------------- p-value mask route
        mask_ok = len(pairs) % 8 != 1 and gl_kind != 'disjoint' and n_valid <= ng
        if mask_ok:
            w = rng.randrange(1, 5)
            mpath = d / 'pmask.h5'
            n_per_mask = rng.choice([8, 8, 16, 10000])
            err = None
            try:
                with quiet():
                    create_p_value_mask_file(precomputed_stats_path=path, dst_path=mpath, p_th=p_th, q1_th=th[0],
                                             q1_min_th=th[1], qdiff_th=th[2], qdiff_min_th=th[3], log2_fold_th=th[4],
                                             log2_fold_min_th=th[5], n_processors=w, tmp_dir=str(d), n_per=n_per_mask)
                with h5py.File(mpath, 'r') as f:
                    mk = {'indptr': [int(v) for v in f['indptr'][()]], 'indices': [int(v) for v in f['indices'][()]],
                          'data': [float(v) for v in f['data'][()]], 'dtype': str(f['data'].dtype),
                          'pair_to_idx': json.loads(f['pair_to_idx'][()].decode('utf-8'))}
            except Exception as e:      # noqa
                err = marker_error(e)
            rows_m = ctx.model([(1108, [[S, ith, 2, exact, n_valid, 10], enc_pair(pi, p_th, k)]) for pi in pis])
            desc = dict(base_desc, n_processors=w, n_per=n_per_mask, route='create_p_value_mask_file', error=err,
                        observed=None if err else mk, model=rows_m)
            ctx.count(('mask', json.dumps(base_desc, sort_keys=True, default=str), w, n_per_mask),
                      nontrivial=bool(err is None and len(mk['indices']) >= 2 and not skip))
            total = sum(len(r[1]) for r in rows_m if r[0] == 0)
            ctx.dist('mask_file', 'near-tie-skipped' if skip else ('ok' if err is None else f'error-{err}'))
            corr, prop, cls = [], [], None
            if err is not None:
                if not skip:
                    corr.append(f'mask creation raised {err}; the model has {total} entries')
                if err == 'nochunk' and total == 0:
                    # (regression of F17, _merge_masks) no gene passes for any pair: the empty mask is well defined
                    ctx.dist('mask_file_nochunk', 'empty-mask')
            else:
                if mk['dtype'] != 'float16' or len(mk['indptr']) != len(pairs) + 1:
                    prop.append('mask file: wrong data type / number of rows')
                else:
                    for j, ((a, b), pi, r) in enumerate(zip(pairs, pis, rows_m)):
                        lo, hi = mk['indptr'][j], mk['indptr'][j + 1]
                        got = list(zip(mk['indices'][lo:hi], mk['data'][lo:hi]))
                        if not skip:
                            if r[0] != 0:
                                corr.append(f'mask row {j}: model raises {r[:2]}')
                            else:
                                want = [(g, f16_expected(w2, S)) for g, w2 in r[1]]
                                if got != want:
                                    corr.append(f'mask row {j} ({a}, {b}) = {got}, model {want}')
                        dec = exact_decisions(pi, th, p_th, [True] * ng)
                        for g, dist_ in got:
                            dd = dec[g]
                            if dd['p_near']:
                                continue
                            if not dd['p_ok'] or dd['below']:
                                prop.append(f'mask row ({a}, {b}) keeps gene {g} (corrected p below p_th: {dd["p_ok"]}, below a floor: {dd["below"]})')
                            if (dd['strict'] and dist_ != -1.0) or (dist_ == -1.0 and not dd['weak']):
                                prop.append(f'mask row ({a}, {b}) gene {g}: stored {dist_}, strictly passing: {dd["strict"]}, '
                                            f'on or above every strict threshold: {dd["weak"]}')
                        for g, dd in enumerate(dec):
                            if dd['p_ok'] and not dd['below'] and not dd['p_near'] and g not in [x[0] for x in got]:
                                prop.append(f'mask row ({a}, {b}) lacks gene {g} although corrected p < p_th and above all floors')
            report(ctx, desc, corr, prop, 'p_value_mask', 'Penetrance.p_mask_row', cls)
            if err is None:
                runs = []
                for w2_, gb in rng.sample([(ww, g_) for ww in (1, 2, 3, 4) for g_ in (1.0e-9, 1.0)], 2):
                    n_per2 = mask_n_per(ng, 0.5 * gb, len(pairs), w2_)
                    if len(pairs) % n_per2 == 1:
                        continue
                    out = d / f'from_mask_{w2_}_{gb}.h5'
                    tmp = d / f'tmpm_{w2_}_{gb}'
                    tmp.mkdir()
                    try:
                        with quiet():
                            find_markers_for_all_taxonomy_pairs_from_p_mask(
                                precomputed_stats_path=path, p_value_mask_path=mpath, output_path=out, n_processors=w2_,
                                tmp_dir=str(tmp), max_gb=gb, n_valid=n_valid, gene_list=gene_list)
                        runs.append((w2_, gb, n_per2, read_marker_file(out), None))
                    except Exception as e:      # noqa
                        runs.append((w2_, gb, n_per2, None, marker_error(e)))
                k16 = 24
                mp = []
                for j, pi in enumerate(pis):
                    lo, hi = mk['indptr'][j], mk['indptr'][j + 1]
                    mp.append([[[g, to_int(v, k16)] for g, v in zip(mk['indices'][lo:hi], mk['data'][lo:hi])],
                               [to_int(v, k) for v in pi['mean1']], [to_int(v, k) for v in pi['mean2']]])
                res2 = ctx.model([(1109, [1 << k16, n_valid, [ctx_rank(genes, g) for g in genes],
                                          [] if gene_list is None else [[ctx_rank(genes, g) for g in gene_list]], n_per2, mp])
                                  for (_, _, n_per2, _, _) in runs])
                first2 = None
                for (w2_, gb, n_per2, o, err2), r in zip(runs, res2):
                    desc = dict(base_desc, n_processors=w2_, max_gb=gb, route='find_markers_for_all_taxonomy_pairs_from_p_mask',
                                mask=mk, model=r, error=err2,
                                observed=None if o is None else {kk: vv for kk, vv in o.items() if kk.startswith('sparse')})
                    ctx.count(('frommask', json.dumps(base_desc, sort_keys=True, default=str), w2_, gb),
                              nontrivial=bool(o is not None and len(o['sparse_by_pair/up_gene_idx']) >= 1 and nl >= 3))
                    ctx.dist('mask_route', 'ok' if o is not None else f'error-{err2}')
                    corr, prop, cls = [], [], None
                    if o is None:
                        exp = r[1] if r[0] == 1 else None
                        if r[0] != 1 or exp != err2:
                            corr.append(f'implementation raised {err2}, model {r[:2]}')
                        if err2 == 'nochunk':
                            # (regression of F17) the markers present in the mask file are lost with the run
                            lost = [(a, b, g) for (a, b), row in zip(pairs, mp) for g, v in row[0]
                                    if v < 0 and gene_ok[g]]
                            if lost:
                                prop.append(f'mask route raised "{err2}" (no marker in one direction): strictly valid listed '
                                            f'(pair, gene) {lost[:4]} of the mask file are not recorded')
                                cls = F13
                    else:
                        n_up, n_dn = len(o['sparse_by_pair/up_gene_idx']), len(o['sparse_by_pair/down_gene_idx'])
                        ctx.dist('mask_route_directions', 'no-marker-at-all' if n_up + n_dn == 0 else
                                 ('no-up-marker' if n_up == 0 else ('no-down-marker' if n_dn == 0 else 'both-directions')))
                        if first2 is None:
                            first2 = o
                        elif o != first2:
                            prop.append('mask route: output depends on the worker count / memory budget')
                        if r[0] != 0:
                            corr.append(f'implementation wrote a file, model raises {r[:2]}')
                        else:
                            for name, mv in zip(('up_pair_idx', 'up_gene_idx', 'down_pair_idx', 'down_gene_idx'), r[1]):
                                if o[f'sparse_by_pair/{name}'] != mv:
                                    corr.append(f'sparse_by_pair/{name} = {o["sparse_by_pair/" + name]}, model {mv}')
                        up_rows = rows_of(o['sparse_by_pair/up_pair_idx'], o['sparse_by_pair/up_gene_idx'])
                        dn_rows = rows_of(o['sparse_by_pair/down_pair_idx'], o['sparse_by_pair/down_gene_idx'])
                        small = False
                        for (a, b), pi in zip(pairs, pis):
                            i = o['pair_to_idx']['cluster'][a][b]
                            for kind, text in spec_markers(pi, th, p_th, gene_ok, False, up_rows[i], dn_rows[i]):
                                if kind == 'small':
                                    small = True
                                prop.append((kind, f'pair ({a}, {b}): {text}'))
                        if small and all(kind in ('small',) for kind, _ in prop if isinstance(kind, str)):
                            cls = F12
                        elif small:
                            # other clauses may fail on the same one-cell pairs only
                            cls = F12 if all(kind == 'small' or True for kind, _ in prop) and \
                                all(min(pi['n1'], pi['n2']) < 2 for (a, b), pi in zip(pairs, pis)
                                    if any(f'({a}, {b})' in t for kk, t in prop if kk != 'small')) else None
                        prop = [t for _, t in sorted(prop, key=lambda x: x[0] != 'small')]
                        for dirn, rows_ in (('up', up_rows), ('down', dn_rows)):
                            got = rows_of(o[f'sparse_by_gene/{dirn}_gene_idx'], o[f'sparse_by_gene/{dirn}_pair_idx']) \
                                if len(o[f'sparse_by_gene/{dirn}_gene_idx']) == ng + 1 else None
                            if got != transpose_rows(rows_, ng):
                                prop.append(f'mask route: sparse_by_gene ({dirn}) is not the transpose of sparse_by_pair')
                                cls = None
                    report(ctx, desc, corr, prop, 'markers_from_mask', 'Penetrance.find_markers_from_mask', cls)
        shutil.rmtree(d, ignore_errors=True)


# ------------------------------------------------------------------ F. from the summary statistics (Model/Welch.v)
F_INFO = np.finfo(float)
CLIP_LO = float(F_INFO.smallest_normal)
CLIP_HI = 1.0 - float(F_INFO.epsneg)
BORING_NU = 'c11-boring-t-skips-gene-with-exact-p-below-threshold-at-huge-nu'


def summary_row(X, D=4):
    """the row of the statistics file of one leaf as exact integers: n, sum*D, sumsq*D*D, gt0, gt1, ge1."""
    n, ng = X.shape
    sm = [to_int(X[:, g].sum() * D, 0) for g in range(ng)]
    sq = [to_int((X[:, g] ** 2).sum() * D * D, 0) for g in range(ng)]
    return [int(n), sm, sq, [int((X[:, g] > 0.0).sum()) for g in range(ng)],
            [int((X[:, g] > 1.0).sum()) for g in range(ng)], [int((X[:, g] > 1.0 - 1.0e-6).sum()) for g in range(ng)]]


def raw_leaf_stats(X):
    return {'n_cells': np.int64(X.shape[0]), 'sum': X.sum(axis=0), 'sumsq': (X ** 2).sum(axis=0),
            'gt0': (X > 0.0).sum(axis=0), 'gt1': (X > 1.0).sum(axis=0), 'ge1': (X > 1.0 - 1.0e-6).sum(axis=0)}


def stored_row(raw, D):
    """the row of the statistics file of one leaf AS STORED: the float sum / sumsq read as exact dyadic
    numbers over D / D*D (D a power of two large enough)."""
    ng = len(raw['sum'])
    sm, sq = [], []
    for g in range(ng):
        a, b = fr(raw['sum'][g]) * D, fr(raw['sumsq'][g]) * D * D
        assert a.denominator == 1 and b.denominator == 1, (raw['sum'][g], raw['sumsq'][g], D)
        sm.append(a.numerator)
        sq.append(b.numerator)
    return [int(raw['n_cells']), sm, sq, [int(x) for x in raw['gt0']], [int(x) for x in raw['gt1']], [int(x) for x in raw['ge1']]]


def stored_D(raws):
    k = 2
    for raw in raws:
        for g in range(len(raw['sum'])):
            k = max(k, fr(raw['sum'][g]).denominator.bit_length() - 1,
                    (fr(raw['sumsq'][g]).denominator.bit_length()) // 2 + 1)
    return 1 << k


NONDYADIC = [0.7, 3.3, 0.1, 1.1, 2.7, 5.3, 0.3, 9.9, 1.7, 0.9]


def gen_nondyadic_stats(rng):
    """clusters whose genes are CONSTANT at a non-dyadic value (0.7, 3.3, 0.1 ...: the stored sum / sumsq give a
    tiny float variance of either sign or exactly 0), constant at a dyadic value (2.0, 0.25, 0: float variance
    exactly 0), or scattered non-dyadic values (one or two decimals)."""
    n_genes = rng.choice([2, 3, 4, 5, 6])
    n_leaves = rng.choice([2, 2, 3])
    sizes = [rng.choice([1, 2, 3, 4, 5, 6, 7, 9, 11, 12, 17]) for _ in range(n_leaves)]
    kinds = [rng.choice(['const-nd', 'const-nd', 'const-nd', 'const-dy', 'scatter', 'const-nd-vs-zero']) for _ in range(n_genes)]
    data = [np.zeros((n, n_genes)) for n in sizes]
    for g, kind in enumerate(kinds):
        for c in range(n_leaves):
            n = sizes[c]
            if kind == 'const-nd':
                data[c][:, g] = rng.choice(NONDYADIC)
            elif kind == 'const-nd-vs-zero':
                data[c][:, g] = rng.choice(NONDYADIC) if c == 0 else 0.0
            elif kind == 'const-dy':
                data[c][:, g] = rng.choice([0.0, 2.0, 0.25, 8.0, 1.5])
            else:
                base = rng.choice([0.0, 0.0, 2.0, 6.0])
                data[c][:, g] = [round(base + rng.uniform(0.0, 3.0), rng.choice([1, 2])) for _ in range(n)]
    return {'n_genes': n_genes, 'n_leaves': n_leaves, 'sizes': sizes, 'data': data, 'kinds': kinds}


def rat_close(val, num, den, exact):
    """float `val` against the model's exact rational: identical when one correctly rounded operation
    separates them (exact), else to 1e-12 relative."""
    ref = Fraction(num, den)
    if not np.isfinite(val):
        return False
    if exact:
        return float(ref) == float(val)
    return abs(fr(val) - ref) <= abs(ref) * Fraction(1, 10 ** 12)


def tnu_check(m, tt, nu, n1, n2):
    """model tnu (wire form) against the floats of _calculate_tt_nu; returns a problem string or None."""
    kind = m[0]
    if kind == 2:
        return None if (min(n1, n2) < 1 and not np.isfinite(nu)) else f'model says nu = nan (a cluster without cells), code nu = {nu!r}, n = {n1},{n2}'
    if min(n1, n2) < 1:
        return f'n = {n1},{n2} but the model gives a finite statistic {m}'
    if kind == 0:
        sgn, t2n, t2d, nun, nud = m[1:]
        if t2d <= 0 or nud <= 0:
            return f'model denominators not positive: {m}'
        if not np.isfinite(tt) or (tt > 0) - (tt < 0) != sgn:
            return f'sign of t: code {tt!r}, model {sgn}'
        if not rat_close(tt * tt, t2n, t2d, False) and not (t2n == 0 and tt == 0):
            return f't^2: code {tt * tt!r}, model {t2n}/{t2d}'
    else:
        dn, dd, nun, nud = m[1:]
        ref = Fraction(dn, dd) / Fraction(1.0e-10)
        if not np.isfinite(tt) or abs(fr(tt) - ref) > abs(ref) * Fraction(1, 10 ** 12):
            return f't with denom = 1e-10: code {tt!r}, model {float(ref)!r}'
    if not np.isfinite(nu) or (nun == 0) != (nu == 0) or not rat_close(nu, nun, nud, False):
        return f'nu: code {nu!r}, model {nun}/{nud}'
    return None


def welch_cases(ctx):
    """Model/Welch.v against the real aggregate_stats, _calculate_tt_nu, welch_t_test (exact and skipping),
    pij_from_stats, q_score_from_pij and score_differential_genes, all fed from the SAME summary statistics
    (values multiples of 1/4, so sums and sums of squares are exact; cluster sizes 0, 1, 2, ... incl. zero
    variance - AND non-dyadic values incl. genes constant at 0.7, 3.3 ...: there the STORED float sum / sumsq are
    read as exact dyadics and the model's variance is the binary64 variance var_f, compared bit for bit);
    scipy's t.cdf enters the model as an oracle TABLE statistic -> value (a function of the model's own
    (sign, t^2, nu), built here from tag 1150's output).  Also checks NUMERICALLY, on every
    gene that occurs, the premises of c11_boring_t_sound / c11_welch_route_sound (end points and sandwich)."""
    from cell_type_mapper.diff_exp.score_utils import aggregate_stats, pij_from_stats, q_score_from_pij
    from cell_type_mapper.diff_exp.scores import score_differential_genes
    from cell_type_mapper.utils.stats_utils import _calculate_tt_nu, welch_t_test, boring_t_from_p_value
    import scipy.stats as ss
    rng = ctx.rng
    jobs = []
    n_exact = ctx.n(60, 1500)
    for ci in range(n_exact + ctx.n(40, 800)):
        nondy = ci >= n_exact
        if nondy:
            st = gen_nondyadic_stats(rng)
        else:
            st = gen_stats(rng, exact_grid=rng.random() < 0.6, marker_like=rng.random() < 0.4)
        if not nondy and rng.random() < 0.3:      # cluster sizes the marker-like generator avoids
            k = rng.randrange(st['n_leaves'])
            n_new = rng.choice([0, 1, 1, 1])
            st['data'][k] = st['data'][k][:n_new, :]
            st['sizes'][k] = n_new
        leaves = [f'c{i}' for i in range(st['n_leaves'])]
        raw = {c: raw_leaf_stats(st['data'][i]) for i, c in enumerate(leaves)}
        if nondy:
            # the statistics AS STORED, read as exact dyadics; single leaves only (aggregate_stats adds the
            # leaves' float sums, which rounds again: the model's input is one stored row per population)
            D = stored_D(raw.values())
            rows = {c: stored_row(raw[c], D) for c in leaves}
        else:
            D = 4
            rows = {c: summary_row(st['data'][i], D) for i, c in enumerate(leaves)}
        # two populations: single leaves or unions of leaves (aggregate_stats)
        order = leaves[:]
        rng.shuffle(order)
        cut = rng.randrange(1, len(order))
        pop1 = order[:cut][:1 if nondy else rng.choice([1, 1, 2])]
        pop2 = order[cut:][:1 if nondy else rng.choice([1, 1, 2])]
        with quiet():
            a1 = aggregate_stats(leaf_population=pop1, precomputed_stats=raw)
            a2 = aggregate_stats(leaf_population=pop2, precomputed_stats=raw)
        jobs.append({'st': st, 'pop1': pop1, 'pop2': pop2, 'a1': a1, 'a2': a2, 'D': D, 'nondy': nondy,
                     'rows1': [rows[c] for c in pop1], 'rows2': [rows[c] for c in pop2]})
    agg = ctx.model([(1154, [j['st']['n_genes'], j[k]]) for j in jobs for k in ('rows1', 'rows2')])
    stage2 = []
    for i, j in enumerate(jobs):
        j['s1'], j['s2'] = agg[2 * i][1], agg[2 * i + 1][1]
        stage2 += [(1150, [j['D'], j['s1'], j['s2']]), (1151, [j['D'], j['s1'], j['s2']])]
    res2 = ctx.model(stage2)
    stage3, metas = [], []
    for i, j in enumerate(jobs):
        st, a1, a2, D, nondy = j['st'], j['a1'], j['a2'], j['D'], j['nondy']
        ng = st['n_genes']
        n1, n2 = int(a1['n_cells']), int(a2['n_cells'])
        desc = {'pop1': j['pop1'], 'pop2': j['pop2'], 'n1': n1, 'n2': n2, 'D': D, 'summary1': j['s1'], 'summary2': j['s2']}
        corr, prop = [], []
        # -- aggregate_stats: n, and mean / var below
        if j['s1'][0] != n1 or j['s2'][0] != n2:
            corr.append(f'aggregate n_cells {n1},{n2} vs model {j["s1"][0]},{j["s2"][0]}')
        r_t, r_s = res2[2 * i], res2[2 * i + 1]
        if r_t[0] != 0 or r_s[0] != 0:
            corr.append(f'model error {r_t[:2]} {r_s[:2]}')
            report(ctx, desc, corr, prop, 'welch_from_stats', 'Welch.welch_gene')
            continue
        with quiet():
            tt, nu = _calculate_tt_nu(mean1=a1['mean'], var1=a1['var'], n1=a1['n_cells'],
                                      mean2=a2['mean'], var2=a2['var'], n2=a2['n_cells'])
            cs = {'x/a': a1, 'x/b': a2}
            pij1, pij2, fold = pij_from_stats(cluster_stats=cs, node_1='x/a', node_2='x/b')
            q1, qd = q_score_from_pij(pij1, pij2)
        pow2 = all(n & (n - 1) == 0 for n in (max(1, n1), max(1, n2), max(1, n1 - 1), max(1, n2 - 1)))
        for g in range(ng):
            pr = tnu_check(r_t[1][g], float(tt[g]), float(nu[g]), n1, n2)
            if pr:
                corr.append(f'gene {g}: {pr}')
            names = ('mean1', 'mean2', 'var1', 'var2', 'pij1', 'pij2', 'q1', 'qdiff', 'fold')
            vals = (a1['mean'][g], a2['mean'][g], a1['var'][g], a2['var'][g], pij1[g], pij2[g], q1[g], qd[g], fold[g])
            # var1, var2: the model's var_f IS the binary64 variance - identical bit for bit, always
            # means and fold likewise (mean_f, |mdiff_f|); pij and q1 are one correctly rounded division
            single = (True, True, True, True, True, True, True, pow2, True)
            for name, v, (num, den), one in zip(names, vals, r_s[1][g], single):
                if den <= 0 or not rat_close(float(v), num, den, one):
                    corr.append(f'gene {g}: {name} code {float(v)!r}, model {num}/{den}')
        # zero variance in both clusters (n >= 2) / one-cell clusters: what the property text names
        zero_var = [g for g in range(ng) if min(n1, n2) >= 1 and a1['var'][g] == 0 and a2['var'][g] == 0]
        for g in zero_var:
            if r_t[1][g][0] != 1 or r_t[1][g][3] != 0:
                corr.append(f'gene {g}: zero variance in both clusters but the model gives {r_t[1][g]}, expected kind 1 with nu = 0')
        # which branch of _calculate_tt_nu: denom = 1e-10 exactly when var1/n1 + var2/n2 is not > 0 (0, negative, NaN)
        if min(n1, n2) >= 1:
            with np.errstate(all='ignore'):
                nu_num = a1['var'] / a1['n_cells'] + a2['var'] / a2['n_cells']
            for g in range(ng):
                tiny = not (float(nu_num[g]) > 0.0)
                if (r_t[1][g][0] == 1) != tiny:
                    corr.append(f'gene {g}: code nu_num = {float(nu_num[g])!r} (denom {"1e-10" if tiny else "sqrt"}), model kind {r_t[1][g][0]}')
                if nondy:
                    const = all(len(set(st['data'][int(c[1:])][:, g])) <= 1 for c in j['pop1'] + j['pop2'])
                    if const:
                        NOISE['constant genes'] += 1
                        NOISE['float variance sum ' + ('== 0' if float(nu_num[g]) == 0.0 else '< 0' if float(nu_num[g]) < 0 else '> 0')] += 1
        ctx.dist('welch_from_stats', ('nondyadic,' if nondy else '') + ('n=0' if min(n1, n2) == 0 else 'n=1' if min(n1, n2) == 1 else 'n>=2')
                 + (',zero-variance-gene' if zero_var else '') + (',union' if len(j['pop1']) + len(j['pop2']) > 2 else ''))
        # -- p-values, exact and skipping, with scipy's CDF as the oracle
        p_th = rng.choice([0.01, 0.01, 0.02, 0.045, 0.001, 1.0e-5, 0.5, 1.0])
        bt = boring_t_from_p_value(p_th)
        with quiet():
            cdf = ss.t.cdf(tt, df=nu)
            _, _, p_exact = welch_t_test(mean1=a1['mean'], var1=a1['var'], n1=a1['n_cells'], mean2=a2['mean'],
                                         var2=a2['var'], n2=a2['n_cells'], boring_t=None, big_nu=None)
            _, _, p_skip = welch_t_test(mean1=a1['mean'], var1=a1['var'], n1=a1['n_cells'], mean2=a2['mean'],
                                        var2=a2['var'], n2=a2['n_cells'], boring_t=bt, big_nu=None)
        fin = [float(c) for c in cdf if np.isfinite(c)]
        kc = max(scale_bits(fin + [CLIP_LO, CLIP_HI, p_th, 0.5]), 2)
        H = 1 << (kc - 1)
        cdfs = [[to_int(float(c), kc)] if np.isfinite(c) else [] for c in cdf]
        # the oracle as a FUNCTION of the modelled statistic: table (model's own tnu of gene g) -> CDF value;
        # two genes with the same statistic must have the same value (else the oracle is not a function: reported)
        table, seen = [], {}
        for g in range(ng):
            key = json.dumps(r_t[1][g])
            if key in seen:
                if seen[key] != cdfs[g]:
                    corr.append(f'gene {g}: same modelled statistic {r_t[1][g]} as an earlier gene but a different CDF value '
                                f'({cdfs[g]} vs {seen[key]}): t.cdf is not a function of the modelled (t, nu)')
                continue
            seen[key] = cdfs[g]
            table.append([r_t[1][g], cdfs[g]])
        cdfs = table
        bq = [] if bt is None else [fr(bt).numerator, fr(bt).denominator]
        near_b = bt is not None and any(np.isfinite(t) and abs(abs(float(t)) - bt) <= 1e-9 * bt for t in tt)
        # premises of the skipping theorems, numerically, on every gene that occurs
        if bt is not None:
            prem = boring_premises(ss, [float(x) for x in tt], [float(x) for x in nu], bt, p_th)
            for pb in prem:
                prop.append(pb)
        th = list(rng.choice(TH_SETS))
        exact = rng.random() < 0.3
        n_valid = rng.choice([1, 2, 3, 30])
        n_valid_min = rng.choice([0, 1, 2, 3, 10])
        vgi = sorted(rng.sample(range(ng), rng.randrange(0, ng + 1))) if rng.random() < 0.4 else None
        n_min = rng.choice([2, 2, 2, 1, 0])
        with quiet():
            _, v, up = score_differential_genes(
                node_1='x/a', node_2='x/b', precomputed_stats=cs, p_th=p_th, q1_th=th[0], qdiff_th=th[2],
                log2_fold_th=th[4], q1_min_th=th[1], qdiff_min_th=th[3], log2_fold_min_th=th[5], n_cells_min=n_min,
                boring_t=bt, exact_penetrance=exact, n_valid=n_valid, n_valid_min=n_valid_min,
                valid_gene_idx=None if vgi is None else np.array(vgi, dtype=np.int64))
        S = 1 << scale_bits(th + [1.0])
        for g in range(ng):
            for num, den in (r_s[1][g][k] for k in (0, 1, 6, 7, 8)):
                S = S * den // math.gcd(S, den)
        # a rational score of the model and the float score of the code on different sides of a threshold / floor:
        # legitimate only within rounding distance (off_threshold of c11_sound_from_stats fails "up to rounding")
        hit = []
        for g in range(ng):
            if vgi is not None and g not in vgi:
                continue
            for name, fv, (num, den), ths in (('q1', q1[g], r_s[1][g][6], (th[0], th[1])), ('qdiff', qd[g], r_s[1][g][7], (th[2], th[3])),
                                              ('fold', fold[g], r_s[1][g][8], (th[4], th[5]))):
                r = Fraction(num, den)
                for t in ths:
                    T_ = fr(t)
                    if ((fr(fv) > T_) - (fr(fv) < T_)) != ((r > T_) - (r < T_)):
                        if abs(r - T_) <= max(abs(T_), Fraction(1, 2 ** 40)) * Fraction(1, 2 ** 44):
                            hit.append(f'gene {g}: {name} = {num}/{den} (float {float(fv)!r}) against {t!r}')
                        else:
                            corr.append(f'gene {g}: {name} code {float(fv)!r}, model {num}/{den} compare differently with {t!r}, beyond rounding')
        mask = None if vgi is None else [g in vgi for g in range(ng)]
        settings = [S, [int(fr(x) * S) for x in th], n_min, exact, n_valid, n_valid_min]
        for b_enc, tag_p in ((bq, 'skip'), ([], 'exact')):
            stage3.append((1153, [D, H, to_int(CLIP_LO, kc), to_int(CLIP_HI, kc), b_enc, cdfs, j['s1'], j['s2']]))
        stage3.append((1152, [settings, [] if mask is None else [mask], D, H, to_int(CLIP_LO, kc), to_int(CLIP_HI, kc),
                              to_int(p_th, kc), bq, cdfs, j['s1'], j['s2']]))
        pi = {'n1': n1, 'n2': n2, 'p': [float(x) if np.isfinite(x) else 1.0 for x in p_skip], 'q1': [float(x) for x in q1],
              'qdiff': [float(x) for x in qd], 'fold': [float(x) for x in fold],
              'mean1': [float(x) for x in a1['mean']], 'mean2': [float(x) for x in a2['mean']]}
        metas.append({'desc': dict(desc, p_th=p_th, boring_t=bt, thresholds=th, exact=exact, n_valid=n_valid,
                                   n_valid_min=n_valid_min, gene_mask=mask, n_cells_min=n_min),
                      'corr': corr, 'prop': prop, 'kc': kc, 'p_exact': [float(x) for x in p_exact],
                      'p_skip': [float(x) for x in p_skip], 'near_b': near_b, 'v': [bool(x) for x in v],
                      'up': [bool(x) for x in up], 'pi': pi, 'th': th, 'p_th': p_th, 'mask': mask, 'n_min': n_min,
                      'hit': hit, 'nondy': nondy, 'st': st, 'pops': j['pop1'] + j['pop2'], 'tnu': r_t[1]})
    res3 = ctx.model(stage3)
    for i, m in enumerate(metas):
        r_skip, r_exact, r_sdg = res3[3 * i: 3 * i + 3]
        corr, prop, kc = m['corr'], m['prop'], m['kc']
        for name, r, obs, skip in (('approximate_welch_t_test', r_skip, m['p_skip'], m['near_b']),
                                   ('exact_welch_t_test', r_exact, m['p_exact'], False)):
            if skip:
                continue
            if r[0] != 0 or [Fraction(x, 1 << kc) for x in r[1]] != [fr(x) for x in obs]:
                corr.append(f'{name}: p-values {obs[:6]}, model {[float(Fraction(x, 1 << kc)) for x in r[1]][:6] if r[0] == 0 else r}')
        pi, th, p_th, mask, v, up = m['pi'], m['th'], m['p_th'], m['mask'], m['v'], m['up']
        ng = len(v)
        small = min(pi['n1'], pi['n2']) < m['n_min']
        skip = m['near_b']
        if m['hit']:
            # counted, never silently skipped: evidence key c11_threshold_hit_exactly
            HITS['in welch_cases (model decision not compared)'] += 1
            if len(HITS_EXAMPLES) < 5:
                HITS_EXAMPLES.append(m['hit'][0])
            skip = True
        if m['nondy'] and not small:
            for g in range(ng):
                if all(len(set(m['st']['data'][int(c[1:])][:, g])) <= 1 for c in m['pops']) and m['tnu'][g][0] != 2:
                    nz = m['tnu'][g][3] != 0
                    NOISE['constant gene, nu ' + ('> 0 (rounding residue)' if nz else '= 0') + (': RECORDED' if v[g] else ': not recorded')] += 1
                    if v[g] and not nz:
                        corr.append(f'gene {g}: constant with float variance exactly 0 in both clusters but recorded (c11_welch_constant_gene)')
        if not small and not skip:
            dec = exact_decisions(pi, th, p_th, mask or [True] * ng)
            pass2 = [(mask[g] if mask else True) and dec[g]['p_ok'] for g in range(ng)]
            skip = near_tie(pi, th, p_th, mask) or near_tie(pi, th, p_th, pass2)
        if not skip and (r_sdg[0] != 0 or [bool(x) for x in r_sdg[1][0]] != v or [bool(x) for x in r_sdg[1][1]] != up):
            corr.append(f'score_differential_genes from the statistics: validity {v} up {up}, model {r_sdg}')
        ctx.count(('welch', json.dumps(m['desc'], sort_keys=True, default=str)), nontrivial=any(v) and not all(v) and not skip)
        ctx.dist('sdg_from_stats', 'near-tie-skipped' if skip else ('small-cluster' if small else ('some-valid' if any(v) else 'none-valid')))
        if len(ctx.samples) < 6 and any(v):
            ctx.sample({'welch_from_stats': m['desc'], 'valid': v, 'up': up})
        m['desc']['observed_valid'], m['desc']['observed_up'] = v, up
        if prop:
            m['desc']['class'] = 'c11-boring-premise-false-on-occurring-value'
            ctx.violation('premise of c11_boring_t_sound false on a value that occurs: ' + '; '.join(prop[:3]), m['desc'])
            prop = []
        report(ctx, m['desc'], corr, prop, 'welch_from_stats', 'Welch.sdg_stats')


PREMISES_CHECKED = {'end_points': 0, 'skipped_genes': 0}
import collections
NOISE = collections.Counter()
HITS = collections.Counter()
HITS_EXAMPLES = []
CONST_GENE = 'c11-constant-gene-not-recorded'


def threshold_hit_cases(ctx):
    """Audit 3, defect A1: count ratios placed EXACTLY on the default thresholds 0.7 (qdiff_th), 0.1 (qdiff_min_th,
    q1_min_th) and 0.8 (log2_fold_min_th), cluster sizes <= 40, one gene.  The real score_differential_genes is
    compared with BOTH exact readings - thresholds as the decimal rationals the user wrote (7/10 ...: the reading
    of c11_sound_from_stats' off_threshold), and thresholds as the binary64 numbers they are stored as (the reading
    of the tie) - and with the model (tag 1152, dyadic reading).  Where the float comparison differs from an exact
    one the case is COUNTED (ctx.extra['c11_threshold_hit_exactly']), not reported: float rounding at an exactly-hit
    threshold is outside the property's "up to rounding" (ctx.assumptions)."""
    from cell_type_mapper.diff_exp.score_utils import aggregate_stats, pij_from_stats, q_score_from_pij
    from cell_type_mapper.diff_exp.scores import score_differential_genes
    from cell_type_mapper.utils.stats_utils import welch_t_test
    rng = ctx.rng
    TH = [0.5, 0.1, 0.7, 0.1, 1.0, 0.8]
    dec = [Fraction(str(x)) for x in TH]
    dya = [fr(x) for x in TH]
    cand = {'qdiff=7/10': [], 'qdiff=1/10': [], 'q1=1/10': [], 'fold=4/5': []}
    for n1 in range(2, 41):
        for n2 in range(2, 41):
            for g1 in range(0, n1 + 1):
                for g2 in range(0, n2 + 1):
                    p1, p2 = Fraction(g1, n1), Fraction(g2, n2)
                    q = max(p1, p2)
                    qd = abs(p1 - p2) / q if q > 0 else abs(p1 - p2)
                    if qd == Fraction(7, 10) and q > Fraction(1, 2):
                        cand['qdiff=7/10'].append((n1, g1, n2, g2))
                    elif qd == Fraction(1, 10) and q > Fraction(1, 2):
                        cand['qdiff=1/10'].append((n1, g1, n2, g2))
                    elif q == Fraction(1, 10) and qd >= Fraction(1, 2):
                        cand['q1=1/10'].append((n1, g1, n2, g2))
    for n1 in (5, 10, 15, 20, 25, 35):
        for n2 in (2, 3, 4, 5, 7, 10):
            cand['fold=4/5'].append((n1, n1, n2, 0))
    out = collections.Counter()
    examples = []
    jobs = []
    for kind, lst in cand.items():
        out[f'{kind}: quadruples n<=40'] = len(lst)
        for (n1, g1, n2, g2) in (lst if ctx.tier == 'thorough' and len(lst) <= 3000 else rng.sample(lst, min(len(lst), ctx.n(40, 1500)))):
            # dyadic cell values (sums exact): expressing cells alternate hi/hi+1, the others 0 / 0.5
            if kind == 'fold=4/5':
                # mean1 = 4/5 exactly as a rational (4 of every 5 cells at 1.0, the others 0), mean2 = 0:
                # fold = 4/5 = log2_fold_min_th as written; pij = 4/5 against 0
                Xa = np.array([[1.0 if i % 5 < 4 else 0.0] for i in range(n1)])
                Xb = np.zeros((n2, 1))
            else:
                hi_a, hi_b = (2.0, 9.0) if kind != 'q1=1/10' else (2.0, 12.0)
                Xa = np.array([[hi_a + (i % 2) if i < g1 else 0.5 * (i % 2)] for i in range(n1)])
                Xb = np.array([[hi_b + (i % 2) if i < g2 else 0.5 * (i % 2)] for i in range(n2)])
            raw = {'a': raw_leaf_stats(Xa), 'b': raw_leaf_stats(Xb)}
            with quiet():
                cs = {'x/a': aggregate_stats(['a'], raw), 'x/b': aggregate_stats(['b'], raw)}
                pij1, pij2, fold = pij_from_stats(cluster_stats=cs, node_1='x/a', node_2='x/b')
                q1f, qdf = q_score_from_pij(pij1, pij2)
                _, _, pv = welch_t_test(cs['x/a']['mean'], cs['x/a']['var'], n1, cs['x/b']['mean'], cs['x/b']['var'], n2)
                res = {}
                for exact in (True, False):
                    _, v, _ = score_differential_genes(
                        node_1='x/a', node_2='x/b', precomputed_stats=cs, p_th=0.9, q1_th=TH[0], qdiff_th=TH[2], log2_fold_th=TH[4],
                        q1_min_th=TH[1], qdiff_min_th=TH[3], log2_fold_min_th=TH[5], n_cells_min=2, boring_t=None,
                        exact_penetrance=exact, n_valid=1, n_valid_min=0)
                    res[exact] = bool(v[0])
            p_ok = float(pv[0]) < 0.9
            r_q1 = max(Fraction(int(raw['a']['ge1'][0]), n1), Fraction(int(raw['b']['ge1'][0]), n2))
            dp = abs(Fraction(int(raw['a']['ge1'][0]), n1) - Fraction(int(raw['b']['ge1'][0]), n2))
            r_qd = dp / r_q1 if r_q1 > 0 else dp
            r_f = abs(fr(raw['a']['sum'][0]) / n1 - fr(raw['b']['sum'][0]) / n2)
            ctx.count(('threshold-hit', kind, n1, g1, n2, g2), nontrivial=p_ok)
            for rd, ths in (('decimal', dec), ('binary64', dya)):
                want = {True: p_ok and r_q1 > ths[0] and r_qd > ths[2] and r_f > ths[4],
                        # one gene, n_valid = 1: recorded iff p passes and the gene is not below a floor
                        False: p_ok and r_q1 >= ths[1] and r_qd >= ths[3] and r_f >= ths[5]}
                for exact in (True, False):
                    mode = 'exact-penetrance' if exact else 'approximate'
                    same = want[exact] == res[exact]
                    out[f'{kind}, {mode}: real code {"agrees with" if same else "DIFFERS from"} the exact {rd} reading'] += 1
                    if not same and len(examples) < 8:
                        examples.append({'kind': kind, 'mode': mode, 'reading': rd, 'n1': n1, 'ge1_1': g1, 'n2': n2, 'ge1_2': g2,
                                         'float_q1': float(q1f[0]), 'float_qdiff': float(qdf[0]), 'float_fold': float(fold[0]),
                                         'real_code_records': res[exact], 'exact_reading_records': want[exact]})
            jobs.append({'kind': kind, 'raw': raw, 'res': res, 'pv': float(pv[0]), 'n1': n1, 'n2': n2})
    # the model on the same statistics (dyadic reading of the thresholds, as in welch_cases)
    D = 4
    calls = []
    for j in jobs:
        rows = [stored_row(j['raw'][c], D) for c in ('a', 'b')]
        j['rows'] = rows
        calls.append((1150, [D, rows[0], rows[1]]))
        calls.append((1151, [D, rows[0], rows[1]]))
    r1 = ctx.model(calls)
    calls = []
    for i, j in enumerate(jobs):
        r_t, r_s = r1[2 * i], r1[2 * i + 1]
        S = 1 << scale_bits(TH + [1.0])
        for num, den in (r_s[1][0][k] for k in (0, 1, 6, 7, 8)):
            S = S * den // math.gcd(S, den)
        kc = max(scale_bits([j['pv'] / 2.0, CLIP_LO, CLIP_HI, 0.9, 0.5]), 2)
        H = 1 << (kc - 1)
        # p = 2*cdf or 2*(1-cdf): hand the model the CDF value cdf = p/2 (lower tail), which gives back p
        table = [[r_t[1][0], [to_int(j['pv'] / 2.0, kc)]]]
        for exact in (True, False):
            settings = [S, [int(fr(x) * S) for x in TH], 2, exact, 1, 0]
            calls.append((1152, [settings, [], D, H, to_int(CLIP_LO, kc), to_int(CLIP_HI, kc), to_int(0.9, kc), [], table,
                                 j['rows'][0], j['rows'][1]]))
    r2 = ctx.model(calls)
    for i, j in enumerate(jobs):
        for k, exact in enumerate((True, False)):
            r = r2[2 * i + k]
            mode = 'exact-penetrance' if exact else 'approximate'
            if r[0] != 0:
                ctx.violation(f'threshold_hit_cases: model error {r}', {'class': 'corr:Welch.sdg_stats', 'case': j['kind']}, no_input=True)
                continue
            same = bool(r[1][0][0]) == j['res'][exact]
            out[f'{j["kind"]}, {mode}: real code {"agrees with" if same else "DIFFERS from"} the model (binary64 thresholds, rational scores)'] += 1
    ctx.extra['c11_threshold_hit_exactly'] = {'counts': dict(sorted(out.items())), 'examples': examples,
                                              'welch_cases': dict(HITS), 'welch_cases_examples': HITS_EXAMPLES}


def constant_gene_case(ctx):
    """Finding F33 (c11-constant-gene-not-recorded): a gene CONSTANT in both clusters at values whose float variance
    is exactly 0 (all cells 2.0 against all cells 0.0 - as different as two clusters can be, penetrance 1 against 0)
    gets nu = 0, t.cdf = NaN, p = 1 and is NOT recorded, while the same gene at 3.3 / 1.1 (float variance 1e-15 by
    cancellation) IS recorded with t ~ 1e8: whether a constant gene is a marker is decided by rounding noise.  The
    independent Welch test (scipy.stats.ttest_ind, equal_var=False) gives t = inf, p = 0 for all of them."""
    from cell_type_mapper.diff_exp.score_utils import aggregate_stats
    from cell_type_mapper.diff_exp.scores import score_differential_genes
    import scipy.stats as ss
    got = {}
    for v1 in (2.0, 8.0, 3.3, 1.1):
        Xa, Xb = np.full((11 if v1 == 3.3 else 5, 1), v1), np.zeros((6, 1))
        raw = {'a': raw_leaf_stats(Xa), 'b': raw_leaf_stats(Xb)}
        with quiet():
            cs = {'x/a': aggregate_stats(['a'], raw), 'x/b': aggregate_stats(['b'], raw)}
            _, v, up = score_differential_genes(
                node_1='x/a', node_2='x/b', precomputed_stats=cs, p_th=0.01, q1_th=0.5, qdiff_th=0.7, log2_fold_th=1.0,
                q1_min_th=0.1, qdiff_min_th=0.1, log2_fold_min_th=0.8, n_cells_min=2, boring_t=None, exact_penetrance=True)
            ref = ss.ttest_ind(Xa[:, 0], Xb[:, 0], equal_var=False)
        got[v1] = {'recorded': bool(v[0]), 'float_var': float(cs['x/a']['var'][0]), 'independent_welch_p': float(ref.pvalue)}
        ctx.count(('constant-gene', v1), nontrivial=True)
    ctx.extra['c11_constant_genes'] = {str(k): v for k, v in got.items()}
    for v1 in (2.0, 8.0):
        if not got[v1]['recorded'] and got[v1]['independent_welch_p'] < 0.01:
            ctx.violation(f'gene constant at {v1} in one cluster and 0.0 in the other (penetrance 1 vs 0, fold {v1}, independent Welch '
                          f'p = {got[v1]["independent_welch_p"]}) passes every strict threshold and is NOT recorded (nu = 0, t.cdf = NaN, p = 1); '
                          f'constant at 3.3 / 1.1 it is recorded ({got[3.3]["recorded"]}, {got[1.1]["recorded"]}) thanks to a float variance of '
                          f'{got[3.3]["float_var"]!r}', {'class': CONST_GENE, 'value': v1, 'observed': {str(k): v for k, v in got.items()}})
    if not (got[3.3]['recorded'] and got[1.1]['recorded']):
        ctx.violation('constant non-dyadic gene (3.3 x 11 / 1.1 x 5 cells against zeros) not recorded: the rounding-noise behaviour '
                      'described in c11_welch_constant_gene_noise changed', {'class': 'corr:Welch.var_f', 'observed': {str(k): v for k, v in got.items()}},
                      no_input=True)


def boring_premises(ss, tt, nu, bt, p_th):
    """The premises of c11_boring_t_sound (end_lo, end_hi, monotone between the end points) and of
    c11_welch_route_sound (the exact two-sided p-value of every SKIPPED gene is >= p_th), evaluated with
    the operations the code itself uses (2.0*cdf, 2.0*(1.0-cdf)) on every (t, nu) that occurs."""
    out = []
    with np.errstate(all='ignore'):
        for t, v in zip(tt, nu):
            if not (np.isfinite(t) and np.isfinite(v)) or v <= 0:
                continue
            lo_c, hi_c = float(ss.t.cdf(-bt, df=v)), float(ss.t.cdf(bt, df=v))
            if not (np.isfinite(lo_c) and np.isfinite(hi_c)):
                continue
            PREMISES_CHECKED['end_points'] += 1
            if not 2.0 * lo_c >= p_th:
                out.append(f'end_lo: 2*t.cdf(-{bt!r}, nu={v!r}) = {2.0 * lo_c!r} < p_th = {p_th!r}')
            if not 2.0 * (1.0 - hi_c) >= p_th:
                out.append(f'end_hi: 2*(1-t.cdf({bt!r}, nu={v!r})) = {2.0 * (1.0 - hi_c)!r} < p_th = {p_th!r}')
            if -bt <= t <= bt:
                PREMISES_CHECKED['skipped_genes'] += 1
                c = float(ss.t.cdf(t, df=v))
                if not (lo_c <= c <= hi_c):
                    out.append(f't_mono: t.cdf({t!r}, nu={v!r}) = {c!r} outside [{lo_c!r}, {hi_c!r}] = cdf(-+boring_t)')
                if not (2.0 * c >= p_th and 2.0 * (1.0 - c) >= p_th):
                    out.append(f'skipped gene t = {t!r}, nu = {v!r}: exact two-sided p {2.0 * min(c, 1.0 - c)!r} < p_th = {p_th!r}')
    return out


def boring_premise_cases(ctx):
    """end_lo / end_hi over the whole range of p_th and of nu the pipeline can produce on data of the sizes
    the harness generates and far beyond (nu up to 1e6), and the measured limit: for nu above a few million
    the premise fails (finding F22 (C11-boring-huge-nu), boring_huge_nu_case) - recorded as a number, not assumed."""
    from cell_type_mapper.utils.stats_utils import boring_t_from_p_value
    import scipy.stats as ss
    rng = ctx.rng
    bad = []
    limits = {}
    p_list = [1.0e-11, 1.0e-10, 1.0e-8, 1.0e-5, 0.001, 0.005, 0.01, 0.02, 0.045] + \
             [10 ** rng.uniform(-11, math.log10(0.0455)) for _ in range(ctx.n(20, 300))]
    for p_th in p_list:
        bt = boring_t_from_p_value(p_th)
        if bt is None:
            continue
        nus = [0.5, 1.0, 2.0, 3.0, 10.0, 100.0, 1.0e3, 1.0e4, 1.0e5, 1.0e6] + [10 ** rng.uniform(-1, 6) for _ in range(10)]
        bad += boring_premises(ss, [0.0, bt, -bt, 0.5 * bt] * len(nus), [v for v in nus for _ in range(4)], bt, p_th)
        if p_th in (0.01, 0.02, 0.001):
            lo, hi = 1.0e6, 1.0e12
            for _ in range(60):
                mid = math.sqrt(lo * hi)
                if 2.0 * float(ss.t.cdf(-bt, df=mid)) >= p_th:
                    lo = mid
                else:
                    hi = mid
            limits[str(p_th)] = lo
    ctx.extra['boring_premise_end_lo_holds_up_to_nu'] = limits
    ctx.count(('boring-premises', len(p_list)), nontrivial=True)
    for pb in bad[:5]:
        ctx.violation('premise of c11_boring_t_sound false for the real boring_t / scipy CDF: ' + pb,
                      {'class': 'c11-boring-premise-false-on-occurring-value', 'problem': pb})
    if any(v < 1.0e6 for v in limits.values()):
        ctx.violation('end_lo fails below nu = 1e6', {'class': 'c11-boring-premise-false-on-occurring-value', 'limits': limits})


def boring_huge_nu_case(ctx):
    """Finding F22 (C11-boring-huge-nu): two clusters of 1e7 cells (statistics only), one gene with |t| 2e-7 below
    boring_t: its exact Welch p-value (Holm multiplier 1) is below p_th, so score_differential_genes with exact
    p-values records it, but the worker's call (boring_t = boring_t_from_p_value(p_th)) gives it p = 1."""
    from cell_type_mapper.utils.stats_utils import boring_t_from_p_value, welch_t_test
    from cell_type_mapper.diff_exp.scores import score_differential_genes
    for p_th in (0.01, 0.02):
        bt = boring_t_from_p_value(p_th)
        n = 10 ** 7
        d = (bt - 2.0e-7) * float(np.sqrt(2.0 / n))
        stats = {'c/a': {'n_cells': n, 'mean': np.array([8.0 + d]), 'var': np.array([1.0]), 'ge1': np.array([n])},
                 'c/b': {'n_cells': n, 'mean': np.array([8.0]), 'var': np.array([1.0]), 'ge1': np.array([0])}}
        kw = dict(node_1='c/a', node_2='c/b', precomputed_stats=stats, p_th=p_th, q1_th=0.5, qdiff_th=0.7,
                  log2_fold_th=0.001, q1_min_th=0.1, qdiff_min_th=0.1, log2_fold_min_th=0.0005, n_cells_min=2,
                  exact_penetrance=True)
        with quiet():
            tt, nu, p_exact = welch_t_test(mean1=stats['c/a']['mean'], var1=stats['c/a']['var'], n1=n,
                                           mean2=stats['c/b']['mean'], var2=stats['c/b']['var'], n2=n)
            _, v_exact, _ = score_differential_genes(boring_t=None, **kw)
            _, v_code, _ = score_differential_genes(boring_t=bt, **kw)
        ctx.count(('boring-huge-nu', p_th), nontrivial=True)
        if bool(v_exact[0]) and not bool(v_code[0]):
            ctx.violation(f'gene with exact Holm-corrected Welch p = {float(p_exact[0])!r} < p_th = {p_th} is not recorded: '
                          f't = {float(tt[0])!r} lies inside (-boring_t, boring_t), boring_t = {float(bt)!r}, nu = {float(nu[0])!r}',
                          {'class': BORING_NU, 'p_th': p_th, 'boring_t': float(bt), 't': float(tt[0]), 'nu': float(nu[0]),
                           'n_cells': n, 'mean1': float(stats['c/a']['mean'][0]), 'mean2': 8.0, 'var': 1.0,
                           'exact_p': float(p_exact[0]), 'valid_with_exact_p': bool(v_exact[0]),
                           'valid_as_the_worker_computes': bool(v_code[0])})


def totalisation_cases(ctx):
    """the inputs excluded by pair_wf and 1 <= n_processors are exactly where Python raises (the model is total
    there: c11_ragged_pair_is_totalised, c11_zero_workers_is_totalised)."""
    from cell_type_mapper.diff_exp.scores import score_differential_genes
    stats = {'c/a': {'n_cells': 3, 'mean': np.array([8.0, 8.0]), 'var': np.array([1.0, 1.0]), 'ge1': np.array([3, 3])},
             'c/b': {'n_cells': 3, 'mean': np.array([0.0, 0.0, 1.0]), 'var': np.array([1.0, 1.0, 1.0]), 'ge1': np.array([0, 0, 0])}}
    raised = None
    try:
        with quiet():
            score_differential_genes(node_1='c/a', node_2='c/b', precomputed_stats=stats, p_th=0.01)
    except ValueError as e:
        raised = 'ValueError'
    except Exception as e:      # any other refusal is a refusal too, but say which
        raised = type(e).__name__
    ctx.count(('ragged', raised), nontrivial=True)
    if raised is None:
        ctx.violation('score_differential_genes accepted per-gene arrays of different lengths (pair_wf is assumed to be '
                      'enforced by numpy)', {'class': 'corr:Penetrance.pair_wf', 'stats': 'lengths 2 and 3'}, no_input=True)
    try:
        n_pairs, n_processors = 100, 0
        min(1000000, n_pairs // (2 * n_processors))          # markers.py:320, the expression itself
        ctx.violation('n_pairs // (2*0) did not raise', {'class': 'corr:Penetrance.n_per_of'}, no_input=True)
    except ZeroDivisionError:
        ctx.count(('zero-workers', 'ZeroDivisionError'), nontrivial=True)


def ctx_rank(genes, g):
    """order-preserving integer names for genes; unknown names get ranks beyond the known ones."""
    allg = sorted(set(genes) | {'nope1', 'nope2'})
    return allg.index(g)


def run(ctx):
    ctx.rule = ('unit level: Holm on a 2^-10 grid with ties / restricted Holm at thresholds on and off the grid; penetrance '
                'distance and tests on a 1/64 (q) x 1/16 (fold) grid with values on, next to (2^-16..2^-20) and away from '
                'the thresholds, floors on the grid or within 2^-16..2^-20 of the threshold; _get_validity_mask on binary16 '
                'distances.  non-trivial = >=3 genes with ties (Holm), mixed accept/reject (penetrance, mask)')
    ctx.assumptions += [
        'sections A-E: raw Welch p-values, q1/qdiff/log2-fold scores and means are model INPUTS taken from the '
        'implementation\'s own routines; section F (welch_cases) computes them in the model from the summary statistics '
        '(values multiples of 1/4, cluster sizes 0, 1, 2, ..., unions of leaves; and non-dyadic values incl. genes constant at '
        '0.7, 3.3 ..., single leaves, the STORED float sum / sumsq read as exact dyadics, the variance modelled in binary64) with '
        'scipy.stats.t.cdf as an oracle that is a FUNCTION of the modelled statistic (table statistic -> value)',
        'float rounding at an exactly-hit threshold is outside the property\'s "up to rounding": when a rational score equals a '
        'threshold or floor as written (7/10, 1/10, 4/5) or lies within 2^-44 (relative) of its binary64 value, the float score '
        'may fall on the other side and the real code decides the opposite of the exact computation (hypothesis off_threshold of '
        'c11_sound_from_stats / c11_complete_from_stats).  Such cases are generated on purpose (threshold_hit_cases: 0.7 / 0.1 / '
        '0.8 with n <= 40) and counted in evidence under c11_threshold_hit_exactly, with the real outcome against both exact '
        'readings; in welch_cases a case with such a hit is counted there and its model decision is not compared',
        'scipy.stats.t.cdf(x, df=0) is NaN (hypothesis of c11_welch_constant_gene; observed on every zero-variance gene)',
        'premises of c11_boring_t_sound (end_lo, end_hi, monotone on [-boring_t, boring_t]) and of c11_sound_exact_welch '
        '(exact p of a skipped gene >= p_th) are evaluated numerically on every (t, nu) that occurs and for p_th in '
        '[1e-11, 0.0455] x nu in [0.1, 1e6]; they fail for nu above a few million (known finding, boring_huge_nu_case)',
        'threshold settings: every setting with each strict threshold above its floor, including floors within '
        '2^-16..2^-20 of the threshold (the settings of the repaired finding F8; no distance between threshold and floor '
        'is assumed any more)',
        'floors are >= 0 so that genes outside the gene list (scored q1 = -1, qdiff = 0, fold = -1) lie below a floor',
        'p_th in [1e-11, 1] (boring_t_from_p_value rejects smaller values)',
        'decisions of the float code whose exact counterpart is within 1e-9 (relative) of flipping (p*m next to p_th, a '
        'distance next to 1e-10, two nearly equal distances ordered differently by rounding) are counted and skipped',
        'p-value-mask route: a chunk of exactly one pair makes the worker raise (np.diff of one index) - an error, not an '
        'unsound output: taxonomies with n_pairs % n_per == 1 are not run on that route; n_valid <= number of genes there '
        '(otherwise _get_validity_mask raises IndexError, covered by the function-level tie); gene lists overlap the genes',
        'statistics in which no gene is recorded in one direction (or in either) for any pair are generated and must '
        'give a marker file with an empty gene_idx array (repaired finding F17; formerly a ValueError modelled as an error)',
    ]
    holm_cases(ctx)
    penetrance_cases(ctx)
    validity_mask_cases(ctx)
    sdg_cases(ctx)
    e2e_cases(ctx)
    welch_cases(ctx)
    threshold_hit_cases(ctx)
    constant_gene_case(ctx)
    ctx.extra['c11_constant_gene_rounding_noise'] = dict(NOISE)
    boring_premise_cases(ctx)
    boring_huge_nu_case(ctx)
    totalisation_cases(ctx)
    big_cluster_cases(ctx)
    ctx.extra['boring_premises_checked'] = dict(PREMISES_CHECKED)
    ctx.extra['welch_p_values_checked_against_reference'] = WELCH_CHECKED[0]
    for w in WELCH_ISSUES:
        w['class'] = 'c11-raw-p-value-is-not-the-welch-p-value'
        ctx.violation('welch_t_test: ' + '; '.join(w['problems']), w)


F35 = 'F35-welch-nu-int64-wrap-above-2-21-cells'


def big_cluster_cases(ctx):
    """Cluster sizes above 2**21 cells ('cluster sizes from 1 up'): the Welch-Satterthwaite degrees of freedom of the
    real _calculate_tt_nu (sizes handed over as np.int64, as read_raw_precomputed_stats does) against the exact rational
    formula.  n**3 - n**2 wrapped around in int64 there (finding F35, fixed in /repo 0bfa522)."""
    from fractions import Fraction
    from cell_type_mapper.utils.stats_utils import _calculate_tt_nu
    rng = ctx.rng
    sizes = [(2200000, 2300000), (2097153, 2097153), (2642245, 1000000), (3000000, 5), (2097152, 2097152),
             (rng.randrange(2 ** 21, 2 ** 24), rng.randrange(2 ** 21, 2 ** 24)), (10 ** 7, 10 ** 7)]
    for n1, n2 in sizes:
        v1 = [rng.randrange(1, 64) / 8.0 for _ in range(3)]
        v2 = [rng.randrange(1, 64) / 8.0 for _ in range(3)]
        m1 = [rng.randrange(0, 80) / 8.0 for _ in range(3)]
        m2 = [rng.randrange(0, 80) / 8.0 for _ in range(3)]
        tt, nu = _calculate_tt_nu(mean1=np.array(m1), var1=np.array(v1), n1=np.int64(n1),
                                  mean2=np.array(m2), var2=np.array(v2), n2=np.int64(n2))
        ctx.count(('big-cluster', n1, n2), nontrivial=True)
        ctx.dist('welch_cluster_size', '> 2^21 cells')
        for g in range(3):
            a, b = Fraction(v1[g]) / n1, Fraction(v2[g]) / n2
            want = (a + b) ** 2 / (Fraction(v1[g]) ** 2 / (n1 ** 3 - n1 ** 2) + Fraction(v2[g]) ** 2 / (n2 ** 3 - n2 ** 2))
            got = float(nu[g])
            if not (got > 0 and abs(got - float(want)) <= 1e-9 * float(want)):
                ctx.disagreements_checked += 1
                ctx.violation(f'_calculate_tt_nu with n1={n1}, n2={n2} cells (np.int64), variances {v1[g]}, {v2[g]}: nu = {got}, the '
                              f'Welch-Satterthwaite formula gives {float(want)}',
                              {'class': F35, 'kind': 'big-cluster', 'n1': n1, 'n2': n2, 'var1': v1, 'var2': v2, 'mean1': m1,
                               'mean2': m2, 'nu': [float(x) for x in nu], 'expected_nu_gene': float(want), 'gene': g})
                break


def replay(ctx, rec):
    print(json.dumps(rec, indent=1, default=str)[:6000])
    return 0
