"""C11 — reference markers are sound and complete for the stated criteria.

Tie: correct_ttest / approx_correct_ttest / penetrance_parameter_distance / approx_penetrance_test /
exact_penetrance_test / score_differential_genes / _get_validity_mask on dyadic grids where binary64
arithmetic is exact, then both routes end to end (find_markers_for_all_taxonomy_pairs; p-value mask
route) on generated statistics files, vs coq/Model/Holm.v + Penetrance.v (tags 1101-1111), plus the
property's own statement on every observed output."""
import contextlib
import io
import itertools
import json
import pathlib
import shutil
import warnings
from fractions import Fraction

import h5py
import numpy as np

EPS10 = Fraction(1.0e-10)
EPS6 = Fraction(1.0e-6)
ERR = {'E_SHAPE': 1, 'E_Q1': 2, 'E_QDIFF': 3, 'E_FOLD': 4, 'E_EMPTY': 5, 'E_INDEX': 6, 'E_NOGENES': 7,
       'E_NOUP': 8, 'E_NODOWN': 9}
F8 = 'F8-floor-within-1e-5-of-strict-threshold'
F12 = 'F12-mask-route-records-pair-with-one-cell-cluster'
F13 = 'F13-no-marker-in-one-direction-raises'


@contextlib.contextmanager
def quiet():
    with contextlib.redirect_stdout(io.StringIO()), warnings.catch_warnings(), np.errstate(all='ignore'):
        warnings.simplefilter('ignore')
        yield


def fr(x):
    return Fraction(float(x))


def scale_bits(values):
    k = 0
    for v in values:
        k = max(k, fr(v).denominator.bit_length() - 1)
    return k


def to_int(v, k):
    f = fr(v) * (1 << k)
    assert f.denominator == 1, (v, k)
    return f.numerator


# ------------------------------------------------------------------ exact reference computations
def holm_exact(p, order=None):
    """full Holm-Bonferroni in exact arithmetic; `order` optionally breaks ties differently."""
    m = len(p)
    idx = sorted(range(m), key=(lambda i: (p[i], i)) if order is None else (lambda i: (p[i], order[i])))
    out = [None] * m
    acc = None
    for rank, i in enumerate(idx):
        v = p[i] * (m - rank)
        acc = v if acc is None else max(acc, v)
        out[i] = min(acc, Fraction(1))
    return out


def report(ctx, desc, corr, prop, kind, model_fn, cls=None):
    if not corr and not prop:
        return
    ctx.disagreements_checked += 1
    desc = dict(desc, kind=kind, problems=(prop + corr)[:8])
    if prop:
        desc['class'] = cls or (f'{kind}:' + prop[0].split(':')[0][:60].replace(' ', '-'))
        ctx.violation(f'{kind}: ' + '; '.join((prop + corr)[:3]), desc)
    else:
        desc['class'] = f'corr:{model_fn}'
        ctx.violation(f'{kind}: model and implementation disagree: ' + '; '.join(corr[:3]), desc, no_input=True)


# ------------------------------------------------------------------ A. Holm
def holm_cases(ctx):
    from cell_type_mapper.utils.stats_utils import correct_ttest, approx_correct_ttest
    rng = ctx.rng
    K = 10
    grid = [i / 1024 for i in (0, 1, 2, 3, 5, 8, 16, 64, 100, 128, 256, 300, 512, 700, 1000, 1023, 1024)]
    recs, cases = [], []
    for _ in range(ctx.n(700, 25000)):
        n = rng.choice([0, 1, 2, 3, 4, 5, 6, 8, 10])
        pool = rng.sample(grid, rng.randrange(1, 6))
        p = [rng.choice(pool) for _ in range(n)]
        kind = rng.choice(['full', 'pad', 'approx', 'approx'])
        if kind == 'approx':
            th = rng.choice(grid[1:] + [1.0, 1.0, 1.25, 0.01])
            k = max(K, scale_bits([th]))
            with quiet():
                obs = approx_correct_ttest(np.array(p, dtype=float), th)
            cases.append((1102, [1 << k, to_int(th, k), [to_int(v, k) for v in p]]))
            recs.append((kind, p, th, k, obs))
        else:
            pad = 0 if kind == 'full' else rng.randrange(0, 6)
            with quiet():
                obs = correct_ttest(np.array(p, dtype=float), padding=pad)
            cases.append((1101, [1 << K, pad, [to_int(v, K) for v in p]]))
            recs.append((kind, p, pad, K, obs))
    res = ctx.model(cases)
    for (kind, p, arg, k, obs), r in zip(recs, res):
        desc = {'fn': 'approx_correct_ttest' if kind == 'approx' else 'correct_ttest', 'p': p,
                'p_th' if kind == 'approx' else 'padding': arg, 'observed': [float(v) for v in obs], 'model': r}
        ties = len(set(p)) < len(p)
        ctx.count(('holm', kind, tuple(p), arg), nontrivial=len(p) >= 3 and ties)
        ctx.dist('holm', kind + ('/ties' if ties else ''))
        corr, prop = [], []
        got = [fr(v) for v in obs]
        if r[0] != 0 or [Fraction(v, 1 << k) for v in r[1]] != got:
            corr.append(f'observed {[float(v) for v in obs]} model {r}')
        pf = [fr(v) for v in p]
        if kind == 'full':
            # tie invariance: any order among equal p-values gives the observed values
            alt = holm_exact(pf, order=[-i for i in range(len(p))])
            if got != holm_exact(pf) or got != alt:
                prop.append(f'correct_ttest differs from the Holm-Bonferroni values {[float(v) for v in holm_exact(pf)]}')
        if kind == 'approx' and arg <= 1.0:
            full = holm_exact(pf)
            T = fr(arg)
            for i in range(len(p)):
                if (got[i] < T) != (full[i] < T):
                    prop.append(f'gene {i}: restricted value {float(got[i])} vs full Holm {float(full[i])} decide differently at p_th')
                elif pf[i] < T and got[i] != full[i]:
                    prop.append(f'gene {i}: p below p_th but restricted value {float(got[i])} != full Holm {float(full[i])}')
        report(ctx, desc, corr, prop, 'holm', 'Holm.' + desc['fn'])


# ------------------------------------------------------------------ B. penetrance
Q_GRID = [i / 64 for i in (0, 1, 4, 6, 7, 8, 16, 32, 44, 45, 46, 48, 63, 64)]
F_GRID = [i / 16 for i in (0, 1, 8, 12, 13, 14, 16, 17, 24, 40)]
FINE = [2.0 ** -17, 2.0 ** -20, 2.0 ** -16, 2.0 ** -18]


def gen_thresholds(rng, tight=False):
    """(q1_th, q1_min, qdiff_th, qdiff_min, fold_th, fold_min), each strict threshold above its floor."""
    out = []
    for grid in (Q_GRID, Q_GRID, F_GRID):
        while True:
            th = rng.choice(grid[2:])
            if tight and rng.random() < 0.6:
                mn = th - rng.choice(FINE)
            else:
                mn = rng.choice([g for g in grid if g < th])
            if mn < th:
                break
        out += [th, mn]
    return out


def gen_score(rng, th, tight):
    """one gene's (q1, qdiff, fold) on the grid, with values at / next to the thresholds."""
    vals = []
    for k, grid in enumerate((Q_GRID, Q_GRID, F_GRID)):
        t, mn = th[2 * k], th[2 * k + 1]
        r = rng.random()
        if r < 0.25:
            v = rng.choice([t, mn])
        elif r < 0.45 and tight:
            v = rng.choice([t, mn]) + rng.choice([-1, 1]) * rng.choice(FINE)
        elif r < 0.7:
            v = rng.choice([g for g in grid if g > t] or [t])
        else:
            v = rng.choice(grid)
        vals.append(v)
    return vals


def spec_penetrance(scores, th, valid, exact):
    """the property's statement on a penetrance mask: returns (unsound genes, missing genes, extra-when-exact)."""
    q1_th, q1_min, qd_th, qd_min, f_th, f_min = th
    unsound, missing, extra = [], [], []
    for g, ((q1, qd, f), v) in enumerate(zip(scores, valid)):
        strict = q1 > q1_th and qd > qd_th and f > f_th
        below = q1 < q1_min or qd < qd_min or f < f_min
        if v and below:
            unsound.append(g)
        if strict and not v:
            missing.append(g)
        if exact and v and not strict:
            extra.append(g)
    return unsound, missing, extra


def min_gap_sq(th):
    return min((fr(th[0]) - fr(th[1])) ** 2, (fr(th[2]) - fr(th[3])) ** 2, (fr(th[4]) - fr(th[5])) ** 2)


def penetrance_cases(ctx):
    from cell_type_mapper.diff_exp import scores as sc
    rng = ctx.rng
    recs, cases = [], []
    for _ in range(ctx.n(900, 30000)):
        tight = rng.random() < 0.3
        th = gen_thresholds(rng, tight)
        if rng.random() < 0.05:      # rejected settings: threshold not above its floor
            k = rng.randrange(3)
            th[2 * k + 1] = th[2 * k] if rng.random() < 0.5 else th[2 * k] + 0.25
        n = rng.choice([0, 1, 2, 3, 4, 5, 6, 8])
        base = [gen_score(rng, th, tight) for _ in range(max(1, n // 2))]
        scores = [list(rng.choice(base)) if rng.random() < 0.3 else gen_score(rng, th, tight) for _ in range(n)]
        if rng.random() < 0.2 and n:
            scores[rng.randrange(n)] = [-1.0, 0.0, -1.0]        # a gene outside the gene list
        n_valid = rng.choice([0, 1, 1, 2, 3, 5, 30])
        exact = rng.random() < 0.25
        q1 = np.array([s[0] for s in scores], dtype=float)
        qd = np.array([s[1] for s in scores], dtype=float)
        fo = np.array([s[2] for s in scores], dtype=float)
        kw = dict(q1_th=th[0], q1_min_th=th[1], qdiff_th=th[2], qdiff_min_th=th[3], log2_fold_th=th[4],
                  log2_fold_min_th=th[5])
        k = scale_bits([v for s in scores for v in s] + th)
        S = 1 << k
        ith = [to_int(v, k) for v in th]
        isc = [[to_int(v, k) for v in s] for s in scores]
        obs = {}
        try:
            with quiet():
                d = sc.penetrance_parameter_distance(q1_score=q1.copy(), qdiff_score=qd.copy(), log2_fold=fo.copy(), **kw)
            obs['dist'] = {kk: (vv.tolist()) for kk, vv in d.items()}
        except RuntimeError as e:
            obs['dist_err'] = ERR['E_Q1'] if 'q1_th must' in str(e) else ERR['E_QDIFF'] if 'qdiff_th must' in str(e) \
                else ERR['E_FOLD'] if 'log2_fold_th must' in str(e) else 99
        except ValueError as e:
            obs['dist_err'] = ERR['E_EMPTY'] if 'zero-size array' in str(e) else 98
        try:
            with quiet():
                if exact:
                    v = np.logical_and(fo > th[4], sc.exact_penetrance_test(q1_score=q1.copy(), qdiff_score=qd.copy(),
                                                                            q1_th=th[0], qdiff_th=th[2]))
                else:
                    v = sc.approx_penetrance_test(q1_score=q1.copy(), qdiff_score=qd.copy(), log2_fold=fo.copy(),
                                                  n_valid=n_valid, **kw)
            obs['valid'] = [bool(x) for x in v]
        except RuntimeError as e:
            obs['valid_err'] = ERR['E_Q1'] if 'q1_th must' in str(e) else ERR['E_QDIFF'] if 'qdiff_th must' in str(e) \
                else ERR['E_FOLD'] if 'log2_fold_th must' in str(e) else 99
        except ValueError as e:
            obs['valid_err'] = ERR['E_EMPTY'] if 'zero-size array' in str(e) else 98
        except IndexError:
            obs['valid_err'] = ERR['E_INDEX']
        cases.append((1103, [S, ith, isc]))
        cases.append((1104, [S, ith, exact, n_valid, isc]))
        recs.append((th, scores, n_valid, exact, k, obs))
    res = ctx.model(cases)
    for j, (th, scores, n_valid, exact, k, obs) in enumerate(recs):
        rd, rv = res[2 * j], res[2 * j + 1]
        desc = {'thresholds': dict(zip(('q1_th', 'q1_min_th', 'qdiff_th', 'qdiff_min_th', 'log2_fold_th',
                                        'log2_fold_min_th'), th)),
                'scores(q1,qdiff,fold)': scores, 'n_valid': n_valid, 'exact': exact, 'observed': obs,
                'model_distance': rd, 'model_valid': rv}
        gap_ok = min_gap_sq(th) >= EPS10
        ctx.count(('pen', tuple(th), tuple(map(tuple, scores)), n_valid, exact),
                  nontrivial=len(scores) >= 3 and 'valid' in obs and any(obs['valid']) and not all(obs['valid']))
        ctx.dist('penetrance', ('exact' if exact else 'approx') + ('/tight-floor' if not gap_ok else '')
                 + ('/rejected' if 'valid_err' in obs else ''))
        corr, prop = [], []
        S2 = 2 * (1 << k) ** 2
        if 'dist' in obs:
            if rd[0] != 0:
                corr.append(f'distance: implementation returned, model raises {rd}')
            else:
                for g, row in enumerate(rd[1]):
                    for name, mv in zip(('true', 'q1', 'qdiff', 'fold', 'wgt'), row[:5]):
                        if fr(obs['dist'][name][g]) * S2 != mv:
                            corr.append(f'distance[{name}][{g}] = {obs["dist"][name][g]!r}, model {mv}/{S2}')
                    if bool(obs['dist']['invalid'][g]) != bool(row[5]):
                        corr.append(f'invalid[{g}] = {obs["dist"]["invalid"][g]}, model {row[5]}')
        elif rd[:2] != [1, obs.get('dist_err')]:
            corr.append(f'distance: implementation error {obs.get("dist_err")}, model {rd}')
        if 'valid' in obs:
            if rv[0] != 0 or [bool(x) for x in rv[1]] != obs['valid']:
                corr.append(f'mask {obs["valid"]}, model {rv}')
            uns, mis, ext = spec_penetrance(scores, th, obs['valid'], exact)
            if not (th[0] > th[1] and th[2] > th[3] and th[4] > th[5]):
                uns, mis, ext = [], [], []       # outside the quantifier: a threshold not above its floor
            cls = None
            if uns:
                prop.append(f'gene(s) {uns} pass although below a floor')
                if not exact and not gap_ok:
                    cls = F8
            if mis:
                prop.append(f'gene(s) {mis} pass every strict threshold but are not accepted')
            if ext:
                prop.append(f'exact penetrance accepted gene(s) {ext} that fail a strict threshold')
            report(ctx, desc, corr, prop, 'penetrance', 'Penetrance.penetrance_tests', cls)
            continue
        elif rv[:2] != [1, obs.get('valid_err')]:
            corr.append(f'mask: implementation error {obs.get("valid_err")}, model {rv}')
        report(ctx, desc, corr, prop, 'penetrance', 'Penetrance.penetrance_tests')


# ------------------------------------------------------------------ D. _get_validity_mask
def validity_mask_cases(ctx):
    from cell_type_mapper.diff_exp.p_value_markers import _get_validity_mask
    rng = ctx.rng
    f16 = [float(np.float16(v)) for v in (0.001, 0.0010004, 0.002, 0.0625, 0.5, 1.0, 1.5, 3.0, 100.0, 65504.0)]
    recs, cases = [], []
    for _ in range(ctx.n(500, 15000)):
        ng = rng.randrange(1, 9)
        idx = sorted(rng.sample(range(ng), rng.randrange(0, ng + 1)))
        pool = [-1.0, -1.0] + rng.sample(f16, rng.randrange(1, 5))
        dist = [rng.choice(pool) for _ in idx]
        n_valid = rng.choice([0, 1, 1, 2, 3, ng, ng + 1, 30])
        vgi = None
        if rng.random() < 0.4:
            vgi = sorted(rng.sample(range(ng), rng.randrange(1, ng + 1)))
        obs = {}
        try:
            with quiet():
                v = _get_validity_mask(n_valid=n_valid, n_genes=ng, gene_indices=np.array(idx, dtype=np.int64),
                                       raw_distances=np.array(dist, dtype=float),
                                       valid_gene_idx=None if vgi is None else np.array(vgi, dtype=np.int64))
            obs['valid'] = [bool(x) for x in v]
        except IndexError:
            obs['err'] = ERR['E_INDEX']
        k = 24
        mask = [] if vgi is None else [[g in vgi for g in range(ng)]]
        cases.append((1107, [1 << k, n_valid, ng, [[g, to_int(d, k)] for g, d in zip(idx, dist)], mask]))
        recs.append((ng, idx, dist, n_valid, vgi, obs))
    for (ng, idx, dist, n_valid, vgi, obs), r in zip(recs, ctx.model(cases)):
        desc = {'n_genes': ng, 'gene_indices': idx, 'raw_distances': dist, 'n_valid': n_valid, 'valid_gene_idx': vgi,
                'observed': obs, 'model': r}
        ctx.count(('vmask', ng, tuple(idx), tuple(dist), n_valid, None if vgi is None else tuple(vgi)),
                  nontrivial='valid' in obs and any(obs['valid']) and len(idx) >= 2)
        ctx.dist('validity_mask', 'error' if 'err' in obs else 'ok')
        corr, prop = [], []
        if 'valid' in obs:
            if r[0] != 0 or [bool(x) for x in r[1]] != obs['valid']:
                corr.append(f'mask {obs["valid"]}, model {r}')
            for g, v in enumerate(obs['valid']):
                in_mask = g in idx
                strict = in_mask and dist[idx.index(g)] < 0
                listed = vgi is None or g in vgi
                if v and not (in_mask and listed):
                    prop.append(f'gene {g} accepted although absent from the p-value mask / the gene list')
                if strict and listed and not v:
                    prop.append(f'gene {g} is strictly valid (-1) and listed but not accepted')
        elif r[:2] != [1, obs['err']]:
            corr.append(f'implementation error {obs["err"]}, model {r}')
        report(ctx, desc, corr, prop, 'validity_mask', 'Penetrance.get_validity_mask')


# ------------------------------------------------------------------ statistics files
def gen_stats(rng, exact_grid):
    """cluster statistics: per cluster n, and per gene (sum, sumsq, ge1) built from actual small samples so
    that variances are consistent.  exact_grid: cluster sizes are powers of two and values multiples of 1/4."""
    n_genes = rng.choice([1, 2, 3, 4, 5, 6, 8])
    n_leaves = rng.choice([2, 3, 3, 4, 4, 5, 6])
    sizes = []
    for _ in range(n_leaves):
        if exact_grid:
            sizes.append(rng.choice([1, 2, 2, 4, 4, 8, 16]))
        else:
            sizes.append(rng.choice([0, 1, 1, 2, 2, 3, 4, 5, 7, 9, 12]))
    # gene profiles: level per cluster from a small set, spread from {0 (zero variance), small, big}
    data = []
    protos = []
    for g in range(n_genes):
        if protos and rng.random() < 0.25:
            protos.append(protos[rng.randrange(len(protos))])      # duplicated gene: ties everywhere
            continue
        levels = [rng.choice([0.0, 0.0, 0.5, 1.0, 2.0, 4.0, 6.0, 9.0, 12.0]) for _ in range(n_leaves)]
        spread = [rng.choice([0.0, 0.0, 0.25, 0.5, 1.0, 3.0]) for _ in range(n_leaves)]
        protos.append((levels, spread))
    for c in range(n_leaves):
        n = sizes[c]
        X = np.zeros((n, n_genes))
        for g in range(n_genes):
            lv, sp = protos[g]
            for i in range(n):
                sign = 1 if i % 2 == 0 else -1
                step = (i // 2) % 3 / 2.0
                v = lv[c] + sign * sp[c] * (1 + step) / 2
                X[i, g] = max(0.0, round(v * 4) / 4)
        data.append(X)
    return {'n_genes': n_genes, 'n_leaves': n_leaves, 'sizes': sizes, 'data': data}


def write_stats_file(path, leaves, tree, st, genes):
    order = sorted(leaves)
    with h5py.File(path, 'w') as f:
        f.create_dataset('taxonomy_tree', data=json.dumps(tree).encode('utf-8'))
        f.create_dataset('cluster_to_row', data=json.dumps({c: i for i, c in enumerate(order)}).encode('utf-8'))
        f.create_dataset('col_names', data=json.dumps(genes).encode('utf-8'))
        idx = [leaves.index(c) for c in order]
        f.create_dataset('n_cells', data=np.array([st['sizes'][i] for i in idx], dtype=np.int64))
        ng = st['n_genes']
        f.create_dataset('sum', data=np.array([st['data'][i].sum(axis=0) if st['sizes'][i] else np.zeros(ng) for i in idx]))
        f.create_dataset('sumsq', data=np.array([(st['data'][i] ** 2).sum(axis=0) if st['sizes'][i] else np.zeros(ng) for i in idx]))
        for key, cut in (('gt0', 0.0), ('gt1', 1.0), ('ge1', 1.0 - 1.0e-6)):
            f.create_dataset(key, data=np.array([(st['data'][i] > cut).sum(axis=0) if st['sizes'][i] else np.zeros(ng, dtype=int)
                                                 for i in idx], dtype=np.int64))


def pair_inputs(cluster_stats, level, a, b, p_th):
    """what the workers compute for one pair up to the raw p-values and the scores: taken from the
    implementation's own routines (these numbers are model INPUTS)."""
    from cell_type_mapper.utils.stats_utils import welch_t_test, boring_t_from_p_value
    from cell_type_mapper.diff_exp.score_utils import pij_from_stats, q_score_from_pij
    s1, s2 = cluster_stats[f'{level}/{a}'], cluster_stats[f'{level}/{b}']
    with quiet():
        _, _, p = welch_t_test(mean1=s1['mean'], var1=s1['var'], n1=s1['n_cells'], mean2=s2['mean'], var2=s2['var'],
                               n2=s2['n_cells'], boring_t=boring_t_from_p_value(p_th), big_nu=None)
        p = np.where(np.isfinite(p), p, 1.0)
        pij1, pij2, fold = pij_from_stats(cluster_stats=cluster_stats, node_1=f'{level}/{a}', node_2=f'{level}/{b}')
        q1, qd = q_score_from_pij(pij1, pij2)
    return {'n1': int(s1['n_cells']), 'n2': int(s2['n_cells']), 'p': [float(v) for v in p],
            'q1': [float(v) for v in q1], 'qdiff': [float(v) for v in qd], 'fold': [float(v) for v in fold],
            'mean1': [float(v) for v in s1['mean']], 'mean2': [float(v) for v in s2['mean']]}


def enc_pair(pi, p_th, k):
    kp = scale_bits(pi['p'] + [p_th])
    return [pi['n1'], pi['n2'], 1 << kp, to_int(p_th, kp), [to_int(v, kp) for v in pi['p']],
            [[to_int(a, k), to_int(b, k), to_int(c, k)] for a, b, c in zip(pi['q1'], pi['qdiff'], pi['fold'])],
            [to_int(v, k) for v in pi['mean1']], [to_int(v, k) for v in pi['mean2']]]


def near_tie(pi, th, p_th, n_valid, mask_list):
    """True when a decision of the float computation is within 1e-9 (relative) of flipping, so that
    exact arithmetic need not agree: p*m next to p_th, a distance next to 1e-10 or next to the cut-off
    reached through different terms."""
    T = fr(p_th)
    p = [fr(v) for v in pi['p']]
    m = len(p)
    for v in p:
        for mult in range(1, m + 1):
            x = v * mult
            if x != T and abs(x - T) <= T * Fraction(1, 10 ** 9):
                return True
    q1_th, q1_min, qd_th, qd_min, f_th, f_min = [fr(v) for v in th]

    def term(x, t):
        return Fraction(0) if x > t else (x - t) ** 2
    trip = []
    for g in range(m):
        if mask_list is not None and not mask_list[g]:
            s = (Fraction(-1), Fraction(0), Fraction(-1))
        else:
            s = (fr(pi['q1'][g]), fr(pi['qdiff'][g]), fr(pi['fold'][g]))
        trip.append((term(s[0], q1_th), term(s[1], qd_th), term(s[2], f_th)))
    tot = [a + b + c for a, b, c in trip]
    for t in tot:
        if t != EPS10 and abs(t - EPS10) <= EPS10 * Fraction(1, 10 ** 6):
            return True
    for w in ((Fraction(3, 2), 1, 1), (1, Fraction(3, 2), 1), (1, 1, Fraction(3, 2))):
        d = [w[0] * a + w[1] * b + w[2] * c for a, b, c in trip]
        for i in range(m):
            for j in range(i + 1, m):
                if trip[i] != trip[j] and abs(d[i] - d[j]) <= max(d[i], d[j]) * Fraction(1, 10 ** 9):
                    return True
    # cut-offs are compared across the three weightings as well
    alld = [(w[0] * a + w[1] * b + w[2] * c, (a, b, c), w) for a, b, c in trip
            for w in ((Fraction(3, 2), 1, 1), (1, Fraction(3, 2), 1), (1, 1, Fraction(3, 2)))]
    alld.sort(key=lambda t: t[0])
    for (d1, t1, w1), (d2, t2, w2) in zip(alld, alld[1:]):
        if (t1, w1) != (t2, w2) and d1 != d2 and abs(d1 - d2) <= max(d1, d2) * Fraction(1, 10 ** 9):
            return True
        if d1 == d2 and (t1 != t2 or w1 != w2) and d1 != 0:
            # equal in exact arithmetic through different terms: the floats may differ in the last bit
            if not all(float(x).hex() and fr(float(x)) == x for x in (d1,)):
                return True
    return False


def run(ctx):
    ctx.rule = ('unit level: Holm on a 2^-10 grid with ties / restricted Holm at thresholds on and off the grid; penetrance '
                'distance and tests on a 1/64 (q) x 1/16 (fold) grid with values on, next to (2^-16..2^-20) and away from '
                'the thresholds, floors on the grid or within 2^-16..2^-20 of the threshold; _get_validity_mask on binary16 '
                'distances.  non-trivial = >=3 genes with ties (Holm), mixed accept/reject (penetrance, mask)')
    ctx.assumptions += [
        'raw Welch p-values, q1/qdiff/log2-fold scores and means are model INPUTS taken from the implementation\'s own '
        'routines (welch_t_test, pij_from_stats, q_score_from_pij, read_precomputed_stats)',
        'soundness w.r.t. the floors needs each strict threshold at least 1e-5 above its floor ((th-min)^2 >= 1e-10): '
        'closer settings are generated and reported as the known finding F8',
        'floors are >= 0 so that genes outside the gene list (scored q1 = -1, qdiff = 0, fold = -1) lie below a floor',
        'p_th in [1e-11, 1] (boring_t_from_p_value rejects smaller values)',
    ]
    holm_cases(ctx)
    penetrance_cases(ctx)
    validity_mask_cases(ctx)


def replay(ctx, rec):
    print(json.dumps(rec, indent=1, default=str)[:6000])
    return 0
