"""C18, reference side — statistics file -> get_leaf_means -> assemble_query_data, read BY NAME.

Tie of Model/RefSide.v (tags 1851-1854) to the real code:
  matching.get_leaf_means (score_utils.read_precomputed_stats / read_raw_precomputed_stats / aggregate_stats),
  matching.assemble_query_data (reference half; CellByGeneMatrix.downsample_cells / downsample_genes_in_place),
  on marker caches written by the real create_marker_cache_from_specified_markers.

Generated per case: a taxonomy (1-4 levels, single-child chains, shuffled dict order), node names in three styles
(zero-padded, 'cl2'/'cl10', bare '2'/'10': string order differs from numeric order), a statistics file whose rows
are a random bijection of the clusters (plus clusters that are not in the taxonomy), whose gene order is shuffled,
with clusters of 0 cells, sums that are exact dyadics; a marker table; a query gene list in its own order.  The
SAME statistics are written a second time with rows and columns rearranged (theorem c18_leaf_means_by_name).
Malformed stream (separately counted): missing leaf, row index outside the datasets / negative, missing datasets,
repeated / too few gene names, parent group removed from the cache, query index array disturbed, marker index out of
range, query matrix without a marker gene / declared raw, parents that are no parents, a mean-profile matrix given
directly that lacks a leaf / a gene / is declared raw.

Two comparisons per case: (a) observed == model (class 'corr:RefSide.<function>', no input); (b) the statements
c18_reference_rows_are_the_parents_leaves, c18_reference_columns_by_name, c18_columns_aligned and
c18_leaf_means_by_name evaluated directly on the observed output (violation WITH the input)."""
import json
import traceback
import warnings
from fractions import Fraction

import h5py
import numpy as np

from harness import trees

STYLES = ['padded', 'cl-unpadded', 'bare-unpadded']
C_ROWS = 'c18-reference-rows-are-not-the-parents-leaves'
C_COLS = 'c18-reference-columns-not-by-name'
C_MEANS = 'c18-leaf-means-depend-on-file-order'


# ------------------------------------------------------------------ names
def _numbers(rng, n):
    if n < 2:
        return [rng.randrange(1, 13)]
    hi, lo = rng.randrange(10, 13), rng.randrange(2, 10)
    rest = [x for x in range(1, max(15, n + 3)) if x not in (hi, lo)]
    out = [hi, lo] + rng.sample(rest, n - 2)
    rng.shuffle(out)
    return out


def styled_names(rng, n, style, prefix):
    if style == 'padded':
        return [f'{prefix}{m:03d}' for m in rng.sample(range(0, 2 * n + 3), n)]
    if style == 'cl-unpadded':
        return [f'{prefix}{m}' for m in _numbers(rng, n)]
    return [f'{m}' for m in _numbers(rng, n)]


class Rank:
    """order-preserving renaming of the names of one namespace to integers (Python string order)"""

    def __init__(self, names):
        self.names = sorted(set(names))
        self.of = {n: i for i, n in enumerate(self.names)}

    def __call__(self, name):
        return self.of[name]


# ------------------------------------------------------------------ generation
def gen_case(rng, k):
    gt = trees.random_tree(rng, max_levels=rng.choice([1, 3, 4, 4]), max_leaves=rng.choice([4, 6, 9]), p_single=0.3)
    L = len(gt.model)
    style = STYLES[k % len(STYLES)]
    nm = {}
    for li, level in enumerate(gt.model):
        ids = [x for x, _ in level]
        pre = 'cl' if li == L - 1 else ['A', 'b', 'C'][li % 3]
        for x, name in zip(ids, styled_names(rng, len(ids), style, pre)):
            nm[(li, x)] = name
    lv = [f'level{i}' for i in range(L)] if rng.random() < 0.5 else ['class', 'subclass', 'supertype', 'cluster'][4 - L:]
    data = {'hierarchy': list(lv)}
    for li, level in enumerate(gt.model):
        data[lv[li]] = {nm[(li, x)]: ([nm[(li + 1, c)] for c in ch] if li < L - 1 else []) for x, ch in level}
    leaves = [nm[(L - 1, x)] for x, _ in gt.model[-1]]
    # genes: reference gene names in the order of the statistics file
    ng = rng.randrange(2, 9)
    gstyle = rng.choice(['padded', 'cl-unpadded'])
    allg = styled_names(rng, ng + 3, gstyle, 'g')
    ref_genes = allg[:ng]
    extra_genes = allg[ng:]
    # statistics: clusters = leaves (+ clusters outside the taxonomy), rows a random bijection
    clusters = list(leaves)
    n_extra = rng.choice([0, 0, 1, 2])
    clusters += [f'zz_other{j}' for j in range(n_extra)]
    rng.shuffle(clusters)
    rows = list(range(len(clusters)))
    rng.shuffle(rows)
    c2r = {c: r for c, r in zip(clusters, rows)}
    D = 2 ** rng.randrange(0, 11)
    n_cells = [0 if rng.random() < 0.2 else rng.randrange(1, 60) for _ in rows]
    sums = [[0 if (rng.random() < 0.15) else rng.randrange(0, 2 ** 20) for _ in range(ng)] for _ in rows]
    for r in rows:
        if n_cells[r] == 0 and rng.random() < 0.7:
            sums[r] = [0] * ng
    # query genes: most reference genes, some foreign ones, own order
    qg = [g for g in ref_genes if rng.random() < 0.85] + [g for g in extra_genes if rng.random() < 0.5]
    if not qg:
        qg = [ref_genes[0]]
    rng.shuffle(qg)
    # marker table: every parent gets reference genes, mostly present in the query
    parents = [None] + [(li, x) for li in range(L - 1) for x, _ in gt.model[li]]
    usable = [g for g in ref_genes if g in qg]
    table = {}
    for p in parents:
        if p is not None and rng.random() < 0.1:
            continue                                    # absent entry: patched from the ancestors or refused
        kk = rng.randrange(1, len(ref_genes) + 1)
        genes = rng.sample(usable, min(len(usable), kk)) if rng.random() < 0.85 else rng.sample(ref_genes, kk)
        key = 'None' if p is None else f'{lv[p[0]]}/{nm[p]}'
        table[key] = genes
    return {'gt_model': gt.model, 'nm': {f'{a}|{b}': v for (a, b), v in nm.items()}, 'levels': lv, 'tree': data,
            'style': style, 'ref_genes': ref_genes, 'extra_genes': extra_genes, 'c2r': c2r, 'D': D,
            'n_cells': n_cells, 'sums': sums, 'query_genes': qg, 'table': table,
            'has_sel': True, 'has_basic': True, 'for_sel': rng.random() < 0.5,
            'qmat_genes': None, 'qnorm': 'log2CPM', 'extra_parents': [], 'cache_edit': None,
            'col_names': None, 'direct': None, 'malformed': None,
            'min_markers': rng.choice([1, 1, 2]),
            'rp': rng.sample(range(len(rows)), len(rows)), 'cp': rng.sample(range(ng), ng)}


MALFORMED = ['missing-leaf', 'row-out-of-range', 'row-negative', 'no-sel', 'no-basic', 'dup-col-names',
             'short-col-names', 'group-removed', 'query-index-disturbed', 'marker-index-out-of-range',
             'query-matrix-lacks-gene', 'query-declared-raw', 'bad-parents', 'direct-lacks-leaf', 'direct-lacks-gene',
             'direct-raw', 'direct-dup-cells', 'zero-genes']


def make_malformed(rng, case):
    kind = rng.choice(MALFORMED)
    case['malformed'] = kind
    leaves = list(case['tree'][case['levels'][-1]].keys())
    nrows = len(case['n_cells'])
    if kind == 'missing-leaf':
        lf = rng.choice(leaves)
        case['c2r'] = {c: r for c, r in case['c2r'].items() if c != lf}
    elif kind == 'row-out-of-range':
        c = rng.choice(list(case['c2r']))
        case['c2r'][c] = rng.choice([nrows, nrows + 3, -nrows - 1])
    elif kind == 'row-negative':
        c = rng.choice(list(case['c2r']))
        case['c2r'][c] = -rng.randrange(1, nrows + 1)
    elif kind == 'no-sel':
        case['has_sel'] = False
    elif kind == 'no-basic':
        case['has_basic'] = False
    elif kind == 'dup-col-names':
        cn = list(case['ref_genes'])
        cn[rng.randrange(1, len(cn))] = cn[0]
        case['col_names'] = cn
    elif kind == 'short-col-names':
        case['col_names'] = list(case['ref_genes'])[:-1] if rng.random() < 0.5 else list(case['ref_genes']) + [case['extra_genes'][0]]
    elif kind == 'group-removed':
        case['cache_edit'] = ['remove', rng.random()]
    elif kind == 'query-index-disturbed':
        case['cache_edit'] = ['disturb-query', rng.random(), rng.random()]
    elif kind == 'marker-index-out-of-range':
        case['cache_edit'] = ['out-of-range', rng.random(), rng.choice(['reference', 'query'])]
    elif kind == 'query-matrix-lacks-gene':
        case['qmat_genes'] = 'drop-one'
        case['cache_edit'] = ['none', rng.random()]
    elif kind == 'query-declared-raw':
        case['qnorm'] = 'raw'
    elif kind == 'zero-genes':
        # a statistics file without any gene (sum of shape (n, 0)): aggregate_stats raises ValueError (zero-size array to
        # reduction operation minimum) -> RefSide.RE_ZEROGENES = 23 (audit 3, item 13)
        case['col_names'] = []
        case['sums'] = [[] for _ in case['sums']]
    elif kind == 'bad-parents':
        lv = case['levels']
        case['extra_parents'] = [[lv[-1], rng.choice(leaves)], [lv[0], 'no_such_node'], ['no_such_level', leaves[0]]]
    else:
        case['direct'] = [kind, rng.random(), rng.random()]
    return case


# ------------------------------------------------------------------ the real code
def write_stats(path, case, c2r, col_names, n_cells, sums):
    D = case['D']
    with h5py.File(path, 'w') as f:
        f.create_dataset('cluster_to_row', data=json.dumps(c2r).encode('utf-8'))
        f.create_dataset('col_names', data=json.dumps(col_names).encode('utf-8'))
        arr = np.array(sums, dtype=np.int64).reshape(len(n_cells), -1).astype(np.float64) / float(D)
        if case['has_basic']:
            f.create_dataset('n_cells', data=np.array(n_cells, dtype=np.int64))
            f.create_dataset('sum', data=arr)
        else:
            f.create_dataset('sum', data=arr)
        if case['has_sel']:
            f.create_dataset('sumsq', data=arr * arr)
            f.create_dataset('ge1', data=np.zeros(arr.shape, dtype=np.int64))
        f.create_dataset('gt0', data=np.zeros(arr.shape, dtype=np.int64))
        f.create_dataset('gt1', data=np.zeros(arr.shape, dtype=np.int64))


def last_frames(e):
    return traceback.extract_tb(e.__traceback__)


def err_code(e):
    """exception of the real code -> error value of Model/RefSide.v; None = not an error the model knows"""
    msg = str(e)
    fr = last_frames(e)
    names = [f.name for f in fr]
    line = fr[-1].line or ''
    if isinstance(e, RuntimeError):
        for pat, code in (("'n_cells' and 'sum' must be", 1), ("'sumsq' and 'ge1' must be", 2),
                          ('gene_identifiers, but data has', 7), ('appear more than once', 8), ('repeated', 9),
                          ('is not a valid level', 10), ('not a valid node at level', 11),
                          ('not in marker cache path', 14), ('occurs more than once in selected_genes', 16),
                          ('Mismatch between query marker genes', 19), ('query data normalization is', 20),
                          ('reference data normalization is', 21)):
            if pat in msg:
                return code
        return None
    if isinstance(e, IndexError):
        if 'read_raw_precomputed_stats' in names:
            return 3
        if 'aggregate_stats' in names:
            return 5
        if names[-1] == 'assemble_query_data' and 'hierarchy[' in line:
            return 12
        if 'identifiers[ii]' in line:
            return 15
        if 'downsample' in names[-1]:
            return 22
        return None
    if isinstance(e, KeyError):
        if 'aggregate_stats' in names:
            return 4
        if names[-1] == 'assemble_query_data':
            return 13
        if '_downsample_genes' in names[-2:]:
            return 17
        if 'downsample_cells' in names[-2:]:
            return 18
        return None
    if isinstance(e, AttributeError) and names[-1] == '__init__':
        return 6
    if isinstance(e, ValueError) and 'aggregate_stats' in names and 'zero-size array to reduction operation' in msg:
        return 23
    return None


def obs_matrix(m):
    return {'cells': list(m.cell_identifiers), 'genes': list(m.gene_identifiers),
            'data': [[float(v) for v in row] for row in np.asarray(m.data)], 'norm': m.normalization}


def edit_cache(path, case, parent_keys):
    """malformed stream: disturb the cache written by the real code; returns a description"""
    ed = case['cache_edit']
    if ed is None or ed[0] == 'none':
        return None
    with h5py.File(path, 'a') as f:
        groups = [k for k in parent_keys if k in f]
        if not groups:
            return None
        g = groups[int(ed[1] * len(groups)) % len(groups)]
        if ed[0] == 'remove':
            del f[g]
            return ['removed', g]
        if ed[0] == 'disturb-query':
            q = f[g]['query'][()]
            nq = len(json.loads(f['query_gene_names'][()].decode('utf-8')))
            if len(q) == 0:
                return None
            j = int(ed[2] * len(q)) % len(q)
            new = q.copy()
            if len(q) >= 2 and ed[2] < 0.5:
                new[j], new[(j + 1) % len(q)] = q[(j + 1) % len(q)], q[j]
            else:
                new[j] = (int(q[j]) + 1) % nq
            del f[g]['query']
            f[g].create_dataset('query', data=new)
            return ['query-disturbed', g]
        if ed[0] == 'out-of-range':
            which = ed[2]
            a = f[g][which][()]
            names = json.loads(f[f'{which}_gene_names'][()].decode('utf-8'))
            new = np.concatenate([a, np.array([len(names) + 1], dtype=a.dtype)])
            del f[g][which]
            f[g].create_dataset(which, data=new)
            return ['index-appended', g, which]
    return None


def run_real(case, d, idx):
    """everything the real code is asked for one case -> observation (JSON-able)"""
    from cell_type_mapper.taxonomy.taxonomy_tree import TaxonomyTree
    from cell_type_mapper.type_assignment.matching import get_leaf_means, assemble_query_data
    from cell_type_mapper.type_assignment import marker_cache_v2 as mc
    from cell_type_mapper.cell_by_gene.cell_by_gene import CellByGeneMatrix
    obs = {}
    tree = TaxonomyTree(data=json.loads(json.dumps(case['tree'])))
    lv = case['levels']
    col_names = case['col_names'] if case['col_names'] is not None else list(case['ref_genes'])
    stats = d / f'stats_{idx}.h5'
    write_stats(stats, case, case['c2r'], col_names, case['n_cells'], case['sums'])
    # the same statistics with rows and columns rearranged: new row i = old row rp[i], new column j = old column cp[j]
    rp, cp = case['rp'], case['cp']
    if case['col_names'] is None and all(0 <= r < len(rp) for r in case['c2r'].values()):
        c2r2 = {c: rp.index(r) for c, r in case['c2r'].items()}
        obs['rearranged'] = {'c2r': c2r2, 'cols': [col_names[j] for j in cp], 'n': [case['n_cells'][i] for i in rp],
                             'sum': [[case['sums'][i][j] for j in cp] for i in rp]}
        stats2 = d / f'stats2_{idx}.h5'
        write_stats(stats2, case, c2r2, obs['rearranged']['cols'], obs['rearranged']['n'], obs['rearranged']['sum'])
    else:
        stats2 = None
    with warnings.catch_warnings():
        warnings.simplefilter('ignore')
        m = None
        try:
            m = get_leaf_means(taxonomy_tree=tree, precompute_path=stats, for_marker_selection=case['for_sel'])
            obs['means'] = {'ok': True, 'm': obs_matrix(m)}
        except Exception as e:
            obs['means'] = {'ok': False, 'err': err_code(e), 'msg': f'{type(e).__name__}: {e}'[:300]}
        if stats2 is not None:
            try:
                m2 = get_leaf_means(taxonomy_tree=tree, precompute_path=stats2, for_marker_selection=case['for_sel'])
                obs['means2'] = {'ok': True, 'm': obs_matrix(m2)}
            except Exception as e:
                obs['means2'] = {'ok': False, 'err': err_code(e), 'msg': f'{type(e).__name__}: {e}'[:300]}
        # marker cache by the real code; reference gene names = the gene names of the statistics file
        cache = d / f'cache_{idx}.h5'
        try:
            mc.create_marker_cache_from_specified_markers(
                marker_lookup=json.loads(json.dumps(case['table'])), reference_gene_names=list(case['ref_genes']),
                query_gene_names=list(case['query_genes']), output_cache_path=cache, taxonomy_tree=tree,
                min_markers=case['min_markers'])
            obs['cache_ok'] = True
        except Exception as e:
            obs['cache_ok'] = False
            obs['cache_msg'] = f'{type(e).__name__}: {e}'[:200]
        if obs['cache_ok']:
            parents = list(tree.all_parents)
            pkeys = ['None' if p is None else f'{p[0]}/{p[1]}' for p in parents]
            obs['cache_edit'] = edit_cache(cache, case, pkeys)
            with h5py.File(cache, 'r') as f:
                groups = {}
                for key in pkeys:
                    if key in f and 'reference' in f[key] and 'query' in f[key]:
                        groups[key] = [[int(v) for v in f[key]['reference'][()]], [int(v) for v in f[key]['query'][()]]]
                obs['cache'] = {'groups': groups,
                                'refg': json.loads(f['reference_gene_names'][()].decode('utf-8')),
                                'qg': json.loads(f['query_gene_names'][()].decode('utf-8')),
                                'allq': [int(v) for v in f['all_query_markers'][()]]}
            # full_query_data as election.py hands it over: the query restricted to all_query_markers
            qgenes = [obs['cache']['qg'][i] for i in obs['cache']['allq']]
            if case['qmat_genes'] == 'drop-one' and qgenes:
                qgenes = qgenes[1:]
            obs['qmat_genes'] = qgenes
            qm = CellByGeneMatrix(data=np.zeros((2, len(qgenes))), gene_identifiers=list(qgenes),
                                  normalization=case['qnorm'])
            plist = [None if p is None else [p[0], p[1]] for p in parents] + case['extra_parents']
            obs['parents'] = plist
            # the mean-profile matrix: the one get_leaf_means returned, or (malformed stream) one given directly
            mats = []
            if case['direct'] is not None and m is not None:
                kind, u, v = case['direct']
                cells, genes = list(m.cell_identifiers), list(m.gene_identifiers)
                dd = np.asarray(m.data)
                norm = 'log2CPM'
                if kind == 'direct-lacks-leaf' and len(cells) >= 1:
                    j = int(u * len(cells)) % len(cells)
                    cells = cells[:j] + cells[j + 1:]
                    dd = np.delete(dd, j, axis=0)
                elif kind == 'direct-lacks-gene' and len(genes) >= 2:
                    j = int(u * len(genes)) % len(genes)
                    genes = genes[:j] + genes[j + 1:]
                    dd = np.delete(dd, j, axis=1)
                elif kind == 'direct-raw':
                    norm = 'raw'
                elif kind == 'direct-dup-cells' and len(cells) >= 2:
                    cells = [cells[0]] + cells[:-1]
                obs['direct'] = {'cells': cells, 'genes': genes, 'norm': norm,
                                 'rows': [list(m.cell_identifiers).index(c) for c in cells],
                                 'cols': [list(m.gene_identifiers).index(g) for g in genes]}
                try:
                    mdir = CellByGeneMatrix(data=dd, gene_identifiers=genes, cell_identifiers=cells, normalization=norm)
                    mats = [mdir]
                except Exception as e:
                    obs['direct']['ctor'] = {'err': err_code(e), 'msg': f'{type(e).__name__}: {e}'[:300]}
            elif m is not None:
                mats = [m]
            obs['assemble'] = []
            for mat in mats:
                for p in plist:
                    try:
                        r = assemble_query_data(full_query_data=qm, mean_profile_matrix=mat, taxonomy_tree=tree,
                                                marker_cache_path=cache, parent_node=None if p is None else tuple(p))
                        obs['assemble'].append({'ok': True, 'ref': obs_matrix(r['reference_data']),
                                                'types': list(r['reference_types']),
                                                'qgenes': list(r['query_data'].gene_identifiers)})
                    except Exception as e:
                        obs['assemble'].append({'ok': False, 'err': err_code(e),
                                                'msg': f'{type(e).__name__}: {e}'[:300]})
    for p in (stats, stats2, d / f'cache_{idx}.h5'):
        if p is not None and p.exists():
            p.unlink()
    return obs


# ------------------------------------------------------------------ wire
class Renamer:
    def __init__(self, case, obs):
        lv = case['levels']
        self.lv = lv
        self.node = []
        for li, name in enumerate(lv):
            names = list(case['tree'][name].keys())
            if li == len(lv) - 1:
                names += list(case['c2r'].keys()) + ['no_such_node']
            if li > 0:
                names += [c for ch in case['tree'][lv[li - 1]].values() for c in ch]
            names += ['no_such_node'] + [p[1] for p in case['extra_parents']]
            self.node.append(Rank(names))
        genes = list(case['ref_genes']) + list(case['extra_genes']) + list(case['query_genes'])
        self.gene = Rank(genes)

    def tree(self, case):
        lv = self.lv
        out = []
        for li, name in enumerate(lv):
            lvl = []
            for x, ch in case['tree'][name].items():
                lvl.append([self.node[li](x), [self.node[li + 1](c) for c in ch] if li < len(lv) - 1 else []])
            out.append(lvl)
        return out

    def parent(self, p):
        if p is None:
            return []
        if p[0] in self.lv:
            li = self.lv.index(p[0])
            return [li, self.node[li](p[1])]
        return [len(self.lv) + 1, self.node[-1](p[1])]

    def pkey(self, key):
        if key == 'None':
            return []
        level, node = key.split('/', 1)
        return self.parent([level, node])


def sfile_sx(rn, case, c2r, col_names, n_cells, sums):
    leafrank = rn.node[-1]
    return [case['has_basic'], case['has_sel'], [[leafrank(c), r] for c, r in c2r.items()],
            [rn.gene(g) for g in col_names], list(n_cells) if case['has_basic'] else list(n_cells), [list(r) for r in sums]]


def expect_float(s, d, D):
    return float(Fraction(s, D * d))


def model_matrix_matches(rn, li_leaf, mm, om, D):
    """model matrix (cells genes data norm) vs observed matrix"""
    cells, genes, data, norm = mm
    if [rn.node[li_leaf](c) for c in om['cells']] != cells:
        return 'cell identifiers'
    if [rn.gene(g) for g in om['genes']] != genes:
        return 'gene identifiers'
    if (1 if om['norm'] == 'log2CPM' else 0) != norm:
        return 'normalization'
    exp = [[expect_float(s, dd, D) for s, dd in row] for row in data]
    if exp != om['data']:
        return 'data'
    return None


# ------------------------------------------------------------------ the statements, evaluated directly
def leaves_below(tree, lv, li, node):
    cur = [node]
    for lj in range(li, len(lv) - 1):
        cur = [c for x in cur for c in tree[lv[lj]][x]]
    return cur


def by_name_means(c2r, col_names, n_cells, sums, D):
    """mean of cluster c at gene g straight from the content of the file"""
    out = {}
    for c, r in c2r.items():
        for j, g in enumerate(col_names):
            out[(c, g)] = float(Fraction(sums[r][j], D * max(1, n_cells[r])))
    return out


def check_statements(case, obs, p, a, means_by_name):
    """(2) and (3) on one successful assemble_query_data; returns list of (class, text)"""
    bad = []
    tree, lv = case['tree'], case['levels']
    if p is None:
        kids, cl = list(tree[lv[0]].keys()), 0
    else:
        li = lv.index(p[0])
        kids, cl = list(tree[lv[li]][p[1]]), li + 1
    owner = {}
    for c in kids:
        for lf in leaves_below(tree, lv, cl, c):
            owner.setdefault(lf, []).append(c)
    # (2) rows: exactly the leaves below P, each once, sorted by name; types: the unique child above the leaf
    if a['ref']['cells'] != sorted(owner):
        bad.append((C_ROWS, f"rows {a['ref']['cells']} but the leaves below {p} are {sorted(owner)}"))
    elif any(len(owner[lf]) != 1 or owner[lf][0] != t for lf, t in zip(a['ref']['cells'], a['types'])) \
            or len(a['types']) != len(a['ref']['cells']):
        bad.append((C_ROWS, f"reference_types {a['types']} are not the children of {p} above the rows {a['ref']['cells']}"))
    # (3) columns by name: column j is the gene all_ref_identifiers[reference_markers[j]] = query column j's gene
    key = 'None' if p is None else f'{p[0]}/{p[1]}'
    ri, qi = obs['cache']['groups'][key]
    rnames = [obs['cache']['refg'][i] for i in ri]
    qnames = [obs['cache']['qg'][i] for i in qi]
    if a['ref']['genes'] != rnames or a['qgenes'] != qnames or a['qgenes'] != a['ref']['genes']:
        bad.append((C_COLS, f"gene identifiers: reference {a['ref']['genes']}, query {a['qgenes']}, cache names {rnames} / {qnames}"))
    elif means_by_name is not None and len(a['ref']['data']) == len(a['ref']['cells']):
        for i, lf in enumerate(a['ref']['cells']):
            for j, g in enumerate(a['ref']['genes']):
                if a['ref']['data'][i][j] != means_by_name.get((lf, g)):
                    bad.append((C_COLS, f"reference_data[{lf}][{g}] = {a['ref']['data'][i][j]} but the file holds "
                                        f"{means_by_name.get((lf, g))} for that cluster and gene"))
                    return bad
    return bad


# ------------------------------------------------------------------ run
def run(ctx):
    rng = ctx.rng
    ctx.rule += (' || reference side (c18_refside): statistics file -> get_leaf_means -> assemble_query_data vs Model/RefSide.v; '
                 'non-trivial = a successful assemble_query_data at a parent with >= 2 leaves below it, or a rejected '
                 'malformed case')
    ctx.assumptions += ['c18_refside: cluster_to_row is a JSON object (pairwise different keys) and every dataset of the '
                        'statistics file has as many rows as "sum" (the model sees n_cells and sum only)',
                        'c18_refside: a group of the marker cache holds both "reference" and "query"; index arrays are '
                        'non-negative (what marker_cache_v2 writes)',
                        'c18_refside: sums are exact dyadics with at most 31 significant bits, so the float64 quotient '
                        'sum / max(1, n_cells) is the correctly rounded value of the exact rational the model carries as the '
                        'pair (sum, max(1, n_cells)): the model never divides']
    n = ctx.n(70, 900)
    cases = []
    for k in range(n):
        case = gen_case(rng, k)
        if rng.random() < 0.35:
            case = make_malformed(rng, case)
        cases.append(case)
    d = ctx.scratch / 'refside'
    d.mkdir(exist_ok=True)
    observed = []
    for idx, case in enumerate(cases):
        try:
            observed.append(run_real(case, d, idx))
        except Exception as e:
            observed.append({'harness_error': f'{type(e).__name__}: {e}', 'tb': traceback.format_exc()[-1500:]})
    # model calls
    calls, where = [], []
    for idx, (case, obs) in enumerate(zip(cases, observed)):
        if 'harness_error' in obs:
            continue
        rn = Renamer(case, obs)
        t = rn.tree(case)
        col_names = case['col_names'] if case['col_names'] is not None else list(case['ref_genes'])
        sf = sfile_sx(rn, case, case['c2r'], col_names, case['n_cells'], case['sums'])
        calls.append((1851, [t, sf, case['for_sel']]))
        where.append((idx, 'means'))
        if 'rearranged' in obs:
            r = obs['rearranged']
            sf2 = sfile_sx(rn, case, r['c2r'], r['cols'], r['n'], r['sum'])
            calls.append((1851, [t, sf2, case['for_sel']]))
            where.append((idx, 'means2'))
            calls.append((1854, [sf, case['rp'], case['cp']]))
            where.append((idx, 'rearrange'))
        if obs.get('cache_ok'):
            c = obs['cache']
            groups = [[rn.pkey(k), v] for k, v in c['groups'].items()]
            common = [groups, [rn.gene(g) for g in c['refg']], [rn.gene(g) for g in c['qg']],
                      [rn.gene(g) for g in obs['qmat_genes']], 1 if case['qnorm'] == 'log2CPM' else 0]
            if case['direct'] is None:
                calls.append((1852, [t, sf, case['for_sel']] + common + [[rn.parent(p) for p in obs['parents']]]))
                where.append((idx, 'assemble'))
            elif 'direct' in obs:
                # the matrix given directly: rows / columns picked from the model's own leaf means (second pass)
                for p in obs['parents']:
                    calls.append((1853, None))          # filled below, once the model's leaf means are known
                    where.append((idx, 'direct', p))
    # first pass: leaf means (needed to build the directly given matrices exactly)
    first = [(i, c) for i, c in enumerate(calls) if c[1] is not None]
    res1 = ctx.model([c for _, c in first])
    results = [None] * len(calls)
    for (i, _), r in zip(first, res1):
        results[i] = r
    means_model = {w[0]: results[i] for i, w in enumerate(where) if w[1] == 'means'}
    second = []
    for i, w in enumerate(where):
        if w[1] != 'direct':
            continue
        idx, _, p = w
        case, obs = cases[idx], observed[idx]
        rn = Renamer(case, obs)
        mm = means_model[idx]
        dm = obs['direct']
        if mm[0] != 0:
            continue
        _, _, mdata, _ = mm[1]
        data = [[mdata[r][c] for c in dm['cols']] for r in dm['rows']]
        c = obs['cache']
        groups = [[rn.pkey(k), v] for k, v in c['groups'].items()]
        mat = [[rn.node[-1](x) for x in dm['cells']], [rn.gene(g) for g in dm['genes']], data,
               1 if dm['norm'] == 'log2CPM' else 0]
        calls[i] = (1853, [rn.tree(case), mat, groups, [rn.gene(g) for g in c['refg']], [rn.gene(g) for g in c['qg']],
                           [rn.gene(g) for g in obs['qmat_genes']], 1 if case['qnorm'] == 'log2CPM' else 0, rn.parent(p)])
        second.append(i)
    if second:
        res2 = ctx.model([calls[i] for i in second])
        for i, r in zip(second, res2):
            results[i] = r
    by_case = {}
    for i, w in enumerate(where):
        by_case.setdefault(w[0], []).append((w, results[i]))

    # comparison
    for idx, (case, obs) in enumerate(zip(cases, observed)):
        kind = case['malformed'] or 'valid'
        ctx.dist('refside stream', kind)
        desc = {'kind': 'refside', 'case': case}
        if 'harness_error' in obs:
            ctx.count(('refside', idx, 'harness'), nontrivial=False)
            ctx.violation(f'refside: the real code could not be run on the generated case: {obs["harness_error"]}',
                          dict(desc, **{'class': 'c18-refside-harness', 'traceback': obs['tb']}))
            continue
        rn = Renamer(case, obs)
        L = len(case['levels'])
        D = case['D']
        ctx.dist('refside levels', L)
        ctx.dist('refside names', case['style'])
        ctx.dist('refside leaves', len(case['tree'][case['levels'][-1]]))
        ctx.dist('refside clusters with 0 cells', sum(1 for v in case['n_cells'] if v == 0))
        corr = []
        stm = []
        mres = dict((w[1] if len(w) == 2 else (w[1], json.dumps(w[2])), r) for w, r in by_case.get(idx, []))
        # ---- get_leaf_means
        om, mm = obs['means'], mres['means']
        ctx.dist('refside get_leaf_means', 'ok' if om['ok'] else f'error {om["err"]}')
        if mm[0] == 0:
            if not om['ok']:
                corr.append(('RefSide.get_leaf_means', f'implementation raised {om["msg"]}; model accepts'))
            else:
                why = model_matrix_matches(rn, L - 1, mm[1], om['m'], D)
                if why:
                    corr.append(('RefSide.get_leaf_means', f'{why} differ: impl {om["m"]} model {mm[1]}'))
        elif mm[0] == 1:
            if om['ok']:
                corr.append(('RefSide.get_leaf_means', f'model rejects with {mm[1]}; implementation accepts'))
            elif om['err'] != mm[1]:
                corr.append(('RefSide.get_leaf_means', f'error kind: impl {om["err"]} ({om["msg"]}) model {mm[1]}'))
        else:
            corr.append(('RefSide.get_leaf_means', 'model could not decode the case'))
        # ---- the rearranged file: same means by name (statement 1), and the model's `rearrange` is what was written
        means_by_name = None
        if om['ok'] and case['col_names'] is None and all(0 <= r < len(case['n_cells']) for r in case['c2r'].values()):
            means_by_name = by_name_means(case['c2r'], case['ref_genes'], case['n_cells'], case['sums'], D)
            for i, lf in enumerate(om['m']['cells']):
                for j, g in enumerate(om['m']['genes']):
                    if om['m']['data'][i][j] != means_by_name[(lf, g)]:
                        stm.append((C_MEANS, f'leaf mean of {lf} at {g} is {om["m"]["data"][i][j]}, the file holds '
                                             f'{means_by_name[(lf, g)]} for that cluster and gene'))
                        break
            if om['m']['cells'] != sorted(case['tree'][case['levels'][-1]].keys()) or om['m']['norm'] != 'log2CPM':
                stm.append((C_MEANS, f'rows of the leaf means {om["m"]["cells"]} are not the sorted leaves / normalisation'))
        if 'rearranged' in obs:
            r = obs['rearranged']
            o2, m2 = obs['means2'], mres['means2']
            if m2[0] == 0 and o2['ok']:
                why = model_matrix_matches(rn, L - 1, m2[1], o2['m'], D)
                if why:
                    corr.append(('RefSide.get_leaf_means', f'rearranged file: {why} differ'))
            elif not (m2[0] == 1 and not o2['ok'] and o2['err'] == m2[1]):
                corr.append(('RefSide.get_leaf_means', f'rearranged file: impl {o2.get("err", "ok")} model {m2[:2]}'))
            if om['ok'] != o2['ok']:
                stm.append((C_MEANS, f'the file is accepted ({om["ok"]}) but its rearrangement is not ({o2["ok"]})'))
            elif om['ok']:
                a = {(c, g): om['m']['data'][i][j] for i, c in enumerate(om['m']['cells']) for j, g in enumerate(om['m']['genes'])}
                b = {(c, g): o2['m']['data'][i][j] for i, c in enumerate(o2['m']['cells']) for j, g in enumerate(o2['m']['genes'])}
                if a != b:
                    stm.append((C_MEANS, 'leaf means read by (cluster, gene) name differ between a statistics file and its '
                                         'row/column rearrangement'))
            mr = mres['rearrange']
            exp = [[[rn.node[-1](c), v] for c, v in r['c2r'].items()], [rn.gene(g) for g in r['cols']], r['n'], r['sum']]
            if mr[0] != 0 or mr[1] != exp:
                corr.append(('RefSide.rearrange', f'the rearranged file written by the harness {exp} is not the model\'s {mr}'))
        # ---- assemble_query_data
        if not obs.get('cache_ok'):
            ctx.dist('refside marker cache', 'refused by create_marker_cache_from_specified_markers (skipped)')
        elif 'assemble' in obs:
            ctx.dist('refside marker cache', 'written' if not obs.get('cache_edit') else f'written, then {obs["cache_edit"][0]}')
            if case['direct'] is None:
                mlist = mres.get('assemble')
                if mlist is None or mlist[0] != 0:
                    mlist = None if not om['ok'] else 'bad'
                else:
                    mlist = mlist[1]
            else:
                mlist = [mres.get(('direct', json.dumps(p))) for p in obs['parents']] if obs['assemble'] else []
                if 'ctor' in obs.get('direct', {}):
                    # the constructor of the directly given matrix refused it: the model must refuse likewise
                    for p in obs['parents'][:1]:
                        r = mres.get(('direct', json.dumps(p)))
                        ctx.dist('refside assemble_query_data', f'matrix refused {obs["direct"]["ctor"]["err"]}')
                        if r is None or r[0] != 1 or r[1] != obs['direct']['ctor']['err']:
                            corr.append(('RefSide.make_rmat', f'impl refuses the matrix ({obs["direct"]["ctor"]["msg"]}); model {r}'))
                    mlist = []
            if mlist == 'bad':
                corr.append(('RefSide.assemble_reference', f'model: {mres.get("assemble")}'))
            elif mlist is not None:
                if len(mlist) != len(obs['assemble']):
                    corr.append(('RefSide.assemble_reference', f'{len(obs["assemble"])} observed results, {len(mlist)} model results'))
                for p, a, r in zip(obs['parents'], obs['assemble'], mlist):
                    nleaves = len(a['ref']['cells']) if a['ok'] else 0
                    ctx.count(('refside', idx, json.dumps(p)), nontrivial=(a['ok'] and nleaves >= 2) or (not a['ok'] and a['err'] is not None))
                    ctx.dist('refside assemble_query_data', 'ok' if a['ok'] else f'error {a["err"]}')
                    ctx.dist('refside parent', 'root' if p is None else
                             (f'level {case["levels"].index(p[0])} of {L}' if p[0] in case['levels'] else 'unknown level'))
                    if r is None:
                        corr.append(('RefSide.assemble_reference', 'no model result'))
                        continue
                    if r[0] == 0:
                        if not a['ok']:
                            corr.append(('RefSide.assemble_reference', f'parent {p}: implementation raised {a["msg"]}; model accepts'))
                        else:
                            mref, mtypes, mq = r[1]
                            cl = 0 if p is None else case['levels'].index(p[0]) + 1
                            why = model_matrix_matches(rn, L - 1, mref, a['ref'], D)
                            if why:
                                corr.append(('RefSide.assemble_reference', f'parent {p}: reference_data {why} differ: impl {a["ref"]} model {mref}'))
                            if [rn.node[cl](x) for x in a['types']] != mtypes:
                                corr.append(('RefSide.assemble_reference', f'parent {p}: reference_types impl {a["types"]} model {mtypes}'))
                            if [rn.gene(g) for g in a['qgenes']] != mq:
                                corr.append(('RefSide.assemble_reference', f'parent {p}: query genes impl {a["qgenes"]} model {mq}'))
                    elif r[0] == 1:
                        if a['ok']:
                            corr.append(('RefSide.assemble_reference', f'parent {p}: model rejects with {r[1]}; implementation accepts'))
                        elif a['err'] != r[1]:
                            corr.append(('RefSide.assemble_reference', f'parent {p}: error kind impl {a["err"]} ({a["msg"]}) model {r[1]}'))
                    else:
                        corr.append(('RefSide.assemble_reference', f'parent {p}: model could not decode the case'))
                    if a['ok']:
                        stm += check_statements(case, obs, p, a, means_by_name if case['direct'] is None else None)
        else:
            ctx.dist('refside marker cache', 'written; get_leaf_means failed')
        if not obs.get('assemble'):
            ctx.count(('refside', idx, 'means-only'), nontrivial=not om['ok'] and om['err'] is not None)
        for cls, text in stm[:3]:
            ctx.disagreements_checked += 1
            ctx.violation(f'refside ({kind}): {text}'[:700], dict(desc, **{'class': cls, 'observed': obs}))
        if not stm:
            for fn, text in corr[:2]:
                ctx.violation(f'refside ({kind}): model and implementation disagree: {fn}: {text}'[:700],
                              dict(desc, **{'class': f'corr:{fn}', 'observed': obs}), no_input=True)
        if idx < 2:
            ctx.sample({'refside': {'tree': case['tree'], 'c2r': case['c2r'], 'ref_genes': case['ref_genes'],
                                    'query_genes': case['query_genes'], 'table': case['table'], 'malformed': case['malformed']}})
