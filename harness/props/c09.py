"""C09 — reference statistics equal direct computation and are additive.

Tie: precompute_summary_stats_from_h5ad[_list_and_tree] / truncate_precomputed_stats_file /
merge_precompute_files on generated reference data vs coq/Model/Stats.v (tags 901-906), plus the
property's own statement (direct computation in exact arithmetic) on every written file."""
import contextlib
import io
import itertools
import json
import os
import pathlib
import warnings
from fractions import Fraction

import h5py
import numpy as np

from harness import gen

ERRS = {'E_INDEX': 1, 'E_NOWORK': 2, 'E_ROWS': 3, 'E_ZERODIV': 4, 'E_GENES': 5, 'E_KEY': 6, 'E_SAME': 7,
        'E_BADLEVEL': 8, 'E_SHUFFLE': 9, 'E_NODROP': 10, 'E_TREE': 20, 'E_MERGE_TREE': 30, 'E_MERGE_C2R': 31,
        'E_MERGE_COLS': 32, 'E_MERGE_EMPTY': 33}
ONE_MINUS_EPS = Fraction(1.0 - 1.0e-6)
KEYS2 = ('sum', 'sumsq', 'gt0', 'gt1', 'ge1')
F2C = 'F2-csc-file-without-stored-values-in-precompute'


@contextlib.contextmanager
def quiet():
    with contextlib.redirect_stdout(io.StringIO()), warnings.catch_warnings():
        warnings.simplefilter('ignore')
        yield


def ranks(names):
    """order-preserving renaming: rank in Python's string order."""
    return {n: i for i, n in enumerate(sorted(set(names)))}


# ------------------------------------------------------------------ generation
def gen_names(rng, n, prefix):
    pool = set()
    while len(pool) < n:
        style = rng.randrange(4)
        if style == 0:
            s = f'{prefix}{rng.randrange(1000)}'
        elif style == 1:
            s = f'{prefix}_{rng.randrange(30):02d}'
        elif style == 2:
            s = ''.join(rng.choice('abAB019_') for _ in range(rng.randrange(1, 5))) + prefix
        else:
            s = f'{rng.randrange(20)}{prefix}'
        pool.add(s)
    out = sorted(pool)
    rng.shuffle(out)
    return out


def gen_tree(rng, n_leaves):
    """hierarchy of 1..3 levels above (and including) the leaf level; returns
    (hierarchy names, {level: {node: [children]}}) without the cells."""
    depth = rng.choice([1, 2, 2, 3])
    hier = ['class', 'subclass', 'cluster'][3 - depth:]
    leaves = gen_names(rng, n_leaves, 'cl')
    levels = {hier[-1]: {leaf: [] for leaf in leaves}}
    below = leaves
    for li in range(depth - 2, -1, -1):
        k = rng.randrange(1, len(below) + 1)
        parents = gen_names(rng, k, 'n%d' % li)
        assign = {p: [] for p in parents}
        order = list(below)
        rng.shuffle(order)
        for i, ch in enumerate(order):
            assign[parents[i] if i < k else rng.choice(parents)].append(ch)
        levels[hier[li]] = assign
        below = parents
    return hier, levels


VAL_COARSE = [0.0, 0.0, 0.0, 0.125, 0.5, 0.875, 1.0, 1.0, 1.125, 2.0, 3.5, 7.875]
VAL_FINE = [1.0 - 2.0 ** -20, 1.0 - 2.0 ** -19, 1.0 + 2.0 ** -20, 2.0 ** -20, 1.0 - 2.0 ** -22]   # <= 23 significant bits: squares and sums of 14 stay exact in binary64


def gen_case(rng):
    n_genes = rng.randrange(1, 5)
    n_cells = rng.choice([1, 2, 3, 4, 5, 6, 7, 8, 10, 12, 14])
    n_leaves = rng.randrange(1, 6)
    hier, levels = gen_tree(rng, n_leaves)
    leaves = list(levels[hier[-1]])
    cells = gen_names(rng, n_cells, 'c')
    # labels: some cells unlabelled, clusters of one cell, empty clusters
    p_unl = rng.choice([0.0, 0.0, 0.2, 0.5])
    label = {}
    for c in cells:
        if rng.random() >= p_unl:
            label[c] = rng.choice(leaves[:rng.randrange(1, len(leaves) + 1)])
    normalization = rng.choice(['log2CPM', 'log2CPM', 'raw'])
    storage = rng.choice(['float64', 'float32']) if normalization == 'log2CPM' else \
        rng.choice(['float64', 'float32', 'int64', 'uint16', 'int32'])
    window = False
    if normalization == 'log2CPM':
        fine = storage == 'float64' and rng.random() < 0.4
        M = np.zeros((n_cells, n_genes), dtype=storage)
        for i in range(n_cells):
            for j in range(n_genes):
                if fine and rng.random() < 0.3:
                    M[i, j] = rng.choice(VAL_FINE)
                else:
                    M[i, j] = rng.choice(VAL_COARSE)
        window = bool(((M > float(ONE_MINUS_EPS)) & (M < 1.0)).any())
    else:
        M = np.zeros((n_cells, n_genes), dtype=storage)
        for i in range(n_cells):
            kind = rng.randrange(6)
            if kind == 0:
                continue                                   # empty cell: row sum 0
            if kind == 1 and n_genes >= 2 and storage not in ('uint16',):
                # one gene at exactly 1 CPM, another just above / far above
                c = rng.choice([1, 2, 3])
                row = [0] * n_genes
                row[0] = c
                row[1] = 1000000 * c - c
                if n_genes >= 3:
                    extra = rng.choice([0, 0, 5])
                    row[2] = extra
                    row[1] -= extra
                perm = list(range(n_genes))
                rng.shuffle(perm)
                for a, b in enumerate(perm):
                    M[i, b] = row[a]
                continue
            for j in range(n_genes):
                if rng.random() < 0.35:
                    continue
                M[i, j] = rng.choice([1, 1, 2, 3, 7, 50, 255, 1000])
    # taxonomy cells absent from every file
    ghosts = gen_names(rng, rng.choice([0, 0, 1, 2]), 'ghost')
    ghosts = [g for g in ghosts if g not in cells]
    for g in ghosts:
        label[g] = rng.choice(leaves)
    # split into files
    n_files = rng.choice([1, 1, 2, 3])
    order = list(range(n_cells))
    if rng.random() < 0.7:
        rng.shuffle(order)
    cuts = sorted(rng.randrange(0, n_cells + 1) for _ in range(n_files - 1))
    parts = [order[a:b] for a, b in zip([0] + cuts, cuts + [n_cells])]
    if rng.random() < 0.7:
        parts = [p for p in parts if p] or [order]
    files = []
    for k, idx in enumerate(parts):
        files.append({'name': f'{rng.choice("abz")}{k}_{rng.randrange(100)}.h5ad', 'rows': idx,
                      'encoding': rng.choice(['dense', 'csr', 'csc']),
                      'chunks': rng.choice([None, None, 'contiguous', 1, 2, 3])})
    genes = gen_names(rng, n_genes, 'g')
    return {'hier': hier, 'levels': levels, 'cells': cells, 'label': label, 'genes': genes, 'M': M,
            'normalization': normalization, 'storage': storage, 'files': files, 'ghosts': ghosts,
            'window': window}


def tree_dict(case, by='name'):
    """taxonomy dict with the leaf level listing cell names."""
    d = {'hierarchy': list(case['hier'])}
    for lv in case['hier'][:-1]:
        d[lv] = {k: list(v) for k, v in case['levels'][lv].items()}
    leaf = {k: [] for k in case['levels'][case['hier'][-1]]}
    for c in case['cells'] + case['ghosts']:
        if c in case['label']:
            leaf[case['label'][c]].append(c)
    d[case['hier'][-1]] = leaf
    return d


def write_files(case, d):
    paths = []
    for f in case['files']:
        p = d / f['name']
        rows = f['rows']
        sub = case['M'][rows, :] if rows else np.zeros((0, case['M'].shape[1]), dtype=case['M'].dtype)
        with quiet():
            enc = f['encoding'] if rows else 'dense'
            gen.write_h5ad(p, sub, [case['cells'][i] for i in rows], case['genes'], encoding=enc,
                           chunks=f['chunks'] if rows else None)
        paths.append(p)
    return paths


def cell_values(case, paths):
    """per file, per cell: the log2(CPM+1) row exactly as the implementation's reader and
    normaliser produce it for that cell alone (model INPUT), as python floats."""
    from cell_type_mapper.anndata_iterator.anndata_iterator import AnnDataRowIterator
    from cell_type_mapper.cell_by_gene.cell_by_gene import CellByGeneMatrix
    out, work_eps = [], 2.0 ** -53
    for f, p in zip(case['files'], paths):
        vals = []
        if f['rows']:
            # every file goes through the implementation's reader - a CSC file without any
            # stored value included (the reader used to raise on it: finding F2, fixed)
            with quiet():
                it = AnnDataRowIterator(h5ad_path=p, row_chunk_size=1)
                for i in range(len(f['rows'])):
                    ch = it.get_chunk(i, i + 1)[0]
                    if not isinstance(ch, np.ndarray):
                        ch = ch.toarray()
                    src = case['M'][f['rows'][i], :]
                    if not (np.asarray(ch[0], dtype=np.float64) == src.astype(np.float64)).all():
                        raise RuntimeError(f'reader returned {ch[0]} for stored row {src}')
                    m = CellByGeneMatrix(data=ch, gene_identifiers=case['genes'],
                                         normalization=case['normalization'])
                    if m.normalization != 'log2CPM':
                        m.to_log2CPM_in_place()
                    if m.data.dtype == np.float32:
                        work_eps = 2.0 ** -24
                    vals.append([float(v) for v in m.data[0]])
        out.append(vals)
    return out, work_eps


# ------------------------------------------------------------------ observation
def read_stats(path):
    with h5py.File(path, 'r') as f:
        o = {k: f[k][()] for k in ('n_cells',) + KEYS2}
        o['cluster_to_row'] = json.loads(f['cluster_to_row'][()].decode('utf-8'))
        o['col_names'] = json.loads(f['col_names'][()].decode('utf-8'))
        o['taxonomy_tree'] = json.loads(f['taxonomy_tree'][()].decode('utf-8')) if 'taxonomy_tree' in f else None
        o['keys'] = sorted(f.keys())
        o['shapes'] = {k: list(f[k].shape) for k in ('n_cells',) + KEYS2}
        o['dtypes'] = {k: str(f[k].dtype) for k in ('n_cells',) + KEYS2}
    return o


def install_recorder(rec_dir):
    """wrap _process_chunk_spec (resolved at call time, inherited by forked workers) so that
    each worker's chunk list is observable."""
    import cell_type_mapper.diff_exp.precompute_from_anndata as pfa
    if not hasattr(pfa, '_verif_orig_pcs'):
        pfa._verif_orig_pcs = pfa._process_chunk_spec

    def wrapper(**kw):
        spec = [[str(s[0]), int(s[1]), int(s[2])] for s in kw['chunk_specification_list']]
        name = pathlib.Path(kw['buffer_path']).name
        (pathlib.Path(rec_dir) / f'{name}.json').write_text(json.dumps(spec))
        return pfa._verif_orig_pcs(**kw)
    pfa._process_chunk_spec = wrapper


def remove_recorder():
    import cell_type_mapper.diff_exp.precompute_from_anndata as pfa
    if hasattr(pfa, '_verif_orig_pcs'):
        pfa._process_chunk_spec = pfa._verif_orig_pcs


def exc_code(e):
    msg = str(e)
    if isinstance(e, AttributeError) and "'NoneType' object has no attribute 'keys'" in msg:
        return ERRS['E_NOWORK']
    if isinstance(e, ZeroDivisionError):
        return ERRS['E_ZERODIV']
    if isinstance(e, ValueError) and 'range() arg 3' in msg:
        return ERRS['E_ROWS']
    if isinstance(e, IndexError):
        return ERRS['E_INDEX']
    if isinstance(e, KeyError):
        return ERRS['E_KEY']
    if isinstance(e, RuntimeError):
        if 'which does not match' in msg:
            return ERRS['E_GENES']
        if 'already conforms' in msg:
            return ERRS['E_SAME']
        if 'are not in' in msg and 'the taxonomy of' in msg:
            return ERRS['E_BADLEVEL']
        if 'cannot shuffle' in msg:
            return ERRS['E_SHUFFLE']
        if 'It is flat' in msg:
            return ERRS['E_TREE'] + 1
        if 'different taxonomy tree' in msg:
            return ERRS['E_MERGE_TREE']
        if 'different cluster_to_row' in msg:
            return ERRS['E_MERGE_C2R']
        if 'different col_names' in msg:
            return ERRS['E_MERGE_COLS']
    return 99


# ------------------------------------------------------------------ exact arithmetic
def scale_of(values):
    k = 0
    for v in values:
        d = Fraction(v).denominator
        k = max(k, d.bit_length() - 1)
    return k


def to_int(v, k):
    fr = Fraction(v) * (1 << k)
    assert fr.denominator == 1
    return fr.numerator


def direct_stats(rows_float):
    """exact statistics of a list of log2 rows (python floats) with the thresholds as coded."""
    ng = len(rows_float[0]) if rows_float else None
    n = len(rows_float)
    cols = list(zip(*rows_float)) if rows_float else []
    return {'n': n,
            'sum': [sum(Fraction(v) for v in c) for c in cols],
            'sumsq': [sum(Fraction(v) ** 2 for v in c) for c in cols],
            'abs': [sum(abs(Fraction(v)) for v in c) for c in cols],
            'gt0': [sum(1 for v in c if v > 0.0) for c in cols],
            'gt1': [sum(1 for v in c if v > 1.0) for c in cols],
            'ge1': [sum(1 for v in c if Fraction(v) > ONE_MINUS_EPS) for c in cols]}, ng


def cpm_counts(case, cell_idx_list):
    """the documented meaning, from the stored matrix in integer arithmetic:
    numbers of cells with CPM > 0, > 1, >= 1 (raw) / log2(CPM+1) > 0, > 1, >= 1 (pre-normalised)."""
    ng = case['M'].shape[1]
    gt0, gt1, ge1 = [0] * ng, [0] * ng, [0] * ng
    for i in cell_idx_list:
        row = [Fraction(float(v)) for v in case['M'][i, :]]
        if case['normalization'] == 'raw':
            tot = sum(row)
            for j, c in enumerate(row):
                if tot > 0:
                    gt0[j] += c > 0
                    gt1[j] += c * 1000000 > tot
                    ge1[j] += c * 1000000 >= tot
        else:
            for j, c in enumerate(row):
                gt0[j] += c > 0
                gt1[j] += c > 1
                ge1[j] += c >= 1
    return gt0, gt1, ge1


# ------------------------------------------------------------------ model encoding
class Enc:
    """order-preserving integer names for one base case."""

    def __init__(self, case):
        nodes = []
        for lv in case['hier']:
            nodes += list(case['levels'][lv])
        self.node = ranks(nodes)
        self.cell = ranks(case['cells'] + case['ghosts'] + ['~unknown~'])
        self.gene = ranks(case['genes'] + ['~othergene~'])

    def leaf_level(self, tdict, hier):
        return [[self.node[k], [self.cell[c] for c in v]] for k, v in tdict[hier[-1]].items()]

    def tree(self, tdict):
        hier = tdict['hierarchy']
        out = []
        for lv in hier[:-1]:
            out.append([[self.node[k], [self.node[c] for c in v]] for k, v in tdict[lv].items()])
        out.append(self.leaf_level(tdict, hier))
        return out

    def tree_names(self, sx_tree, hier_names):
        inv_n = {v: k for k, v in self.node.items()}
        inv_c = {v: k for k, v in self.cell.items()}
        d = {'hierarchy': list(hier_names)}
        for li, (lv, name) in enumerate(zip(sx_tree, hier_names)):
            last = li == len(sx_tree) - 1
            d[name] = {inv_n[k]: [(inv_c if last else inv_n)[c] for c in ch] for k, ch in lv}
        return d


def enc_table(obs, k):
    """observed datasets -> model table; sums must be exact multiples of 2^-k (2^-2k)."""
    out = []
    for r in range(len(obs['n_cells'])):
        out.append([int(obs['n_cells'][r]),
                    [to_int(float(v), k) for v in obs['sum'][r]],
                    [to_int(float(v), 2 * k) for v in obs['sumsq'][r]],
                    [int(v) for v in obs['gt0'][r]], [int(v) for v in obs['gt1'][r]],
                    [int(v) for v in obs['ge1'][r]]])
    return out


def table_matches(obs, mtab, k, exact, tol_eps, abs_by_row):
    """compare the six observed datasets with a model table (list of summaries over 2^k)."""
    probs = []
    nc = len(mtab)
    if list(obs['shapes']['n_cells']) != [nc]:
        return [f'n_cells has shape {obs["shapes"]["n_cells"]}, model has {nc} rows']
    for r, (n, s, ss, g0, g1, ge) in enumerate(mtab):
        if int(obs['n_cells'][r]) != n:
            probs.append(f'n_cells[{r}] = {int(obs["n_cells"][r])}, model {n}')
        for key, mv in (('gt0', g0), ('gt1', g1), ('ge1', ge)):
            if [int(v) for v in obs[key][r]] != mv:
                probs.append(f'{key}[{r}] = {[int(v) for v in obs[key][r]]}, model {mv}')
        for key, mv, kk in (('sum', s, k), ('sumsq', ss, 2 * k)):
            for j, v in enumerate(mv):
                ex = Fraction(v, 1 << kk)
                ob = Fraction(float(obs[key][r][j]))
                if exact:
                    ok = ob == ex
                else:
                    a1, a2, nn = abs_by_row[r]
                    bound = Fraction(2 * (nn + 2)) * Fraction(tol_eps) * (a1[j] if key == 'sum' else a2[j])
                    ok = abs(ob - ex) <= bound + abs(ex) * Fraction(1, 10 ** 9)
                if not ok:
                    probs.append(f'{key}[{r}][{j}] = {float(ob)!r}, model {float(ex)!r}')
    return probs


# ------------------------------------------------------------------ one base case
def run_base(ctx, idx, case, n_cfg):
    from cell_type_mapper.taxonomy.taxonomy_tree import TaxonomyTree
    import cell_type_mapper.diff_exp.precompute_from_anndata as pfa
    rng = ctx.rng
    d = ctx.scratch / f'case{idx}'
    d.mkdir()
    rec = d / 'rec'
    rec.mkdir()
    paths = write_files(case, d)
    # a CSC-encoded file whose cells hold no stored value at all: the implementation's reader
    # (AnnDataRowIterator -> csc_to_csr_on_disk -> transpose_sparse_matrix_on_disk) used to create
    # a dataset with chunks=(0,) and raise (finding F2 of C05/C13, reached here through the
    # statistics writer; fixed).  Such a file is first run through the PUBLIC entry point on its
    # own account, so that a relapse is reported under its own class; then the case runs normally.
    empty_csc = [f for f in case['files']
                 if f['rows'] and f['encoding'] == 'csc' and not case['M'][f['rows'], :].any()]
    if empty_csc:
        with quiet():
            tree0 = TaxonomyTree(data=tree_dict(case))
        tmp0 = d / 'tmp0'
        tmp0.mkdir()
        try:
            with quiet():
                pfa.precompute_summary_stats_from_h5ad_list_and_tree(
                    data_path_list=list(paths), taxonomy_tree=tree0, output_path=d / 'stats0.h5',
                    rows_at_a_time=3, normalization=case['normalization'], tmp_dir=str(tmp0),
                    n_processors=1)
            raised = None
        except Exception as e:      # noqa
            raised = f'{type(e).__name__}: {e}'[:200]
        ctx.count(('empty-csc', len(case['cells']), raised is None), nontrivial=False)
        if raised is not None:
            labelled = any(case['label'].get(case['cells'][i]) is not None
                           for f in empty_csc for i in f['rows'])
            ctx.dist('empty_csc_file', 'labelled' if labelled else 'unlabelled')
            if 'chunk dimensions must be positive' in raised:
                ctx.violation('statistics writer raises on a CSC file without any stored value: ' + raised,
                              {'class': F2C, 'files': [dict(f) for f in case['files']],
                               'M': case['M'].tolist(), 'normalization': case['normalization'],
                               'storage': case['storage'], 'raised': raised})
                return None
            # some other error: not the known defect -> let the normal path report it
    try:
        vals, work_eps = cell_values(case, paths)
    except ValueError as e:
        if empty_csc and 'chunk dimensions must be positive' in str(e):
            # the same defect met by the reader itself (file without labelled cells: the writer skips it)
            ctx.violation(f'AnnDataRowIterator raises on a CSC file without any stored value: ValueError: {e}'[:300],
                          {'class': F2C, 'files': [dict(f) for f in case['files']],
                           'M': case['M'].tolist(), 'normalization': case['normalization'],
                           'storage': case['storage'], 'raised': f'ValueError: {e}'[:200], 'entry': 'reader'})
            return None
        raise
    k = scale_of(v for f in vals for row in f for v in row)
    enc = Enc(case)
    tdict = tree_dict(case)
    with quiet():
        tree = TaxonomyTree(data=tdict)
    n_cells = len(case['cells'])
    exact = case['normalization'] == 'log2CPM'
    # configurations
    cfgs = set()
    all_cfg = [(r, p) for r in range(1, n_cells + 2) for p in (1, 2, 3, 4)]
    rng.shuffle(all_cfg)
    for c in all_cfg[:n_cfg]:
        cfgs.add(c)
    cfgs = sorted(cfgs)
    mfiles = []
    for f, fv in zip(case['files'], vals):
        mfiles.append([[enc.gene[g] for g in case['genes']],
                       [[enc.cell[case['cells'][i]], [to_int(v, k) for v in row]] for i, row in zip(f['rows'], fv)]])
    leaf = enc.leaf_level(tdict, case['hier'])
    # direct computation, per cluster
    members = {c: [] for c in tdict[case['hier'][-1]]}
    midx = {c: [] for c in members}
    for f, fv in zip(case['files'], vals):
        for i, row in zip(f['rows'], fv):
            c = case['label'].get(case['cells'][i])
            if c is not None:
                members[c].append(row)
                midx[c].append(i)
    clusters_sorted = sorted(members)
    records = []
    for (rows_at, nproc) in cfgs:
        for pth in rec.iterdir():
            pth.unlink()
        out = d / f'stats_{rows_at}_{nproc}.h5'
        tmp = d / 'tmp'
        tmp.mkdir(exist_ok=True)
        install_recorder(rec)
        obs = {'rows': rows_at, 'nproc': nproc}
        try:
            with quiet():
                pfa.precompute_summary_stats_from_h5ad_list_and_tree(
                    data_path_list=list(paths), taxonomy_tree=tree, output_path=out,
                    rows_at_a_time=rows_at, normalization=case['normalization'], tmp_dir=str(tmp),
                    n_processors=nproc)
            obs['ok'] = True
            obs['file'] = read_stats(out)
        except Exception as e:      # noqa
            obs['ok'] = False
            obs['err'] = exc_code(e)
            obs['msg'] = f'{type(e).__name__}: {e}'[:300]
        finally:
            remove_recorder()
        obs['tmp_left'] = sorted(p.name for p in tmp.iterdir())
        loads = []
        for pth in rec.iterdir():
            loads.append(json.loads(pth.read_text()))
        obs['loads'] = loads
        records.append((out, obs))
    return {'case': case, 'enc': enc, 'k': k, 'exact': exact, 'work_eps': work_eps, 'paths': paths,
            'tdict': tdict, 'leaf': leaf, 'mfiles': mfiles, 'members': members, 'midx': midx,
            'clusters_sorted': clusters_sorted, 'records': records, 'dir': d, 'vals': vals}


def describe(case):
    return {'hier': case['hier'], 'levels': case['levels'], 'cells': case['cells'], 'label': case['label'],
            'genes': case['genes'], 'M': case['M'].tolist(), 'M_dtype': str(case['M'].dtype),
            'normalization': case['normalization'], 'files': case['files'], 'ghosts': case['ghosts']}


def check_precompute(ctx, base):
    case, enc, k = base['case'], base['enc'], base['k']
    D = 1 << k
    cases = []
    for out, obs in base['records']:
        cases.append((901, [D, base['leaf'], base['mfiles'], obs['rows'], obs['nproc']]))
    # work split, on the chunk list the model derives itself: compare through the recorder
    res = ctx.model(cases)
    file_index = {str(p): i for i, p in enumerate(base['paths'])}
    for (out, obs), r in zip(base['records'], res):
        desc = dict(describe(case), rows_at_a_time=obs['rows'], n_processors=obs['nproc'], model=r,
                    observed={kk: vv for kk, vv in obs.items() if kk not in ('file',)})
        n_named = sum(len(v) for v in base['members'].values())
        scattered = any(len({fi for fi, f in enumerate(case['files']) for i in f['rows']
                             if case['label'].get(case['cells'][i]) == c}) > 1 for c in base['members'])
        nontriv = n_named >= 2 and len(base['members']) >= 2
        ctx.count(('pre', json.dumps(desc['M']), json.dumps(case['label'], sort_keys=True),
                   json.dumps([f['rows'] for f in case['files']]), obs['rows'], obs['nproc']),
                  nontrivial=nontriv)
        ctx.dist('normalization', case['normalization'] + '/' + case['storage'])
        ctx.dist('n_files', len(case['files']))
        ctx.dist('workers', obs['nproc'])
        ctx.dist('scattered_cluster', scattered)
        ctx.dist('outcome', 'ok' if r[0] == 0 else f'error{r[1]}')
        if nontriv:
            ctx.sample({kk: desc[kk] for kk in ('hier', 'label', 'M', 'normalization', 'rows_at_a_time',
                                                'n_processors')}, limit=3)
        corr, prop = [], []
        if obs['tmp_left']:
            prop.append(f'scratch not empty: {obs["tmp_left"]}')
        if r[0] == 1:
            if obs['ok']:
                corr.append(f'model raises {r[1]} but the implementation wrote a file')
            elif obs['err'] != r[1]:
                corr.append(f'error kind differs: implementation {obs.get("msg")} model {r[1]}')
            if not obs['ok'] and out.exists():
                with h5py.File(out, 'r') as f:
                    if 'taxonomy_tree' in f:
                        prop.append('failed run left a file that carries a taxonomy_tree')
        elif r[0] == 0:
            if not obs['ok']:
                corr.append(f'implementation raised {obs.get("msg")}, model accepts')
            else:
                o = obs['file']
                mc2r, mtab = r[1]
                inv = {v: kk for kk, v in enc.node.items()}
                exp_c2r = {inv[a]: b for a, b in mc2r}
                if o['cluster_to_row'] != exp_c2r:
                    corr.append(f'cluster_to_row {o["cluster_to_row"]} model {exp_c2r}')
                abs_by_row = []
                for c in base['clusters_sorted']:
                    ds, _ = direct_stats(base['members'][c])
                    ng = len(case['genes'])
                    abs_by_row.append((ds['abs'] if ds['n'] else [Fraction(0)] * ng,
                                       ds['sumsq'] if ds['n'] else [Fraction(0)] * ng, ds['n']))
                corr += table_matches(o, mtab, k, base['exact'], base['work_eps'], abs_by_row)
                # (b) the property's statement on the observed file
                if o['col_names'] != case['genes']:
                    prop.append(f'col_names {o["col_names"]} differ from the genes {case["genes"]}')
                if o['taxonomy_tree'] != base['tdict']:
                    prop.append('taxonomy_tree dataset differs from the input taxonomy')
                if sorted(o['cluster_to_row']) != base['clusters_sorted'] or \
                        sorted(o['cluster_to_row'].values()) != list(range(len(base['clusters_sorted']))):
                    prop.append('cluster_to_row is not a bijection from the leaves onto the rows')
                else:
                    ng = len(case['genes'])
                    for key in KEYS2:
                        if o['shapes'][key] != [len(base['clusters_sorted']), ng]:
                            prop.append(f'{key} has shape {o["shapes"][key]}')
                    if not prop:
                        for c in base['clusters_sorted']:
                            row = o['cluster_to_row'][c]
                            ds, _ = direct_stats(base['members'][c])
                            if int(o['n_cells'][row]) != ds['n']:
                                prop.append(f'n_cells of {c} is {int(o["n_cells"][row])}, has {ds["n"]} member cells')
                                continue
                            g0, g1, ge = cpm_counts(case, base['midx'][c])
                            for key, ev in (('gt0', g0), ('gt1', g1), ('ge1', ge)):
                                if key == 'ge1' and case['window']:
                                    if [int(v) for v in o[key][row]] != ev:
                                        _F26.append(f'ge1 is {[int(v) for v in o[key][row]]}, the number of member cells with CPM >= 1 is {ev}')
                                    continue
                                if [int(v) for v in o[key][row]] != ev:
                                    prop.append(f'{key} of {c} is {[int(v) for v in o[key][row]]}, direct count {ev}')
                            for key in ('sum', 'sumsq'):
                                for j in range(ng):
                                    ex = ds[key][j] if ds['n'] else Fraction(0)
                                    ob = Fraction(float(o[key][row][j]))
                                    if base['exact']:
                                        ok = ob == ex
                                    else:
                                        a = (ds['abs'][j] if key == 'sum' else ds['sumsq'][j]) if ds['n'] else Fraction(0)
                                        ok = abs(ob - ex) <= Fraction(2 * (ds['n'] + 2)) * Fraction(base['work_eps']) * a \
                                            + abs(ex) * Fraction(1, 10 ** 9)
                                    if not ok:
                                        prop.append(f'{key} of {c}, gene {j}: {float(ob)!r}, direct {float(ex)!r}')
                # work loads (inner tie): the recorded chunk lists vs Stats.work_split
                loads = sorted([[[file_index[s[0]], s[1], s[2]] for s in ld] for ld in obs['loads']])
                base.setdefault('loads_obs', []).append((obs, loads))
        else:
            corr.append('model could not decode the case')
        report(ctx, desc, corr, prop, 'precompute', 'Stats.precompute')
    # work split tie
    ws_cases, ws_obs = [], []
    for obs, loads in base.get('loads_obs', []):
        chunks = sorted(c for ld in loads for c in ld)
        n_total = sum(len(f['rows']) for fi, f in enumerate(case['files'])
                      if any(case['cells'][i] in case['label'] for i in f['rows']))
        ws_cases.append((903, [n_total, obs['nproc'], chunks]))
        ws_obs.append((obs, loads, chunks))
    for (obs, loads, chunks), r in zip(ws_obs, ctx.model(ws_cases)):
        desc = dict(describe(case), rows_at_a_time=obs['rows'], n_processors=obs['nproc'], model=r, loads=loads)
        corr, prop = [], []
        if r[0] != 0:
            corr.append(f'model work_split fails with {r}')
        else:
            mloads = sorted(ld for ld in r[1] if ld)
            if mloads != loads:
                corr.append(f'work loads {loads} model {mloads}')
        # property: loads partition the chunk list; chunk list covers each used file once
        flat = [c for ld in loads for c in ld]
        if sorted(flat) != chunks or len(loads) > obs['nproc']:
            prop.append('work loads do not partition the chunk list / more loads than workers')
        cover = {}
        for fi, r0, r1 in chunks:
            cover.setdefault(fi, []).append((r0, r1))
        for fi, f in enumerate(case['files']):
            used = any(case['cells'][i] in case['label'] for i in f['rows'])
            segs = sorted(cover.get(fi, []))
            want = len(f['rows']) if used else 0
            pos = 0
            for r0, r1 in segs:
                if r0 != pos or r1 <= r0 or r1 - r0 > obs['rows']:
                    prop.append(f'chunks of file {fi} are {segs}')
                    break
                pos = r1
            else:
                if pos != want:
                    prop.append(f'chunks of file {fi} cover {pos} rows of {want}')
        ctx.count()
        report(ctx, desc, corr, prop, 'work_split', 'Stats.work_split')


F26 = 'F26-ge1-counts-cells-just-below-1-cpm'
_F26 = []


def report(ctx, desc, corr, prop, kind, model_fn):
    if _F26:
        # the documented count "at least 1 CPM" against the coded threshold log2(CPM+1) > 1 - 1e-6
        ctx.disagreements_checked += 1
        ctx.violation(f'{kind}: ' + '; '.join(_F26[:3]), dict(desc, kind=kind, problems=list(_F26), **{'class': F26}))
        del _F26[:]
    if not corr and not prop:
        return
    ctx.disagreements_checked += 1
    desc = dict(desc, kind=kind, problems=prop + corr)
    if prop:
        desc['class'] = f'{kind}:' + prop[0].split(':')[0][:50].replace(' ', '-')
        ctx.violation(f'{kind}: ' + '; '.join((prop + corr)[:4]), desc)
    else:
        desc['class'] = f'corr:{model_fn}'
        ctx.violation(f'{kind}: model and implementation disagree: ' + '; '.join(corr[:4]), desc, no_input=True)


# ------------------------------------------------------------------ truncation
def check_truncate(ctx, base):
    from cell_type_mapper.diff_exp.truncate_precompute import truncate_precomputed_stats_file
    case, enc, k = base['case'], base['enc'], base['k']
    src = next((out for out, obs in base['records'] if obs['ok']), None)
    if src is None:
        return
    src_obs = next(obs for out, obs in base['records'] if obs['ok'])['file']
    hier = case['hier']
    subs = []
    for n in range(1, len(hier) + 1):
        for comb in itertools.combinations(range(len(hier)), n):
            subs.append([hier[i] for i in comb])
    subs.append(list(reversed(hier)) if len(hier) > 1 else ['nolevel'])
    subs.append(hier[:1] + ['nolevel'])
    inv = {v: kk for kk, v in enc.node.items()}
    data = enc_table(src_obs, k) if base['exact'] else None
    recs, cases = [], []
    for nh in subs:
        out = base['dir'] / 'trunc.h5'
        if out.exists():
            out.unlink()
        o = {'new_hierarchy': nh}
        try:
            with quiet():
                truncate_precomputed_stats_file(input_path=src, output_path=out, new_hierarchy=list(nh))
            o['ok'] = True
            o['file'] = read_stats(out)
        except Exception as e:      # noqa
            o['ok'] = False
            o['err'] = exc_code(e)
            o['msg'] = f'{type(e).__name__}: {e}'[:300]
        recs.append(o)
        if data is not None:
            nh_idx = [hier.index(x) if x in hier else len(hier) + 3 for x in nh]
            c2r = [[enc.node[c], r] for c, r in src_obs['cluster_to_row'].items()]
            cases.append((904, [len(case['genes']), enc.tree(base['tdict']), nh_idx, c2r, data]))
    res = ctx.model(cases) if cases else [None] * len(recs)
    for o, r in zip(recs, res):
        nh = o['new_hierarchy']
        desc = dict(describe(case), new_hierarchy=nh, model=r,
                    observed={kk: vv for kk, vv in o.items() if kk != 'file'})
        dropped_leaf = nh[-1] != hier[-1] if all(x in hier for x in nh) else None
        ctx.count(('trunc', json.dumps(desc['M']), json.dumps(case['label'], sort_keys=True), json.dumps(nh),
                   json.dumps(case['levels'], sort_keys=True)),
                  nontrivial=bool(o['ok'] and dropped_leaf and len(base['members']) >= 2))
        ctx.dist('truncate', 'ok-newleaves' if (o['ok'] and dropped_leaf) else ('ok-sameleaves' if o['ok'] else f'error{o["err"]}'))
        corr, prop = [], []
        if r is not None:
            if r[0] == 1:
                if o['ok']:
                    corr.append(f'model raises {r[1]}, implementation wrote a file')
                elif o['err'] != r[1]:
                    corr.append(f'error kind differs: implementation {o.get("msg")} model {r[1]}')
            elif r[0] == 0:
                if not o['ok']:
                    corr.append(f'implementation raised {o.get("msg")}, model accepts')
                else:
                    mtree, mc2r, mtab = r[1]
                    exp_c2r = {inv[a]: b for a, b in mc2r}
                    if o['file']['cluster_to_row'] != exp_c2r:
                        corr.append(f'cluster_to_row {o["file"]["cluster_to_row"]} model {exp_c2r}')
                    corr += table_matches(o['file'], mtab, k, True, 0, None)
                    kept = [x for x in hier if x in nh]
                    got_tree = {kk: vv for kk, vv in o['file']['taxonomy_tree'].items() if kk != 'metadata'}
                    if got_tree != enc.tree_names(mtree, kept):
                        corr.append(f'taxonomy_tree {got_tree} model {enc.tree_names(mtree, kept)}')
            else:
                corr.append('model could not decode the case')
        if o['ok']:
            # (b) statistics of the coarser hierarchy, computed directly from the cells
            kept = [x for x in hier if x in nh]
            new_leaf = kept[-1]
            f = o['file']
            if f['taxonomy_tree'].get('hierarchy') != kept:
                prop.append(f'hierarchy of the truncated file is {f["taxonomy_tree"].get("hierarchy")}, wanted {kept}')
            anc = {}
            for c in base['members']:
                node = c
                for li in range(len(hier) - 1, hier.index(new_leaf), -1):
                    node = next(p for p, ch in case['levels'][hier[li - 1]].items() if node in ch)
                anc[c] = node
            groups = {}
            for c in base['members']:
                groups.setdefault(anc[c], []).append(c)
            if sorted(f['cluster_to_row']) != sorted(case['levels'][new_leaf]) or \
                    sorted(f['cluster_to_row'].values()) != list(range(len(case['levels'][new_leaf]))):
                prop.append(f'cluster_to_row {f["cluster_to_row"]} is not a bijection from the {new_leaf} nodes onto the rows')
            else:
                ng = len(case['genes'])
                leaf_cells = f['taxonomy_tree'].get(new_leaf, {})
                for node in case['levels'][new_leaf]:
                    rows = [rw for c in groups.get(node, []) for rw in base['members'][c]]
                    idxs = [i for c in groups.get(node, []) for i in base['midx'][c]]
                    want_cells = sorted(cc for c in groups.get(node, []) for cc in base['tdict'][hier[-1]][c])
                    if sorted(leaf_cells.get(node, [])) != want_cells:
                        prop.append(f'taxonomy_tree of the truncated file lists {leaf_cells.get(node)} under {node}')
                    ds, _ = direct_stats(rows)
                    row = f['cluster_to_row'][node]
                    if int(f['n_cells'][row]) != ds['n']:
                        prop.append(f'n_cells of {node} is {int(f["n_cells"][row])}, has {ds["n"]} member cells')
                        continue
                    g0, g1, ge = cpm_counts(case, idxs)
                    for key, ev in (('gt0', g0), ('gt1', g1), ('ge1', ge)):
                        if key == 'ge1' and case['window']:
                            if [int(v) for v in f[key][row]] != ev:
                                _F26.append(f'ge1 is {[int(v) for v in f[key][row]]}, the number of member cells with CPM >= 1 is {ev}')
                            continue
                        if [int(v) for v in f[key][row]] != ev:
                            prop.append(f'{key} of {node} is {[int(v) for v in f[key][row]]}, direct count {ev}')
                    for key in ('sum', 'sumsq'):
                        for j in range(ng):
                            ex = ds[key][j] if ds['n'] else Fraction(0)
                            ob = Fraction(float(f[key][row][j]))
                            if base['exact']:
                                ok = ob == ex
                            else:
                                a = (ds['abs'][j] if key == 'sum' else ds['sumsq'][j]) if ds['n'] else Fraction(0)
                                ok = abs(ob - ex) <= Fraction(2 * (ds['n'] + 4)) * Fraction(base['work_eps']) * a \
                                    + abs(ex) * Fraction(1, 10 ** 9)
                            if not ok:
                                prop.append(f'{key} of {node}, gene {j}: {float(ob)!r}, direct {float(ex)!r}')
            if f['col_names'] != case['genes']:
                prop.append('col_names changed by the truncation')
        report(ctx, desc, corr, prop, 'truncate', 'Stats.truncate')


# ------------------------------------------------------------------ merge
def check_merge(ctx, idx, rng):
    """2-3 datasets over one taxonomy -> per-dataset files -> merge_precompute_files."""
    from cell_type_mapper.taxonomy.taxonomy_tree import TaxonomyTree
    import cell_type_mapper.diff_exp.precompute_from_anndata as pfa
    from cell_type_mapper.diff_exp.precompute_utils import merge_precompute_files
    d = ctx.scratch / f'merge{idx}'
    d.mkdir()
    n_leaves = rng.randrange(1, 5)
    hier, levels = gen_tree(rng, n_leaves)
    leaves = list(levels[hier[-1]])
    n_genes = rng.randrange(1, 4)
    genes = gen_names(rng, n_genes, 'g')
    n_sets = rng.choice([1, 2, 2, 3, 3])
    mutate = rng.choice([None] * 6 + ['genes', 'tree', 'rows', 'rows'])
    sets, paths = [], []
    names = gen_names(rng, n_sets, 'ds')
    for s in range(n_sets):
        n_cells = rng.randrange(1, 7)
        cells = [f'd{s}_c{i}' for i in range(n_cells)]
        lab = {c: rng.choice(leaves) for c in cells if rng.random() < 0.85}
        if not lab:
            lab[cells[0]] = leaves[0]
        M = np.array([[rng.choice(VAL_COARSE) for _ in range(n_genes)] for _ in range(n_cells)], dtype=np.float64)
        these_genes = list(genes)
        these_levels = levels
        if mutate == 'genes' and s == n_sets - 1 and n_sets > 1:
            these_genes = list(reversed(genes)) if n_genes > 1 else ['other']
        if mutate == 'tree' and s == n_sets - 1 and n_sets > 1 and len(hier) > 1:
            these_levels = json.loads(json.dumps(levels))
            top = these_levels[hier[0]]
            top['extra_node'] = []
        td = {'hierarchy': list(hier)}
        for lv in hier[:-1]:
            td[lv] = {kk: list(v) for kk, v in these_levels[lv].items()}
        td[hier[-1]] = {leaf: [c for c in cells if lab.get(c) == leaf] for leaf in leaves}
        h5 = d / f'{names[s]}.h5ad'
        with quiet():
            gen.write_h5ad(h5, M, cells, these_genes, encoding=rng.choice(['dense', 'csr']))
        out = d / f'{names[s]}_stats.h5'
        try:
            with quiet():
                tree = TaxonomyTree(data=td)
                pfa.precompute_summary_stats_from_h5ad_list_and_tree(
                    data_path_list=[h5], taxonomy_tree=tree, output_path=out, rows_at_a_time=rng.randrange(1, 4),
                    normalization='log2CPM', tmp_dir=str(d), n_processors=rng.choice([1, 2]))
        except Exception:      # childless extra node etc.: skip this merge case
            return
        if mutate == 'rows' and s == n_sets - 1 and n_sets > 1 and n_leaves > 1:
            # the same statistics with the rows in another order (as truncate_precomputed_stats_file numbers
            # them: tree order, not sorted names): a legitimate file whose cluster_to_row differs
            with h5py.File(out, 'r+') as f_:
                c2r = json.loads(f_['cluster_to_row'][()].decode('utf-8'))
                nrow = len(c2r)
                perm = list(range(nrow))
                while perm == list(range(nrow)):
                    rng.shuffle(perm)
                for key_ in ('n_cells',) + KEYS2:
                    old_ = f_[key_][()]
                    new_ = np.zeros_like(old_)
                    for r_old, r_new in enumerate(perm):
                        new_[r_new] = old_[r_old]
                    f_[key_][...] = new_
                del f_['cluster_to_row']
                f_.create_dataset('cluster_to_row', data=json.dumps({c_: perm[r_] for c_, r_ in c2r.items()}).encode('utf-8'))
        sets.append({'cells': cells, 'label': lab, 'M': M, 'genes': these_genes, 'tdict': td, 'stats': read_stats(out)})
        paths.append(str(out))
    order = list(range(n_sets))
    rng.shuffle(order)
    arg = [paths[i] for i in order]
    merged = d / 'merged.h5'
    o = {}
    try:
        with quiet():
            merge_precompute_files(list(arg), merged)
        o['ok'] = True
        o['file'] = read_stats(merged)
    except Exception as e:      # noqa
        o['ok'] = False
        o['err'] = exc_code(e)
        o['msg'] = f'{type(e).__name__}: {e}'[:300]
    all_nodes = []
    for lv in hier:
        all_nodes += list(levels[lv])
    node = ranks(all_nodes + ['extra_node'])
    gene = ranks(genes + ['other'])
    cellr = ranks([c for s in sets for c in s['cells']])
    prank = ranks(paths)
    k = 3
    mcase = []
    for s, p in zip(sets, paths):
        td = s['tdict']
        t = []
        for lv in hier[:-1]:
            t.append([[node[a], [node[c] for c in ch]] for a, ch in td[lv].items()])
        t.append([[node[a], [cellr[c] for c in ch]] for a, ch in td[hier[-1]].items()])
        mcase.append([prank[p], t, [[node[c], r] for c, r in s['stats']['cluster_to_row'].items()],
                      [gene[g] for g in s['stats']['col_names']], enc_table(s['stats'], k)])
    r = ctx.model([(905, [mcase[i] for i in order])])[0]
    desc = {'hier': hier, 'levels': levels, 'genes': genes, 'paths': [pathlib.Path(p).name for p in arg],
            'sets': [{'cells': s['cells'], 'label': s['label'], 'M': s['M'].tolist(), 'genes': s['genes']} for s in sets],
            'model': r, 'observed': {kk: vv for kk, vv in o.items() if kk != 'file'}, 'mutate': mutate}
    ctx.count(('merge', json.dumps(desc['sets'], sort_keys=True), json.dumps(desc['paths'])),
              nontrivial=bool(o['ok'] and n_sets >= 2 and n_leaves >= 2))
    ctx.dist('merge', 'ok' if o['ok'] else f'error{o["err"]}')
    corr, prop = [], []
    if r[0] == 1:
        if o['ok']:
            corr.append(f'model raises {r[1]}, implementation wrote a file')
        elif o['err'] != r[1]:
            corr.append(f'error kind differs: implementation {o.get("msg")} model {r[1]}')
    elif r[0] == 0:
        if not o['ok']:
            corr.append(f'implementation raised {o.get("msg")}, model accepts')
        else:
            corr += table_matches(o['file'], r[1][1], k, True, 0, None)
            base = sets[[prank[p] for p in paths].index(r[1][0])]
            if o['file']['cluster_to_row'] != base['stats']['cluster_to_row']:
                corr.append('cluster_to_row of the merged file is not that of the base file')
    else:
        corr.append('model could not decode the case')
    if o['ok']:
        f = o['file']
        for leaf in leaves:
            row = f['cluster_to_row'].get(leaf)
            if row is None:
                prop.append(f'leaf {leaf} has no row in the merged file')
                continue
            cands = []
            for s in sets:
                st = s['stats']
                sr = st['cluster_to_row'][leaf]
                cands.append((int(st['n_cells'][sr]), [st[key][sr].tolist() for key in KEYS2]))
            best = max(c[0] for c in cands)
            got = (int(f['n_cells'][row]), [f[key][row].tolist() for key in KEYS2])
            if got[0] != best:
                prop.append(f'merged n_cells of {leaf} is {got[0]}, the largest dataset has {best}')
            elif got not in cands:
                prop.append(f'merged row of {leaf} is not the row of any dataset with {best} cells')
        if f['col_names'] != genes:
            prop.append('col_names of the merged file differ')
        if f['taxonomy_tree'] is None or {kk: vv for kk, vv in f['taxonomy_tree'].items() if kk != 'metadata'}.get('hierarchy') != hier:
            prop.append('merged file lost its taxonomy_tree')
    report(ctx, desc, corr, prop, 'merge', 'Stats.merge_precompute')


# ------------------------------------------------------------------ single-file entry point
def check_single_file(ctx, idx, rng):
    """precompute_summary_stats_from_h5ad with column_hierarchy (tree read from obs)."""
    import cell_type_mapper.diff_exp.precompute_from_anndata as pfa
    d = ctx.scratch / f'single{idx}'
    d.mkdir()
    case = gen_case(rng)
    case['ghosts'] = []
    cells, hier, levels = case['cells'], case['hier'], case['levels']
    leaves = list(levels[hier[-1]])
    lab = {c: rng.choice(leaves) for c in cells}          # every cell labelled
    case['label'] = lab
    case['files'] = [{'name': 'single.h5ad', 'rows': list(range(len(cells))),
                      'encoding': rng.choice(['dense', 'csr', 'csc']), 'chunks': rng.choice([None, 1, 2])}]
    cols = {}
    for li in range(len(hier) - 1, -1, -1):
        col = []
        for c in cells:
            node = lab[c]
            for lj in range(len(hier) - 1, li, -1):
                node = next(p for p, ch in levels[hier[lj - 1]].items() if node in ch)
            col.append(node)
        cols[hier[li]] = col
    p = d / 'single.h5ad'
    with quiet():
        gen.write_h5ad(p, case['M'], cells, case['genes'], encoding=case['files'][0]['encoding'],
                       chunks=case['files'][0]['chunks'], obs_cols=cols)
    if case['files'][0]['encoding'] == 'csc' and not case['M'].any():
        # see run_base: CSC file without any stored value (the former finding F2 reached through this
        # entry point); when the call does not raise the case runs normally below
        try:
            with quiet():
                pfa.precompute_summary_stats_from_h5ad(data_path=p, column_hierarchy=list(hier), taxonomy_tree=None,
                                                       output_path=d / 'stats0.h5', rows_at_a_time=3,
                                                       normalization=case['normalization'], tmp_dir=str(d),
                                                       n_processors=1)
            raised = None
        except Exception as e:      # noqa
            raised = f'{type(e).__name__}: {e}'[:200]
        if raised is not None and 'chunk dimensions must be positive' in raised:
            ctx.count(('empty-csc-single', len(cells)), nontrivial=False)
            ctx.dist('empty_csc_file', 'single')
            ctx.violation('statistics writer raises on a CSC file without any stored value: ' + raised,
                          {'class': F2C, 'files': [dict(f) for f in case['files']], 'M': case['M'].tolist(),
                           'normalization': case['normalization'], 'storage': case['storage'],
                           'entry': 'from_h5ad', 'raised': raised})
            return
    vals, work_eps = cell_values(case, [p])
    k = scale_of(v for row in vals[0] for v in row)
    enc = Enc(case)
    used = {hier[-1]: {}}
    for c in cells:
        used[hier[-1]].setdefault(lab[c], []).append(c)
    leaf = [[enc.node[cl], [enc.cell[c] for c in cs]] for cl, cs in used[hier[-1]].items()]
    mfiles = [[[enc.gene[g] for g in case['genes']],
               [[enc.cell[c], [to_int(v, k) for v in row]] for c, row in zip(cells, vals[0])]]]
    rows_at = rng.randrange(1, len(cells) + 2)
    nproc = rng.randrange(1, 5)
    out = d / 'stats.h5'
    o = {}
    try:
        with quiet():
            pfa.precompute_summary_stats_from_h5ad(data_path=p, column_hierarchy=list(hier), taxonomy_tree=None,
                                                   output_path=out, rows_at_a_time=rows_at,
                                                   normalization=case['normalization'], tmp_dir=str(d),
                                                   n_processors=nproc)
        o['ok'] = True
        o['file'] = read_stats(out)
    except Exception as e:      # noqa
        o['ok'] = False
        o['err'] = exc_code(e)
        o['msg'] = f'{type(e).__name__}: {e}'[:300]
    r = ctx.model([(901, [1 << k, leaf, mfiles, rows_at, nproc])])[0]
    desc = dict(describe(case), rows_at_a_time=rows_at, n_processors=nproc, model=r, entry='from_h5ad',
                observed={kk: vv for kk, vv in o.items() if kk != 'file'})
    ctx.count(('single', json.dumps(desc['M']), json.dumps(lab, sort_keys=True), rows_at, nproc),
              nontrivial=len(used[hier[-1]]) >= 2)
    ctx.dist('entry', 'from_h5ad')
    corr, prop = [], []
    if r[0] != 0 or not o['ok']:
        corr.append(f'model {r[:2]} / implementation {o.get("msg", "ok")}')
    else:
        f = o['file']
        mc2r, mtab = r[1]
        inv = {v: kk for kk, v in enc.node.items()}
        if f['cluster_to_row'] != {inv[a]: b for a, b in mc2r}:
            corr.append(f'cluster_to_row {f["cluster_to_row"]} model {mc2r}')
        members = {c: [row for cc, row in zip(cells, vals[0]) if lab[cc] == c] for c in used[hier[-1]]}
        abs_by_row = []
        for c in sorted(members):
            ds, _ = direct_stats(members[c])
            abs_by_row.append((ds['abs'], ds['sumsq'], ds['n']))
        corr += table_matches(f, mtab, k, case['normalization'] == 'log2CPM', work_eps, abs_by_row)
        # taxonomy read from obs: leaves list row indexes
        tt = f['taxonomy_tree']
        want_leaf = {c: [i for i, cc in enumerate(cells) if lab[cc] == c] for c in used[hier[-1]]}
        if tt is None or tt.get('hierarchy') != hier or \
                {kk: sorted(v) for kk, v in tt[hier[-1]].items()} != want_leaf:
            prop.append('taxonomy_tree of the file does not list the rows of each cluster')
        for c in members:
            row = f['cluster_to_row'].get(c)
            if row is None or int(f['n_cells'][row]) != len(members[c]):
                prop.append(f'n_cells of {c} wrong')
                continue
            g0, g1, ge = cpm_counts(case, [i for i, cc in enumerate(cells) if lab[cc] == c])
            for key, ev in (('gt0', g0), ('gt1', g1), ('ge1', ge)):
                if key == 'ge1' and case['window']:
                    if [int(v) for v in f[key][row]] != ev:
                        _F26.append(f'ge1 is {[int(v) for v in f[key][row]]}, the number of member cells with CPM >= 1 is {ev}')
                    continue
                if [int(v) for v in f[key][row]] != ev:
                    prop.append(f'{key} of {c} is {[int(v) for v in f[key][row]]}, direct count {ev}')
    report(ctx, desc, corr, prop, 'precompute-single', 'Stats.precompute')


def check_errors(ctx, idx, rng):
    """rejections: gene mismatch between files, zero workers, zero rows_at_a_time."""
    from cell_type_mapper.taxonomy.taxonomy_tree import TaxonomyTree
    import cell_type_mapper.diff_exp.precompute_from_anndata as pfa
    d = ctx.scratch / f'err{idx}'
    d.mkdir()
    kind = rng.choice(['genes', 'zero_workers', 'zero_rows'])
    genes = ['g1', 'g2']
    M = np.array([[1.0, 0.5], [0.0, 2.0], [1.0, 1.0]])
    cells = ['a', 'b', 'c']
    with quiet():
        gen.write_h5ad(d / 'f0.h5ad', M[:2], cells[:2], genes)
        gen.write_h5ad(d / 'f1.h5ad', M[2:], cells[2:], genes if kind != 'genes' else ['g2', 'g1'])
        tree = TaxonomyTree(data={'hierarchy': ['cluster'], 'cluster': {'x': ['a', 'c'], 'y': ['b']}})
    rows_at, nproc = (0, 2) if kind == 'zero_rows' else ((2, 0) if kind == 'zero_workers' else (2, rng.randrange(1, 4)))
    o = {}
    try:
        with quiet():
            pfa.precompute_summary_stats_from_h5ad_list_and_tree(
                data_path_list=[d / 'f0.h5ad', d / 'f1.h5ad'], taxonomy_tree=tree, output_path=d / 'o.h5',
                rows_at_a_time=rows_at, normalization='log2CPM', tmp_dir=str(d), n_processors=nproc)
        o['err'] = None
    except Exception as e:      # noqa
        o['err'] = exc_code(e)
        o['msg'] = f'{type(e).__name__}: {e}'[:200]
    mf = [[[0, 1], [[0, [8, 4]], [1, [0, 16]]]], [[0, 1] if kind != 'genes' else [1, 0], [[2, [8, 8]]]]]
    r = ctx.model([(901, [8, [[0, [0, 2]], [1, [1]]], mf, rows_at, nproc])])[0]
    ctx.count(('err', kind, nproc), nontrivial=False)
    ctx.dist('rejections', kind)
    if r[0] != 1 or o['err'] != r[1]:
        ctx.disagreements_checked += 1
        ctx.violation(f'rejection {kind}: implementation {o} model {r}',
                      {'class': 'corr:Stats.precompute', 'kind': kind, 'observed': o, 'model': r}, no_input=True)


def run(ctx):
    ctx.rule = ('generated references: 1-14 cells, 1-4 genes, 1-5 clusters under 1-3 levels (clusters of one cell, empty '
                'clusters, unlabelled cells, taxonomy cells absent from the files), split over 1-3 files (possibly empty '
                'or without labelled cells) in dense/csr/csc and several HDF5 chunkings, pre-normalised (dyadic values: '
                'sums compared exactly) or raw counts (incl. rows with a gene at exactly 1 CPM; sums within the '
                'summation bound), float64/float32/integer storage; per base case a sample of (rows_at_a_time 1..n+1) x '
                '(workers 1..4); then every sub-hierarchy truncation of a written file and merges of 1-3 per-dataset files. '
                'non-trivial = at least 2 clusters and 2 labelled cells (precompute), leaf level dropped (truncate), '
                '>= 2 datasets and >= 2 leaves (merge)')
    ctx.assumptions += [
        'CSC-encoded input files whose cells hold no stored value are generated and checked like every other file (the '
        'reader used to raise on them - h5py chunks=(0,), the defect F2 of C05/C13, fixed; a relapse would be reported '
        'under class ' + F2C + ')',
        'log2(CPM+1) per cell and gene is a model INPUT: the value the implementation\'s reader and normaliser '
        '(AnnDataRowIterator.get_chunk + CellByGeneMatrix.to_log2CPM_in_place) return for that cell alone',
        'cells with CPM in (1 - 1.4e-6, 1) are counted as ">= 1 CPM" by the code (threshold 1 - 1e-6 in log2 space); such '
        'values are generated, the ge1 clause of the direct computation is evaluated on them and its failure is the known '
        'finding ' + F26 + ' (Coq: c09_ge1_exact_refuted)',
        'cell names are unique across the files of one run; n_processors >= 1 and rows_at_a_time >= 1 (0 is checked to be rejected)',
        'a taxonomy none of whose cells is in any file makes the writer raise AttributeError (no worker output): '
        'modelled as an error (E_NOWORK), not claimed as a violation',
        'float summation is not modelled: raw-count sums are compared within 2(n+2)*eps*sum|x| of the exact value '
        '(eps of the working dtype, float32 data are normalised in float32 by the code)',
    ]
    rng = ctx.rng
    n_base = ctx.n(60, 1300)
    n_cfg = ctx.n(4, 10)
    for i in range(n_base):
        case = gen_case(rng)
        base = run_base(ctx, i, case, n_cfg)
        if base is None:
            import shutil
            shutil.rmtree(ctx.scratch / f'case{i}', ignore_errors=True)
            continue
        check_precompute(ctx, base)
        check_truncate(ctx, base)
        import shutil
        shutil.rmtree(base['dir'], ignore_errors=True)
    for i in range(ctx.n(30, 600)):
        check_merge(ctx, i, rng)
    for i in range(ctx.n(15, 300)):
        check_single_file(ctx, i, rng)
    for i in range(ctx.n(6, 30)):
        check_errors(ctx, i, rng)


def replay(ctx, rec):
    print(json.dumps(rec, indent=1, default=str)[:6000])
    return 0
