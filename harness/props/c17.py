"""C17 — flattening or dropping a level equals mapping on the reduced taxonomy.

Three ties:
 (i)   function level: the REAL TaxonomyTree.backfill_assignments (and the real
       drop_level / flatten under the guard of _run_mapping) on generated (stored tree,
       reduced-tree records) vs Model/RunMapping.v (reduce 1702, backfill 1701,
       reduce+place+backfill 1703), plus the predicate spec_c17 (1704) on the real output;
 (i')  the reduced tree as a tree: for every generated tree and every reduction (each droppable
       level, flatten, drop+flatten) the REAL reduced TaxonomyTree is queried like the marker
       reconciliation and the election query it - nodes_at_level, children and parents of every
       node, as_leaves, leaves_to_compare of every parent - and compared with the queries of
       Model/Tree.v on RunMapping.reduce (tag 1706) and with a TaxonomyTree built from the
       reduced data alone; class c17-reduced-tree-query-differs;
 (ii)  election level: the real election.run_type_assignment with a table-driven oracle on
       the really reduced tree, marked directly_assigned, really backfilled, vs
       run_mapping_model with the table-driven decide (1705);
 (iii) pipeline level: paired REAL run_mapping runs with a common seed (drop_level=L vs a
       statistics file holding the model's drop_level t L; flatten vs a one-level taxonomy;
       an absent level), compared bitwise at the shared levels; run B's records pushed
       through the model (1703) must give run A's complete output; spec_c17 on run A.
       Besides the random scenarios: taxonomies of 4-5 levels with a dropped MIDDLE level whose
       child level is a parent level, and marker tables in which parents below the dropped level
       have fewer genes in the query than min_markers (2, 3, 5), so that the marker
       reconciliation borrows from the ancestors of the reduced tree."""
import copy
import json
from fractions import Fraction

import numpy as np

from harness import pipeline, paired, mapcheck, trees, routing
from harness.props import c17_keys

E_KEY = 6          # Tree.E_KEY (KeyError)
TREE_ERR = {'flat': 1, 'nolevel': 2, 'leaf': 3, 'invalid': 4}


def model_to_data(levels, model, gt):
    data = {'hierarchy': list(levels)}
    for name, lv in zip(levels, model):
        if name == levels[-1]:
            data[name] = {gt.name(n): list(c) for n, c in lv}
        else:
            data[name] = {gt.name(n): [gt.name(x) for x in c] for n, c in lv}
    return data


# ------------------------------------------------------------------ canonical forms
def fr(x):
    f = Fraction(float(x))
    return [f.numerator, f.denominator]


RUNNER_KEYS = ('runner_up_assignment', 'runner_up_correlation', 'runner_up_probability')
PLAIN_KEYS = ('assignment', 'bootstrapping_probability', 'avg_correlation', 'aggregate_probability',
              'directly_assigned')


def canon_orec(r):
    """One output record -> the model's orec wire form; None if the record has a key set the
    model cannot express (reported by the caller)."""
    keys = set(r.keys())
    ru = [k for k in keys if k.startswith('runner_up')]
    if set(ru) not in (set(), set(RUNNER_KEYS)) or keys - set(ru) != set(PLAIN_KEYS):
        return None
    c = r['avg_correlation']
    corr = [] if c is None else [fr(c)]
    if ru:
        runners = [[[trees.GenTree.num(a), fr(p), fr(co)]
                    for a, p, co in zip(r['runner_up_assignment'], r['runner_up_probability'],
                                        r['runner_up_correlation'])]]
        if not (len(r['runner_up_assignment']) == len(r['runner_up_probability']) == len(r['runner_up_correlation'])):
            return None
    else:
        runners = []
    if not isinstance(r['directly_assigned'], bool):
        return None
    return [trees.GenTree.num(r['assignment']), fr(r['bootstrapping_probability']), corr,
            fr(r['aggregate_probability']), runners, 1 if r['directly_assigned'] else 0]


def canon_cell(levels, cell, ordered=True):
    """dict {level name: record} -> [[stored level index, orec] ...] in dict order (or by level)."""
    out = []
    for k, v in cell.items():
        if k not in levels:
            if k == 'cell_id':
                continue
            return None
        o = canon_orec(v)
        if o is None:
            return None
        out.append([levels.index(k), o])
    if not ordered:
        out.sort(key=lambda e: e[0])
    return out


def red_fracs(cells):
    """reduce the model's fractions (they are copied verbatim, so this is the identity on
    reduced input; kept for safety)."""
    def red(f):
        q = Fraction(f[0], f[1])
        return [q.numerator, q.denominator]
    out = []
    for cell in cells:
        nc = []
        for k, (a, p, c, g, rs, d) in cell:
            nc.append([k, [a, red(p), [red(x) for x in c], red(g),
                           [[[o, red(rp), red(rc)] for o, rp, rc in rs[0]]] if rs else [], d]])
        out.append(nc)
    return out


def canon_tree(tt, gt):
    """a real TaxonomyTree -> the model's wire form, dict order kept."""
    out = []
    h = tt.hierarchy
    for lv in h:
        d = tt._data[lv]
        if lv == h[-1]:
            out.append([[gt.num(n), [int(r) for r in rows]] for n, rows in d.items()])
        else:
            out.append([[gt.num(n), [gt.num(c) for c in kids]] for n, kids in d.items()])
    return out


# ------------------------------------------------------------------ the code under test
def real_reduce(tt, drop_name, flatten):
    """The reduction of _run_mapping (from_specified_markers.py lines 272-274, 293-295) on a real
    TaxonomyTree. Returns ('ok', reduced TaxonomyTree) or ('err', code)."""
    try:
        if drop_name is not None:
            if drop_name in tt.hierarchy:
                tt = tt.drop_level(drop_name)
        if flatten:
            tt = tt.flatten()
        return 'ok', tt
    except RuntimeError as e:
        msg = str(e)
        if 'It is flat' in msg:
            return 'err', TREE_ERR['flat']
        if 'not in the hierarchy' in msg:
            return 'err', TREE_ERR['nolevel']
        if 'That is the leaf level' in msg:
            return 'err', TREE_ERR['leaf']
        return 'err', TREE_ERR['invalid']


def real_backfill(tt_full, assignments):
    """tree_for_metadata.backfill_assignments(result) exactly as _run_mapping builds the tree."""
    from cell_type_mapper.taxonomy.taxonomy_tree import TaxonomyTree
    stored = TaxonomyTree(data=json.loads(tt_full.to_str(drop_cells=True)))
    try:
        return 'ok', stored.backfill_assignments(assignments)
    except KeyError:
        return 'err', E_KEY



# ------------------------------------------------------------------ queries of the reduced tree
def tree_queries(rt, gt):
    """Everything the marker reconciliation (validate_marker_lookup: all_parents, children, parents) and
    the election (children, as_leaves, leaves_to_compare) ask of a TaxonomyTree, in the wire form of
    RunMapping.run_reduced_queries (tag 1706) minus the level map."""
    h = rt.hierarchy
    n = len(h)
    table = []
    for li, lv in enumerate(h):
        row = []
        for x in rt.nodes_at_level(lv):
            try:
                ch = rt.children(lv, x)
                ch = [0, [int(r) for r in ch] if li == n - 1 else [gt.num(c) for c in ch]]
            except RuntimeError:
                ch = [1, 5]
            try:
                par = rt.parents(lv, x)
                par = [0, [[h.index(k), gt.num(v)] for k, v in par.items()]]
            except KeyError:
                par = [1, E_KEY]
            row.append([gt.num(x), ch, par])
        table.append(row)
    al = rt.as_leaves
    leaves = [[[gt.num(x), [gt.num(lf) for lf in al[lv][x]]] for x in al[lv]] for lv in h]
    pairs = [[[gt.num(g[1]), gt.num(g[2])] for g in rt.leaves_to_compare(p)] for p in rt.all_parents]
    return [[gt.num(x) for x in rt.children(None, None)], table, leaves, pairs]


def first_query_difference(obs, mod, h):
    """human-readable first difference between two tree_queries() answers"""
    names = ['children(None, None)', 'node table', 'as_leaves', 'leaves_to_compare']
    if obs[0] != mod[0]:
        return f'children(None, None): code {obs[0]}, expected {mod[0]}'
    for li, (ro, rm) in enumerate(zip(obs[1], mod[1])):
        if [e[0] for e in ro] != [e[0] for e in rm]:
            return f'nodes_at_level({h[li]}): code {[e[0] for e in ro]}, expected {[e[0] for e in rm]}'
        for eo, em in zip(ro, rm):
            if eo[1] != em[1]:
                return f'children({h[li]}, n{eo[0]:03d}): code {eo[1]}, expected {em[1]}'
            if eo[2] != em[2]:
                return (f'parents({h[li]}, n{eo[0]:03d}): code {eo[2]}, expected {em[2]} '
                        '([0, [[level index in the reduced hierarchy, node] ...]] | [1, KeyError])')
    if len(obs[1]) != len(mod[1]):
        return f'number of levels: code {len(obs[1])}, expected {len(mod[1])}'
    for k in (2, 3):
        if obs[k] != mod[k]:
            return f'{names[k]}: code {obs[k]}, expected {mod[k]}'
    return None

# ------------------------------------------------------------------ generators
def dyadic(rng, lo, hi, den):
    return rng.randrange(lo, hi + 1) / den


def gen_voted_record(rng, gt, li, node):
    others = [n for n, _ in gt.model[li] if n != node]
    rng.shuffle(others)
    nr = rng.randrange(0, min(3, len(others)) + 1)
    return {'assignment': gt.name(node),
            'bootstrapping_probability': dyadic(rng, 1, 64, 64),
            'avg_correlation': dyadic(rng, -64, 64, 64),
            'aggregate_probability': dyadic(rng, 1, 4096, 4096),
            'runner_up_assignment': [gt.name(o) for o in others[:nr]],
            'runner_up_correlation': [dyadic(rng, -64, 64, 64) for _ in range(nr)],
            'runner_up_probability': [dyadic(rng, 1, 32, 64) for _ in range(nr)],
            'directly_assigned': True}


def random_path(rng, gt):
    """a root-to-leaf path of the stored tree: node per level, top first."""
    leaf = rng.choice([n for n, _ in gt.model[-1]])
    path = [leaf]
    for li in range(len(gt.model) - 1, 0, -1):
        path.append(mapcheck.parent_of(gt.model, li, path[-1]))
    path.reverse()
    return path


def rec_to_election_wire(r):
    """a voted record -> Election.sx_rec_out form (asg prob corr runners agg)."""
    runners = [[trees.GenTree.num(a), fr(p), fr(co)]
               for a, p, co in zip(r['runner_up_assignment'], r['runner_up_probability'], r['runner_up_correlation'])]
    c = r['avg_correlation']
    return [trees.GenTree.num(r['assignment']), fr(r['bootstrapping_probability']),
            [] if c is None else [fr(c)], runners, fr(r['aggregate_probability'])]


def gen_trees(ctx, rng):
    out = []
    for sh in trees.enumerate_shapes(4, ctx.n(4, 6)):
        rpl = rng.choice([0, 0, 1, 2])
        out.append(trees.one_level(sh[1], rng, rpl) if sh and sh[0] == 'flat' else trees.build(sh, rng, rpl))
    for _ in range(ctx.n(60, 1500)):
        out.append(trees.random_tree(rng, max_levels=rng.choice([3, 4, 5, 6]), max_leaves=rng.choice([8, 20, 40]),
                                     rows_per_leaf=rng.choice([0, 1])))
    return out


def modes_for(rng, n):
    """(drop index | None, flatten) configurations: none, every droppable level, flatten,
    drop+flatten, the leaf level (rejected), an absent level."""
    ms = [(None, False), (None, True), (n, False), (n + rng.randrange(0, 3), True)]
    for li in range(n - 1):
        ms.append((li, False))
    if n >= 2:
        ms.append((rng.randrange(0, n - 1), True))
    ms.append((n - 1, rng.random() < 0.3))       # the leaf level / a flat tree: RuntimeError
    return ms


# ------------------------------------------------------------------ (i) function level
def function_part(ctx):
    from cell_type_mapper.taxonomy.taxonomy_tree import TaxonomyTree
    rng = ctx.rng
    cases = []
    tree_list = gen_trees(ctx, rng)
    for gt in tree_list:
        n = len(gt.levels)
        tt = TaxonomyTree(data=gt.data)
        ms = modes_for(rng, n)
        if len(ms) > 6:
            keep = ms[:3] + rng.sample(ms[3:], 3)
        else:
            keep = ms
        for drop, flat in keep:
            drop_name = None if drop is None else (gt.levels[drop] if drop < n else f'no_such_level_{drop}')
            cases.append({'gt': gt, 'tt': tt, 'drop': drop, 'flat': flat, 'drop_name': drop_name, 'kind': 'cfg'})
        # arbitrary presence patterns (not what the election produces): the loop structure itself
        for _ in range(2):
            present = [k for k in range(n) if rng.random() < 0.55]
            cases.append({'gt': gt, 'tt': tt, 'kind': 'pattern', 'present': present,
                          'bad': rng.random() < 0.25})
    # ---- reduce: real vs model
    red = ctx.model([(1702, [c['gt'].model, [] if c['drop'] is None else [c['drop']], c['flat']])
                     for c in cases if c['kind'] == 'cfg'])
    it = iter(red)
    back_cases, back_idx = [], []
    for ci, c in enumerate(cases):
        gt = c['gt']
        n = len(gt.levels)
        desc = {'kind': 'function-level', 'tree': gt.data}
        if c['kind'] == 'cfg':
            m = next(it)
            desc.update({'drop': c['drop'], 'drop_name': c['drop_name'], 'flatten': c['flat']})
            st, rt = real_reduce(c['tt'], c['drop_name'], c['flat'])
            c['desc'] = desc
            ctx.dist('fn_mode', ('none' if c['drop'] is None else 'drop' if c['drop'] < n - 1 else
                                 'drop-leaf(rejected)' if c['drop'] == n - 1 else 'absent')
                     + ('+flatten' if c['flat'] else ''))
            if st == 'err':
                ctx.count(('fn-reduce-err', gt.shape_key(), c['drop'], c['flat']), nontrivial=False)
                if m != [1, rt]:
                    desc['class'] = 'corr:RunMapping.reduce'
                    desc['model'], desc['impl'] = m, ['err', rt]
                    ctx.violation('reduce: the code rejects the configuration, the model does not agree', desc, no_input=True)
                c['skip'] = True
                continue
            voted_names = rt.hierarchy
            obs = [canon_tree(rt, gt), [gt.levels.index(x) for x in voted_names]]
            if m[0] != 0 or m[1] != obs:
                ctx.count(('fn-reduce', gt.shape_key(), c['drop'], c['flat']), nontrivial=False)
                desc['class'] = 'corr:RunMapping.reduce'
                desc['model'], desc['impl'] = m, obs
                ctx.disagreements_checked += 1
                ctx.violation('reduce: reduced tree / level map differ between code and model', desc, no_input=True)
                c['skip'] = True
                continue
            c['voted'] = obs[1]
            # records as the election produces them: a path of the stored tree, voted levels only
            assignments = []
            for i in range(rng.randrange(1, 4)):
                path = random_path(rng, gt)
                cell = {'cell_id': f'c{i}'}
                for k in c['voted']:
                    cell[gt.levels[k]] = gen_voted_record(rng, gt, k, path[k])
                assignments.append(cell)
        else:
            assignments = []
            for i in range(rng.randrange(1, 3)):
                path = random_path(rng, gt)
                cell = {'cell_id': f'c{i}'}
                order = list(c['present'])
                rng.shuffle(order)
                for k in order:
                    cell[gt.levels[k]] = gen_voted_record(rng, gt, k, path[k])
                assignments.append(cell)
            if c['bad'] and c['present']:
                # an assignment that is not a node of the stored tree: KeyError if a parent is asked for
                k = rng.choice(c['present'])
                assignments[0][gt.levels[k]]['assignment'] = gt.name(997)
            desc.update({'present': c['present'], 'bad': c['bad']})
            c['desc'] = desc
            ctx.dist('fn_mode', 'pattern' + ('+bad-node' if c['bad'] else ''))
        c['input'] = copy.deepcopy(assignments)
        desc['assignments'] = c['input']
        cin = [canon_cell(gt.levels, cell) for cell in assignments]
        c['obs'] = real_backfill(c['tt'], assignments)
        back_cases.append((1701, [gt.model, cin]))
        back_idx.append(ci)
    bres = dict(zip(back_idx, ctx.model(back_cases)))
    # ---- reduce + place + backfill from the election's records, and the predicate
    pb_cases, pb_idx, sp_cases, sp_idx = [], [], [], []
    for ci, c in enumerate(cases):
        if ci not in bres:
            continue
        gt = c['gt']
        if c['kind'] == 'cfg':
            rows = [[rec_to_election_wire(cell[gt.levels[k]]) for k in c['voted']] for cell in c['input']]
            pb_cases.append((1703, [gt.model, [] if c['drop'] is None else [c['drop']], c['flat'], rows]))
            pb_idx.append(ci)
            if c['obs'][0] == 'ok':
                oc = [canon_cell(gt.levels, cell) for cell in c['obs'][1]]
                if all(x is not None for x in oc):
                    sp_cases.append((1704, [gt.model, c['voted'], len(oc), oc]))
                    sp_idx.append(ci)
    pres = dict(zip(pb_idx, ctx.model(pb_cases)))
    sres = dict(zip(sp_idx, ctx.model(sp_cases)))
    for ci, c in enumerate(cases):
        if ci not in bres:
            continue
        gt, desc = c['gt'], c['desc']
        n = len(gt.levels)
        m = bres[ci]
        if c['kind'] == 'cfg':
            key = ('fn', gt.shape_key(), c['drop'], c['flat'], json.dumps(c['input'], sort_keys=True))
            nontrivial = n >= 2 and len(c['voted']) < n
        else:
            key = ('fn-pattern', gt.shape_key(), tuple(c['present']), c['bad'])
            nontrivial = False
        ctx.count(key, nontrivial=nontrivial)
        if nontrivial:
            ctx.sample({'tree': gt.data, 'drop': c['drop_name'], 'flatten': c['flat'], 'n_cells': len(c['input'])}, limit=3)
        if c['obs'][0] == 'err':
            ctx.dist('fn_outcome', 'KeyError')
            if m != [1, c['obs'][1]]:
                ctx.disagreements_checked += 1
                desc['class'] = 'corr:RunMapping.backfill'
                desc['model'], desc['impl'] = m, list(c['obs'])
                ctx.violation('backfill: the code raised KeyError, the model did not', desc, no_input=True)
            if c['kind'] == 'cfg':
                # records consistent with the reduced tree must always be completed
                desc['class'] = 'c17-backfill-raises'
                ctx.violation('backfill_assignments raised on records the election can produce', desc)
            continue
        ctx.dist('fn_outcome', 'ok')
        oc = [canon_cell(gt.levels, cell) for cell in c['obs'][1]]
        if any(x is None for x in oc):
            ctx.disagreements_checked += 1
            desc['class'] = 'c17-record-keys'
            desc['impl'] = c['obs'][1]
            ctx.violation('a completed record has keys other than those of the voted record minus runner_up_* '
                          '(or a partial runner_up_* set)', desc)
            continue
        # (b) the property's predicate on the real output first, then (a) the correspondences
        if c['kind'] == 'cfg' and sres.get(ci) != [0, 1]:
            ctx.disagreements_checked += 1
            desc['class'] = 'c17-spec'
            desc['impl'] = oc
            ctx.violation('spec_c17 fails on the real backfill_assignments output: not a complete path of the stored '
                          'tree with inferred levels = parent of the finer level, flagged, numbers copied, no runner-ups',
                          desc)
            continue
        if m[0] != 0 or red_fracs(m[1]) != oc:
            ctx.disagreements_checked += 1
            desc['class'] = 'corr:RunMapping.backfill'
            desc['model'], desc['impl'] = m, oc
            ctx.violation('backfill_assignments and its model disagree (assignments / flags / copied fields / '
                          'runner-up keys / key order)', desc, no_input=True)
            continue
        if c['kind'] != 'cfg':
            continue
        p = pres[ci]
        if p[0] != 0 or red_fracs(p[1]) != oc:
            ctx.disagreements_checked += 1
            desc['class'] = 'corr:RunMapping.place_backfill'
            desc['model'], desc['impl'] = p, oc
            ctx.violation('reduce+place+backfill of the model differs from the real backfill of the same records',
                          desc, no_input=True)
    reduced_query_part(ctx, tree_list)


# ------------------------------------------------------------------ (i') the reduced tree as a tree
def reduced_query_part(ctx, tree_list):
    """For every generated tree and EVERY reduction _run_mapping can make of it (each droppable level,
    flatten, a drop followed by flatten): the really reduced TaxonomyTree must ANSWER like the taxonomy
    that never had the level - nodes_at_level, children and parents of every node, as_leaves,
    leaves_to_compare of every parent - compared with (1) the queries of Model/Tree.v on
    RunMapping.reduce t cfg (tag 1706) and (2) a TaxonomyTree constructed from the reduced data alone."""
    from cell_type_mapper.taxonomy.taxonomy_tree import TaxonomyTree
    rng = ctx.rng
    cases = []
    for gt in tree_list:
        n = len(gt.levels)
        if n < 2:
            continue
        tt = TaxonomyTree(data=gt.data)
        cfgs = [(li, False) for li in range(n - 1)] + [(None, True), (rng.randrange(0, n - 1), True)]
        for drop, flat in cfgs:
            st, rt = real_reduce(tt, None if drop is None else gt.levels[drop], flat)
            if st != 'ok':
                continue                     # rejected configurations are compared in function_part
            cases.append({'gt': gt, 'drop': drop, 'flat': flat, 'rt_hier': list(rt.hierarchy),
                          'voted': [gt.levels.index(x) for x in rt.hierarchy],
                          'queries': tree_queries(rt, gt),
                          'queries_fresh': tree_queries(TaxonomyTree(data=json.loads(rt.to_str())), gt)})
    qres = ctx.model([(1706, [c['gt'].model, [] if c['drop'] is None else [c['drop']], c['flat']]) for c in cases])
    for c, m in zip(cases, qres):
        gt = c['gt']
        n = len(gt.levels)
        kind = ('flatten' if c['drop'] is None else 'drop+flatten') if c['flat'] else \
            ('top' if c['drop'] == 0 else 'middle, child level is the leaf level' if c['drop'] == n - 2 else
             'middle, child level is a parent level')
        # non-trivial: the reduced tree still has a parent level whose parents() must skip the removed level
        ctx.count(('fn-queries', gt.shape_key(), json.dumps(gt.model), c['drop'], c['flat']),
                  nontrivial=(not c['flat']) and c['drop'] not in (None, 0))
        ctx.dist('reduced_tree_queries', f'{n} levels, {kind}')
        if m[0] != 0 or m[1][0] != c['voted']:
            diff = f'the model\'s reduction differs: {m[:1]}'
        else:
            diff = first_query_difference(c['queries'], m[1][1:], c['rt_hier'])
            if diff is not None:
                diff = 'vs the model\'s reduced tree: ' + diff
        if diff is None:
            d2 = first_query_difference(c['queries'], c['queries_fresh'], c['rt_hier'])
            if d2 is not None:
                diff = 'vs a TaxonomyTree built from the reduced data alone: ' + d2
        if diff is not None:
            ctx.disagreements_checked += 1
            desc = {'kind': 'reduced-tree-queries', 'class': 'c17-reduced-tree-query-differs', 'tree': gt.data,
                    'drop': c['drop'], 'drop_name': None if c['drop'] is None else gt.levels[c['drop']],
                    'flatten': c['flat'], 'reduced_hierarchy': c['rt_hier'],
                    'impl_queries': c['queries'], 'model_queries': m}
            ctx.violation('the reduced taxonomy the mapper uses (real drop_level / flatten) does not answer like the taxonomy '
                          f'that never had that level: {diff}', desc)

# ------------------------------------------------------------------ (ii) election level
def election_part(ctx):
    from cell_type_mapper.taxonomy.taxonomy_tree import TaxonomyTree
    rng = ctx.rng
    recs = []
    pool = gen_trees(ctx, rng)
    rng.shuffle(pool)
    for gt in pool[:ctx.n(150, 3000)]:
        n = len(gt.levels)
        if n < 2:
            continue
        ms = [(li, False) for li in range(n - 1)] + [(None, True)]
        if rng.random() < 0.2:
            ms.append((rng.randrange(0, n - 1), True))
        drop, flat = rng.choice(ms)
        tt = TaxonomyTree(data=gt.data)
        st, rt = real_reduce(tt, None if drop is None else gt.levels[drop], flat)
        if st != 'ok':
            continue
        rgt = trees.GenTree(rt.hierarchy, json.loads(rt.to_str()), canon_tree(rt, gt))
        cell_ids = rng.sample(range(100), rng.randrange(1, 6))
        table = routing.gen_choices(rng, rgt, cell_ids)
        desc = {'kind': 'election-level', 'tree': gt.data, 'drop': drop, 'flatten': flat, 'cell_ids': cell_ids,
                'choices': [[str(kk), str(v)] for kk, v in table.items()]}
        try:
            res, ncalls = routing.run_impl(rgt, cell_ids, table)
            # election_runner.run_type_assignment_on_h5ad, lines 106-108
            for cell in res:
                for level in rt.hierarchy:
                    cell[level]['directly_assigned'] = True
            st2, out = real_backfill(tt, res)
            obs = ('ok', [canon_cell(gt.levels, cell) for cell in out], ncalls) if st2 == 'ok' else ('err', 'KeyError', None)
        except Exception as e:
            obs = ('err', f'{type(e).__name__}: {e}'[:300], None)
        mcase = routing.model_case(rgt, cell_ids, table)[1]
        recs.append((gt, drop, flat, rt, cell_ids, desc, obs,
                     (1705, [gt.model, [] if drop is None else [drop], flat, list(cell_ids), mcase[2]])))
    mres = ctx.model([r[-1] for r in recs])
    spec_cases, spec_idx = [], []
    for k, (gt, drop, flat, rt, cell_ids, desc, obs, _) in enumerate(recs):
        if obs[0] == 'ok' and all(x is not None for x in obs[1]):
            spec_cases.append((1704, [gt.model, [gt.levels.index(x) for x in rt.hierarchy], len(cell_ids), obs[1]]))
            spec_idx.append(k)
    sres = dict(zip(spec_idx, ctx.model(spec_cases)))
    for k, ((gt, drop, flat, rt, cell_ids, desc, obs, _), m) in enumerate(zip(recs, mres)):
        nontrivial = any(len(c) >= 2 for lv in gt.model[:-1] for _, c in lv)
        ctx.count(('el', gt.shape_key(), drop, flat, tuple(cell_ids)), nontrivial=nontrivial)
        ctx.dist('el_mode', ('drop' if drop is not None else '') + ('flatten' if flat else ''))
        if obs[0] == 'err':
            ctx.disagreements_checked += 1
            desc['class'] = 'c17-election-raises'
            desc['impl'] = obs[1]
            ctx.violation(f'election on the reduced tree + backfill raised {obs[1]}', desc)
            continue
        if any(x is None for x in obs[1]):
            desc['class'] = 'c17-record-keys'
            ctx.violation('a completed record has an unexpected key set', desc)
            continue
        if sres.get(k) != [0, 1]:
            ctx.disagreements_checked += 1
            desc['class'] = 'c17-spec'
            desc['impl'] = obs[1]
            ctx.violation('spec_c17 fails on election(reduced tree) + backfill(stored tree)', desc)
            continue
        if m[0] != 0 or red_fracs(m[1][0]) != obs[1] or m[1][1] != obs[2]:
            ctx.disagreements_checked += 1
            desc['class'] = 'corr:RunMapping.run_mapping_model'
            desc['model'], desc['impl'] = m if len(json.dumps(m)) < 4000 else 'omitted', obs[1]
            ctx.violation('run_mapping_model (table-driven decide) and the real election+backfill disagree',
                          desc, no_input=True)


# ------------------------------------------------------------------ (iii) pipeline level
def out_cells(gt, res, cell_ids):
    """results of a real run -> canonical cells, levels sorted (the JSON writer is not the subject)."""
    by = paired.by_cell(res)
    return [canon_cell(gt.levels, by[cid], ordered=False) for cid in cell_ids]


def sparse_parents(sc, li, min_markers):
    """parents of level li+1 with >= 2 children whose marker list has fewer than min_markers genes in the query"""
    gt = sc.tree
    usable = set(sc.query_genes)
    out = []
    for node, kids in gt.model[li + 1]:
        if len(kids) >= 2:
            have = len(usable.intersection(sc.markers.get(f'{gt.levels[li + 1]}/{gt.name(node)}', [])))
            if have < min_markers:
                out.append(node)
    return out


def gen_sparse_scenario(rng):
    """A taxonomy of 4-5 levels, a MIDDLE level li whose child level li+1 is itself a parent level, and a
    marker table in which parents of level li+1 have fewer genes in the query than min_markers, so that
    validate_marker_lookup must borrow from the ancestors of that parent IN THE REDUCED TREE (the node of
    level li-1, never the removed node of level li); the ancestors carry marker lists of their own that
    differ from the root's, and the query cells are noisy copies of leaves below the sparse parents.
    Returns (scenario, li, min_markers)."""
    n_levels = rng.choice([4, 4, 5])
    li = rng.randrange(1, n_levels - 2)
    caps = [12, 7, 5, 4, 3]                   # widest allowed level, counted from the leaf level upward
    for _ in range(50):
        lc = []
        width = rng.choice([1, 2, 2])
        for lev in range(n_levels - 1):
            row = [rng.choice([2, 2, 3, 1]) if lev == li + 1 else rng.choice([1, 2, 2]) if lev in (li - 1, li)
                   else rng.choice([1, 1, 2]) for _ in range(width)]
            if lev == li + 1:
                row[rng.randrange(len(row))] = rng.choice([2, 3])
            while sum(row) > caps[n_levels - 2 - lev] and any(r > 1 for r in row):
                big = [i for i, r in enumerate(row) if r > 1]
                row[rng.choice(big)] -= 1
            lc.append(row)
            width = sum(row)
        if any(r >= 2 for r in lc[li + 1]):
            break
    sc = pipeline.Scenario()
    sc.tree = gt = trees.build(lc, rng, 0)
    n_ref = rng.randrange(22, 34)
    ref = list(range(n_ref))
    rng.shuffle(ref)
    sc.ref_genes = ref
    q = [g for g in ref if rng.random() < 0.8]
    missing = [g for g in ref if g not in q]
    q += list(range(100, 100 + rng.randrange(0, 4)))
    rng.shuffle(q)
    sc.query_genes = q
    usable = [g for g in ref if g in q]
    leaves = [n for n, _ in gt.model[-1]]
    sc.means = {lf: {g: rng.randrange(0, 97) / 8.0 for g in ref} for lf in leaves}
    min_markers = rng.choice([2, 3, 5])
    markers = {'None': rng.sample(usable, rng.randrange(3, 8))}
    not_root = [g for g in usable if g not in markers['None']]
    for lev, lvl in enumerate(gt.model[:-1]):
        for node, kids in lvl:
            key = f'{gt.levels[lev]}/{gt.name(node)}'
            if lev == li + 1 and len(kids) >= 2 and rng.random() < 0.85:
                # the sparse parent: 0 .. min_markers-1 genes of the query (+ genes the query lacks)
                u = rng.randrange(0, min_markers)
                lst = rng.sample(usable, u)
                if u > 0 and missing:
                    lst += rng.sample(missing, rng.randrange(0, min(2, len(missing)) + 1))
                    rng.shuffle(lst)
                if u == 0 and rng.random() < 0.5:
                    continue                       # not listed at all
                markers[key] = lst
            elif lev <= li:
                # ancestors (and the level that will be removed): lists of their own, mostly not the root's,
                # long enough to satisfy min_markers; single-child parents get genes of the query only
                pool = not_root if len(not_root) >= 6 and rng.random() < 0.8 else usable
                k = rng.randrange(min(min_markers, len(pool)), min(len(pool), min_markers + 4) + 1)
                if rng.random() < 0.15:
                    k = rng.randrange(1, 3)        # an ancestor that is sparse itself: the borrowing goes further up
                markers[key] = rng.sample(pool, k)
            elif len(kids) >= 2:
                lst = rng.sample(ref, rng.randrange(2, 8))
                if not any(g in usable for g in lst):
                    lst[0] = rng.choice(usable)
                markers[key] = lst
            elif rng.random() < 0.3:
                markers[key] = rng.sample(usable, 2)
    sc.markers = markers
    # cells: noisy copies of leaves, mostly below the sparse parents
    sparse = sparse_parents(sc, li, min_markers)
    below = []
    for node, kids in gt.model[li + 1]:
        if node in sparse:
            below += paired._leaves_under(gt.model, li + 1, node)
    n_cells = rng.randrange(4, 9)
    sc.cell_ids = [f'c{x:03d}' for x in rng.sample(range(200), n_cells)]
    rows = []
    for _ in range(n_cells):
        lf = rng.choice(below) if below and rng.random() < 0.75 else rng.choice(leaves)
        rows.append([max(0.0, sc.means[lf][g] + rng.randrange(-12, 13) / 8.0) if g in sc.means[lf]
                     else rng.randrange(0, 97) / 8.0 for g in q])
    sc.query = np.array(rows, dtype=np.float64)
    sc.normalization = 'log2CPM'
    return sc, li, min_markers


def pipeline_part(ctx):
    rng = ctx.rng
    n = ctx.n(14, 200)
    for k in range(n):
        sc = pipeline.gen_scenario(rng, max_levels=5, max_leaves=8, n_cells=rng.randrange(2, 8))
        gt = sc.tree
        var = paired.base_var(rng, sc, factor=rng.choice([0.5, 0.75, 1.0]))
        modes = []
        for lv in gt.levels[:-1]:
            if len(gt.levels) > 1:
                modes.append(('drop', lv))
        modes.append(('flatten', None))
        modes.append(('absent', mapcheck.absent_level_name(rng, gt.levels)))
        modes.append(('absent-flatten', mapcheck.absent_level_name(rng, gt.levels)))
        rng.shuffle(modes)
        paired_modes(ctx, k, sc, var, modes[:ctx.n(3, 6)])
        if k < 2:
            ctx.sample({'tree': gt.data, 'markers': sc.markers, 'config': var, 'modes': [list(m) for m in modes[:3]]})
    # 4-5 levels, a dropped MIDDLE level above a parent level, parents below it short of markers
    for k in range(ctx.n(9, 150)):
        sc, li, min_markers = gen_sparse_scenario(rng)
        gt = sc.tree
        var = paired.base_var(rng, sc, factor=rng.choice([0.5, 0.75, 1.0]))
        var['min_markers'] = min_markers
        modes = [('drop', gt.levels[li])]
        if rng.random() < 0.35:
            modes.append(rng.choice([('drop', gt.levels[li + 1]), ('drop', gt.levels[0]), ('flatten', None)]))
        sparse = sparse_parents(sc, li, min_markers)
        ctx.dist('sparse_scenarios', f'{len(gt.levels)} levels, drop level {li}, min_markers {min_markers}, '
                                     f'{"some" if sparse else "no"} parent of level {li + 1} short of markers')
        paired_modes(ctx, f's{k}', sc, var, modes, sparse=(li, sparse))
        if k < 2:
            ctx.sample({'tree': gt.data, 'markers': sc.markers, 'config': var, 'dropped_middle_level': gt.levels[li],
                        'parents_short_of_markers': [gt.name(x) for x in sparse]}, limit=8)


def removed_entry_unknown_gene_part(ctx):
    """Audit 3, A7: an entry of the REMOVED level holding a gene unknown to the reference.  validate_marker_lookup /
    assemble_query_data never consult that entry, but create_marker_cache_from_specified_markers refuses the file
    (its reference-membership check runs over every key).  The PROPERTY compares two runs that are given the SAME
    marker file: (A) drop_level on the stored taxonomy, (B) no drop on a statistics file whose taxonomy never had the
    level.  Required: A and B behave alike (both raise the not-in-reference error); and with the removed level's
    entries deleted from the file, (C) = B's taxonomy and (D) = A's configuration both succeed and agree bitwise at the
    shared levels.  A difference between A and B (or C and D) would be a violation of C17."""
    rng = ctx.rng
    done = 0
    for k in range(ctx.n(40, 400)):
        if done >= ctx.n(3, 20):
            break
        sc = pipeline.gen_scenario(rng, max_levels=4, max_leaves=8, n_cells=rng.randrange(2, 6))
        gt = sc.tree
        if len(gt.levels) < 3:
            continue
        li = rng.randrange(0, len(gt.levels) - 1)
        lv = gt.levels[li]
        nodes_lv = [n for n, _ in gt.model[li]]
        node = rng.choice(nodes_lv)
        key = f'{lv}/{gt.name(node)}'
        m = ctx.model([(1004, [gt.model, li])])[0]
        if m[0] != 0:
            continue
        done += 1
        var = paired.base_var(rng, sc, factor=rng.choice([0.5, 1.0]))
        mk = {k2: list(v) for k2, v in sc.markers.items()}
        mk[key] = list(mk.get(key, [])) + [777]          # g777: neither in the reference nor in the query
        mk_f = {k2: v for k2, v in mk.items() if not k2.startswith(lv + '/')}
        rlevels = [x for x in gt.levels if x != lv]
        rdata = model_to_data(rlevels, m[1], gt)
        va = dict(var); va['drop_level'] = lv
        ra = paired.run_once(ctx, sc, f'ua{k}', markers=mk, **va)
        rb = paired.run_once(ctx, sc, f'ub{k}', markers=mk, tree_data=rdata, **var)
        rc = paired.run_once(ctx, sc, f'uc{k}', markers=mk_f, tree_data=rdata, **var)
        rd = paired.run_once(ctx, sc, f'ud{k}', markers=mk_f, **va)
        ctx.count(('c17-removed-entry-unknown-gene', k, lv), nontrivial=True)
        not_in_ref = lambda r: (not r['ok']) and 'not in the reference dataset' in str(r['error'])     # noqa
        ctx.dist('removed_entry_unknown_gene',
                 f'same file: drop {"raises" if not ra["ok"] else "ok"} / never-had-level {"raises" if not rb["ok"] else "ok"}; '
                 f'entries deleted: drop {"ok" if rd["ok"] else "raises"} / never-had-level {"ok" if rc["ok"] else "raises"}')
        dd = {'kind': 'paired-run', 'mode': 'removed-entry-unknown-gene', 'level': lv, 'key': key, 'tree': gt.data,
              'markers': mk, 'cell_ids': sc.cell_ids, 'query': sc.query.tolist(), 'query_genes': sc.query_genes,
              'ref_genes': sc.ref_genes, 'means': {str(a): b for a, b in sc.means.items()}, 'config': var,
              'errors': [str(r['error'])[:200] for r in (ra, rb, rc, rd)]}
        if ra['ok'] != rb['ok'] or (not ra['ok'] and not_in_ref(ra) != not_in_ref(rb)):
            dd['class'] = 'c17-removed-entry-unknown-gene-runs-differ'
            ctx.violation(f'a gene unknown to the reference under the removed level {lv}: the dropping run and the run on the '
                          f'reduced reference, given the SAME marker file, do not behave alike: {dd["errors"][:2]}', dd)
            continue
        if ra['ok']:
            dd['class'] = 'corr:Markers.create_cache'
            ctx.violation('the marker cache accepted a gene unknown to the reference (model: E_NOT_IN_REF)', dd, no_input=True)
            continue
        if rc['ok'] != rd['ok']:
            dd['class'] = 'c17-removed-entry-unknown-gene-runs-differ'
            ctx.violation(f'with the entries of the removed level {lv} deleted, the two runs do not behave alike: {dd["errors"][2:]}', dd)
            continue
        if rc['ok']:
            a, b = paired.by_cell(rd), paired.by_cell(rc)
            for cid in sc.cell_ids:
                diff = paired.compare_records(a[cid], b[cid], rlevels, bitwise=True)
                if diff:
                    dd['class'] = 'c17-drop'
                    ctx.violation(f'drop {lv} (file without the removed level\'s entries): cell {cid}: {diff}', dd)
                    break


def borrowed_from_ancestor(ra, gt, li, sparse):
    """did run A's marker reconciliation patch a sparse parent of level li+1 with the list of a proper
    ancestor (not only the root's), and was a cell routed through such a parent?  (from the log and results)"""
    log = ra['output'].get('log') or []
    text = '\n'.join(str(x) for x in log) if isinstance(log, list) else str(log)
    patched = []
    for node in sparse:
        key = f"'{gt.levels[li + 1]}/{gt.name(node)}' had too few markers"
        for line in text.split('\n'):
            if key in line and 'augmenting with markers from' in line:
                src = line.split('augmenting with markers from', 1)[1]
                if any(f"'{gt.levels[a]}/" in src for a in range(li)):
                    patched.append(node)
    routed = [x for x in patched
              if any(r.get(gt.levels[li + 1], {}).get('assignment') == gt.name(x) for r in ra['output']['results'])]
    return patched, routed


def paired_modes(ctx, k, sc, var, modes, sparse=None):
    rng = ctx.rng
    gt = sc.tree
    desc = {'kind': 'paired-run', 'tree': gt.data, 'markers': sc.markers, 'cell_ids': sc.cell_ids,
            'query': sc.query.tolist(), 'query_genes': sc.query_genes, 'ref_genes': sc.ref_genes,
            'means': {str(a): b for a, b in sc.means.items()}, 'config': var}
    for mode, lv in modes:
        ctx.count(('c17', k, mode, lv), nontrivial=len(gt.levels) >= 2)
        ctx.dist('mode', mode)
        ctx.dist('levels', len(gt.levels))
        dd = dict(desc)
        dd.update({'mode': mode, 'level': lv})
        # 'all bootstrap settings': in 40 % of the pairs the factor is given per level, as an explicit
        # bootstrap_factor_lookup that lists the levels of the taxonomy the election runs on (and the root)
        def with_lookup(v, levels_used):
            v = dict(v)
            if use_lookup:
                v['bootstrap_factor_lookup'] = [['None', per_level['None']]] + [[x, per_level[x]] for x in levels_used[:-1]]
                v['bootstrap_factor'] = None
            return v
        use_lookup = rng.random() < 0.4
        per_level = {x: rng.choice([0.5, 0.75, 1.0]) for x in list(gt.levels) + ['None']}
        ctx.dist('bootstrap_setting', 'per-level lookup' if use_lookup else 'scalar factor')
        dd['bootstrap_factor_per_level'] = per_level if use_lookup else None
        var_all = with_lookup(var, gt.levels)
        if mode == 'drop':
            li = gt.levels.index(lv)
            m = ctx.model([(1004, [gt.model, li])])[0]
            va = with_lookup(var, [x for x in gt.levels if x != lv]); va['drop_level'] = lv
            ra = paired.run_once(ctx, sc, f'a{k}_{li}', **va)
            if m[0] != 0:
                if ra['ok']:
                    dd['class'] = 'corr:Tree.drop_level'
                    ctx.violation(f'model rejects dropping {lv} ({m}) but the run succeeded', dd, no_input=True)
                continue
            rlevels = [x for x in gt.levels if x != lv]
            rdata = model_to_data(rlevels, m[1], gt)
            rb = paired.run_once(ctx, sc, f'b{k}_{li}', tree_data=rdata, **with_lookup(var, rlevels))
            shared = rlevels
            mcfg = ([li], False)
        elif mode == 'flatten':
            va = with_lookup(var, gt.levels[-1:]); va['flatten'] = True
            ra = paired.run_once(ctx, sc, f'a{k}_f', **va)
            rdata = model_to_data([gt.levels[-1]], [gt.model[-1]], gt)
            union = sorted(set(g for v in sc.markers.values() for g in v), key=lambda g: pipeline.gname(g))
            rb = paired.run_once(ctx, sc, f'b{k}_f', tree_data=rdata, markers={'None': union}, **with_lookup(var, gt.levels[-1:]))
            shared = [gt.levels[-1]]
            mcfg = ([], True)
        elif mode == 'absent-flatten':
            # an absent drop_level changes nothing under flatten either
            va = with_lookup(var, gt.levels[-1:]); va['flatten'] = True; va['drop_level'] = lv
            vb = with_lookup(var, gt.levels[-1:]); vb['flatten'] = True
            ra = paired.run_once(ctx, sc, f'a{k}_xf', **va)
            rb = paired.run_once(ctx, sc, f'b{k}_xf', **vb)
            shared = [gt.levels[-1]]
            mcfg = ([len(gt.levels)], True)
        else:
            va = dict(var_all); va['drop_level'] = lv
            ra = paired.run_once(ctx, sc, f'a{k}_x', **va)
            rb = paired.run_once(ctx, sc, f'b{k}_x', **var_all)
            shared = gt.levels
            mcfg = ([len(gt.levels)], False)          # an index that is not a level
        if not ra['ok'] or not rb['ok']:
            dd['class'] = 'c17-run-raises'
            dd['error'] = [ra['error'], rb['error']]
            ctx.violation(f'{mode} {lv}: a run raised: {dd["error"]}', dd)
            continue
        a, b = paired.by_cell(ra), paired.by_cell(rb)
        if sparse is not None and mode == 'drop' and gt.levels.index(lv) == sparse[0]:
            patched, routed = borrowed_from_ancestor(ra, gt, sparse[0], sparse[1])
            ctx.dist('sparse_parent_fallback', 'borrowed from a proper ancestor, a cell routed through it' if routed else
                     'borrowed from a proper ancestor, no cell routed through it' if patched else
                     'no borrowing from a proper ancestor')
            ctx.count(('c17-sparse', k, lv), nontrivial=bool(routed))
        bad = None
        for cid in sc.cell_ids:
            diff = paired.compare_records(a[cid], b[cid], gt.levels if mode == 'absent-flatten' else shared, bitwise=True)
            if diff:
                bad = f'cell {cid}: {diff}'
                # the marker lists the two runs ended up using (diagnostic only)
                ma, mb = ra['output'].get('marker_genes') or {}, rb['output'].get('marker_genes') or {}
                md = [f'{key}: {sorted(ma.get(key, []))} instead of {sorted(mb[key])}' for key in mb
                      if sorted(ma.get(key, [])) != sorted(mb[key])]
                if md:
                    bad += ' (markers used differ at ' + '; '.join(md[:3]) + ')'
                break
            if mode == 'drop':
                li = gt.levels.index(lv)
                finer = trees.GenTree.num(a[cid][gt.levels[li + 1]]['assignment'])
                par = mapcheck.parent_of(gt.model, li + 1, finer)
                rec = a[cid].get(lv)
                if rec is None or trees.GenTree.num(rec['assignment']) != par or rec.get('directly_assigned') is not False:
                    bad = f'cell {cid}: dropped level {lv} holds {rec}, expected the parent {par} of {finer}, inferred'
                    break
            if mode == 'flatten':
                # every coarser level is the leaf's ancestor
                cur = trees.GenTree.num(a[cid][gt.levels[-1]]['assignment'])
                for li in range(len(gt.levels) - 1, 0, -1):
                    par = mapcheck.parent_of(gt.model, li, cur)
                    rec = a[cid].get(gt.levels[li - 1])
                    if rec is None or trees.GenTree.num(rec['assignment']) != par or rec.get('directly_assigned') is not False:
                        bad = f'cell {cid}: level {gt.levels[li - 1]} holds {rec}, expected ancestor {par}'
                        break
                    cur = par
                if bad:
                    break
        if bad:
            ctx.disagreements_checked += 1
            dd['class'] = f'c17-{mode}'
            ctx.violation(f'{mode} {lv}: {bad}', dd)
            continue
        # run A's complete output = the model's reduce/place/backfill of run B's records,
        # and the property's predicate on run A
        oa = out_cells(gt, ra, sc.cell_ids)
        if any(x is None for x in oa):
            dd['class'] = 'c17-record-keys'
            ctx.violation(f'{mode} {lv}: a record of the output has an unexpected key set', dd)
            continue
        rows = [[rec_to_election_wire(b[cid][x]) for x in shared] for cid in sc.cell_ids]
        voted = [gt.levels.index(x) for x in shared]
        mm, sp = ctx.model([(1703, [gt.model, mcfg[0], mcfg[1], rows]),
                            (1704, [gt.model, voted, len(sc.cell_ids), oa])])
        if sp != [0, 1]:
            ctx.disagreements_checked += 1
            dd['class'] = 'c17-spec'
            ctx.violation(f'{mode} {lv}: spec_c17 fails on the output of the real run', dd)
        elif mm[0] != 0 or [sorted(c, key=lambda e: e[0]) for c in red_fracs(mm[1])] != oa:
            ctx.disagreements_checked += 1
            dd['class'] = 'corr:RunMapping.place_backfill'
            dd['model'], dd['impl'] = mm, oa
            ctx.violation(f'{mode} {lv}: the model\'s completion of run B\'s records is not run A\'s output',
                          dd, no_input=True)


def run(ctx):
    ctx.rule = ('(i) real drop_level/flatten under the guard of _run_mapping and real backfill_assignments on every tree '
                'shape with <=4 levels and <=4 (quick) / <=6 (thorough) leaves plus random larger trees x {no reduction, '
                'every droppable level, flatten, drop+flatten, leaf level, absent level} x random paths with dyadic numbers, '
                'vs reduce/backfill/place of Model/RunMapping.v and spec_c17 on the real output; also arbitrary '
                'presence patterns and foreign node names (KeyError); non-trivial = >=2 levels and >=1 level inferred, '
                'distinct by (shape, configuration, records). (i\') every reduction (each droppable level, flatten, '
                'drop+flatten) of every one of those trees: nodes_at_level / children / parents of EVERY node, as_leaves and '
                'leaves_to_compare of every parent of the real reduced TaxonomyTree vs Tree.v queries on RunMapping.reduce (tag '
                '1706) and vs a TaxonomyTree built from the reduced data alone; non-trivial = a level other than the top one '
                'was dropped (parents() must skip it). (ii) real election with a table-driven oracle on the really '
                'reduced tree + real backfill vs run_mapping_model; non-trivial = some parent with >=2 children. '
                '(iii) paired real run_mapping runs with a common seed: drop_level=L vs a statistics file whose taxonomy is '
                "the model's drop_level t L (tag 1004); flatten vs a one-level taxonomy with the sorted union of all marker "
                'lists; a level absent from the taxonomy vs no drop; compared bitwise at the shared levels, dropped level = '
                'parent of the finer assignment, flagged inferred; run B pushed through the model must give run A; '
                'non-trivial = a pair on a tree with >= 2 levels; plus scenarios with 4-5 levels, a dropped middle level whose '
                'child level is a parent level, parents of that child level with fewer query genes than min_markers in {2,3,5} '
                'and ancestors with marker lists of their own (non-trivial = the log shows the borrowing from a proper '
                'ancestor and a cell is routed through that parent). '
                '(iv) marker-table keys: real validate_marker_lookup on the really dropped tree with a table holding entries at '
                'every level incl. the removed one (generator of C08) vs reduce + RunMappingKeys.rekey + '
                'Markers.validate_marker_lookup (tag 1707), and the same real call without the entries of the removed level '
                '(same outcome, same entries at the parents of the reduced tree); non-trivial = >= 3 levels and the removed '
                'level has entries. (v) a gene unknown to the reference under a key of the removed level: the dropping run and the '
                'run on the reduced reference with the SAME file both raise the not-in-reference error; with the removed '
                'level\'s entries deleted both succeed and agree bitwise')
    ctx.assumptions += [
        'the property compares two runs that are given the SAME marker file (the dropping run, and the run on a reference '
        'whose taxonomy never had the level): an entry of the removed level that makes create_marker_cache_from_specified_'
        'markers fail (a gene unknown to the reference) makes BOTH fail alike - checked on the real run_mapping '
        '(removed_entry_unknown_gene_part); with the entries deleted on one side only the runs differ '
        '(Props/C17.v c17_drop_equals_never_had_level_refuted; c17_drop_named_equals_reduced_filtered assumes cache '
        'success of both) - not a finding, the property does not make that comparison',
        'marker-table keys: the code uses the strings level_name/node, which survive drop_level; the model uses positions in '
        'the tree that is queried, the table of the file (stored positions) is translated by RunMappingKeys.rekey '
        '(a name that is not a level of the reduced tree -> index >= its number of levels)',
        'level names are positions in the stored hierarchy; a drop_level name that is not in the hierarchy is an index >= the number of levels',
        'the marker cache and the bootstrapped vote are abstract in the theorems (any decision procedure that depends only on '
        'the reduced tree and the marker table); chunking, worker scheduling and re_order_blob are not part of RunMapping.v '
        '(C01/C04) but are inside the paired real runs',
        'generated probabilities/correlations are dyadic floats so that float -> exact rational conversion loses nothing; '
        'the pipeline-level comparison is bitwise on the JSON floats',
    ]
    function_part(ctx)
    election_part(ctx)
    c17_keys.keys_part(ctx)
    pipeline_part(ctx)
    removed_entry_unknown_gene_part(ctx)


def replay(ctx, rec):
    print(json.dumps(rec, indent=1)[:6000])
    return 0
