"""C17 — flattening or dropping a level equals mapping on the reduced taxonomy."""
import json

from harness import pipeline, paired, mapcheck, trees


def model_to_data(levels, model, gt):
    data = {'hierarchy': list(levels)}
    for name, lv in zip(levels, model):
        if name == levels[-1]:
            data[name] = {gt.name(n): list(c) for n, c in lv}
        else:
            data[name] = {gt.name(n): [gt.name(x) for x in c] for n, c in lv}
    return data


def run(ctx):
    rng = ctx.rng
    ctx.rule = ('paired real run_mapping runs with a common seed: drop_level=L vs a statistics file whose taxonomy is the '
                "model's drop_level t L (tag 1004); flatten vs a one-level taxonomy with the sorted union of all marker lists; "
                'a level absent from the taxonomy vs no drop; compared bitwise at the shared levels, dropped level = parent of '
                'the finer assignment, flagged inferred; non-trivial = a pair on a tree with >= 2 levels')
    n = ctx.n(14, 200)
    for k in range(n):
        sc = pipeline.gen_scenario(rng, max_levels=5, max_leaves=8, n_cells=rng.randrange(2, 8))
        gt = sc.tree
        var = paired.base_var(rng, sc, factor=rng.choice([0.5, 0.75, 1.0]))
        desc = {'kind': 'paired-run', 'tree': gt.data, 'markers': sc.markers, 'cell_ids': sc.cell_ids,
                'query': sc.query.tolist(), 'query_genes': sc.query_genes, 'ref_genes': sc.ref_genes,
                'means': {str(a): b for a, b in sc.means.items()}, 'config': var}
        modes = []
        for lv in gt.levels[:-1]:
            if len(gt.levels) > 1:
                modes.append(('drop', lv))
        modes.append(('flatten', None))
        modes.append(('absent', 'no_such_level'))
        rng.shuffle(modes)
        for mode, lv in modes[:ctx.n(3, 6)]:
            ctx.count(('c17', k, mode, lv), nontrivial=len(gt.levels) >= 2)
            ctx.dist('mode', mode)
            ctx.dist('levels', len(gt.levels))
            dd = dict(desc)
            dd.update({'mode': mode, 'level': lv})
            if mode == 'drop':
                li = gt.levels.index(lv)
                m = ctx.model([(1004, [gt.model, li])])[0]
                va = dict(var); va['drop_level'] = lv
                ra = paired.run_once(ctx, sc, f'a{k}_{li}', **va)
                if m[0] != 0:
                    if ra['ok']:
                        dd['class'] = 'corr:Tree.drop_level'
                        ctx.violation(f'model rejects dropping {lv} ({m}) but the run succeeded', dd, no_input=True)
                    continue
                rlevels = [x for x in gt.levels if x != lv]
                rdata = model_to_data(rlevels, m[1], gt)
                rb = paired.run_once(ctx, sc, f'b{k}_{li}', tree_data=rdata, **var)
                shared = rlevels
            elif mode == 'flatten':
                va = dict(var); va['flatten'] = True
                ra = paired.run_once(ctx, sc, f'a{k}_f', **va)
                rdata = model_to_data([gt.levels[-1]], [gt.model[-1]], gt)
                union = sorted(set(g for v in sc.markers.values() for g in v), key=lambda g: pipeline.gname(g))
                rb = paired.run_once(ctx, sc, f'b{k}_f', tree_data=rdata, markers={'None': union}, **var)
                shared = [gt.levels[-1]]
            else:
                va = dict(var); va['drop_level'] = lv
                ra = paired.run_once(ctx, sc, f'a{k}_x', **va)
                rb = paired.run_once(ctx, sc, f'b{k}_x', **var)
                shared = gt.levels
            if not ra['ok'] or not rb['ok']:
                dd['class'] = 'c17-run-raises'
                dd['error'] = [ra['error'], rb['error']]
                ctx.violation(f'{mode} {lv}: a run raised: {dd["error"]}', dd)
                continue
            a, b = paired.by_cell(ra), paired.by_cell(rb)
            bad = None
            for cid in sc.cell_ids:
                diff = paired.compare_records(a[cid], b[cid], shared, bitwise=True)
                if diff:
                    bad = f'cell {cid}: {diff}'
                    break
                if mode == 'drop':
                    li = gt.levels.index(lv)
                    finer = trees.GenTree.num(a[cid][gt.levels[li + 1]]['assignment'])
                    par = mapcheck.parent_of(gt.model, li + 1, finer)
                    rec = a[cid].get(lv)
                    if rec is None or trees.GenTree.num(rec['assignment']) != par or rec.get('directly_assigned') is not False:
                        bad = f'cell {cid}: dropped level {lv} holds {rec}, expected the parent {par} of {finer}, inferred'
                        break
                if mode == 'flatten':
                    # every coarser level is the leaf's ancestor
                    cur = trees.GenTree.num(a[cid][gt.levels[-1]]['assignment'])
                    for li in range(len(gt.levels) - 1, 0, -1):
                        par = mapcheck.parent_of(gt.model, li, cur)
                        rec = a[cid].get(gt.levels[li - 1])
                        if rec is None or trees.GenTree.num(rec['assignment']) != par or rec.get('directly_assigned') is not False:
                            bad = f'cell {cid}: level {gt.levels[li - 1]} holds {rec}, expected ancestor {par}'
                            break
                        cur = par
                    if bad:
                        break
            if bad:
                ctx.disagreements_checked += 1
                dd['class'] = f'c17-{mode}'
                ctx.violation(f'{mode} {lv}: {bad}', dd)
        if k < 2:
            ctx.sample({'tree': gt.data, 'markers': sc.markers, 'config': var, 'modes': [list(m) for m in modes[:3]]})


def replay(ctx, rec):
    print(json.dumps(rec, indent=1)[:6000])
    return 0
