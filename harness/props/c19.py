"""C19 — runs leave inputs untouched, scratch space empty, and do not interfere.

Every run of a real stage happens in a child interpreter under strace
(harness/fstrace.py).  Per traced run:
 (a) correspondence: the observed operation trace is accepted by the extracted acceptor
     (coq/Model/FsModel.v, tag 1901) and the model's final file system equals the observed
     directory listing (names, kinds, and unchanged content where the model says unchanged);
 (b) the property itself on the observation: sha256 of every input before == after, listing of the
     scratch directory before == after, output directory = what was there + exactly the requested
     outputs, results equal to those of an undisturbed run in fresh directories.
Concurrent pairs are additionally replayed as ONE interleaving (merged by strace time stamps)
through the two-run acceptor (tag 1902)."""
import contextlib
import io
import json
import os
import pathlib
import shutil

import h5py
import numpy as np

from harness import gen, trees, pipeline, fstrace

CODES = {1: 'read of a path that is neither an input nor made by this run',
         2: 'write to an existing path not made by this run',
         3: 'creation outside the declared outputs / not at a fresh location',
         4: 'operation impossible in the model file system (snapshot or parser wrong)',
         5: 'listing of a directory not made by this run',
         6: 'removal of a path not made by this run',
         7: 'something made under scratch is left at Return',
         8: 'operation after Return', 9: 'no Return', 10: 'directory renamed',
         11: 'non-truncating write to a declared output left by an earlier run'}

# ------------------------------------------------------------------ model glue
class Namer:
    """path components -> integers, order preserving (rank in Python's string order)."""

    def __init__(self, paths):
        comps = set()
        for p in paths:
            comps.update(x for x in p.split('/') if x)
        self.rank = {c: i + 1 for i, c in enumerate(sorted(comps))}
        self.back = {v: k for k, v in self.rank.items()}

    def enc(self, p):
        return [self.rank[x] for x in p.split('/') if x]

    def dec(self, l):
        return '/' + '/'.join(self.back[i] for i in l)


def all_paths(rec, decl, extra=()):
    ps = set(rec['res']['before'])
    for o in rec['ops'] + rec['late']:
        ps.add(o['p'])
        if 'q' in o:
            ps.add(o['q'])
    ps.update(decl['inputs'] + decl['outputs'] + [decl['scratch'], decl['query']])
    ps.update(extra)
    return ps


def enc_config(nm, decl):
    return [[nm.enc(p) for p in decl['inputs']], [nm.enc(p) for p in decl['outputs']], nm.enc(decl['scratch']),
            nm.enc(decl['query']), 1 if decl['obsm'] else 0, 1 if decl['strict'] else 0]


def enc_fs(nm, snap):
    ids = {}
    out = []
    for p in sorted(snap):
        v = snap[p]
        if v == 'dir':
            out.append([nm.enc(p), 1, 0])
        else:
            out.append([nm.enc(p), 0, ids.setdefault(v, len(ids) + 1)])
    return out, ids


def enc_op(nm, o, cid):
    k = o['k']
    p = nm.enc(o['p'])
    if k == 'OpenR':
        return [0, p]
    if k == 'OpenW':
        # O_TRUNC without O_CREAT on a path the run did not make is as forbidden as without O_TRUNC
        return [1, p, cid]
    if k == 'Create':
        return [2, p, 1 if o['trunc'] else 0, cid]
    if k == 'Rename':
        return [6, p, nm.enc(o['q'])]
    return [{'Mkdir': 3, 'Unlink': 4, 'Rmdir': 5, 'ListDir': 7}[k], p]


def enc_trace(nm, rec, with_late=True):
    ops = [enc_op(nm, o, 1000 + i) for i, o in enumerate(rec['ops'])]
    ops.append([8, 1 if rec['res']['ok'] else 0])
    if with_late:
        ops += [enc_op(nm, o, 5000 + i) for i, o in enumerate(rec['late'])]
    return ops


def describe_op(rec, i):
    seq = rec['ops'] + [{'k': 'Return', 'p': 'ok' if rec['res']['ok'] else 'err'}] + rec['late']
    if i >= len(seq):
        return 'end of trace'
    o = seq[i]
    s = f"{o['k']} {o['p']}"
    if 'q' in o:
        s += f" -> {o['q']}"
    if o['k'] in ('Create', 'OpenW'):
        s += f" trunc={o.get('trunc')}"
    return s


def compare_final(nm, model_fs, ids, observed, region=None):
    """model's final fs vs. observed snapshot.  Returns list of differences."""
    diffs = []
    back = {v: k for k, v in ids.items()}
    m = {}
    for p, kind, cid in model_fs:
        m[nm.dec(p)] = (kind, cid)
    keys = set(m) | set(observed)
    for p in sorted(keys):
        if region is not None and not region(p):
            continue
        if p not in m:
            diffs.append(f'observed but not in the model: {p}')
        elif p not in observed:
            diffs.append(f'in the model but not observed: {p}')
        else:
            kind, cid = m[p]
            o = observed[p]
            if (kind == 1) != (o == 'dir'):
                diffs.append(f'kind differs: {p}')
            elif kind == 0 and cid in back and back[cid] != o:
                diffs.append(f'model says content unchanged but digest differs: {p}')
            elif kind == 0 and cid not in back and cid < 1000:
                diffs.append(f'unknown content id {cid}: {p}')
    return diffs


# ------------------------------------------------------------------ declarations per stage
def declare(job):
    a = job['args']
    st = job['stage']
    if st == 'mapping':
        cfg = a['config']
        outs = [cfg[k] for k in ('extended_result_path', 'csv_result_path', 'hdf5_result_path', 'log_path',
                                 'summary_metadata_path') if cfg.get(k)]
        return {'inputs': [cfg['query_path'], cfg['precomputed_stats']['path'], cfg['query_markers']['serialized_lookup']],
                'outputs': outs, 'scratch': cfg['tmp_dir'], 'query': cfg['query_path'],
                'obsm': cfg.get('obsm_key') is not None, 'strict': True}
    if st == 'stats':
        return {'inputs': [a['h5ad']], 'outputs': [a['out']], 'scratch': a['tmp_dir'], 'query': a['h5ad'],
                'obsm': False, 'strict': False}
    if st == 'refmarkers':
        return {'inputs': [a['stats']], 'outputs': [a['out']], 'scratch': a['tmp_dir'], 'query': a['stats'],
                'obsm': False, 'strict': False}
    if st == 'qmarkers':
        return {'inputs': [a['refm'], a['stats']], 'outputs': [], 'scratch': a['tmp_dir'], 'query': a['refm'],
                'obsm': False, 'strict': False}
    raise ValueError(st)


# ------------------------------------------------------------------ the checks on one traced run
def f9_only(new_in_scratch, scratch):
    """True iff everything left under scratch sits in top-level result_buffer_* directories."""
    if not new_in_scratch:
        return False
    for p in new_in_scratch:
        rel = os.path.relpath(p, scratch).split('/')
        if not rel[0].startswith('result_buffer_'):
            return False
    return True


def check_run(ctx, rec, history, baseline=None, region_only=False, expect_ok=None):
    """(a) + (b) for one traced run.  `baseline`: result_of() of the undisturbed run."""
    job, res = rec['job'], rec['res']
    decl = declare(job)
    label = job['label']
    desc = {'history': history, 'label': label, 'stage': job['stage'], 'ok': res['ok'], 'error': res['error'],
            'n_ops': len(rec['ops']), 'n_late': len(rec['late']), 'notes': rec['notes'], 'job': job}
    ctx.dist('stage', job['stage'])
    ctx.dist('history', history)
    ctx.dist('returned', 'ok' if res['ok'] else 'error')
    ctx.dist('operations-by-descendants-after-return', 'some' if rec['late'] else 'none')
    if res.get('all_descendants_exited') is False:
        ctx.dist('descendants', 'still-alive-after-30s')
    kinds = {}
    for o in rec['ops']:
        kinds[o['k']] = kinds.get(o['k'], 0) + 1
    desc['op_kinds'] = kinds
    nontrivial = len(rec['ops']) >= 10 and kinds.get('Mkdir', 0) >= 1 and kinds.get('Unlink', 0) >= 1
    ctx.count((history, label, ctx.evaluations), nontrivial=nontrivial)
    if expect_ok is not None and res['ok'] != expect_ok:
        d = dict(desc, **{'class': 'c19-run-outcome-unexpected', 'traceback': res.get('traceback')})
        ctx.violation(f'{label}: run was expected to {"succeed" if expect_ok else "fail"} but '
                      f'{"succeeded" if res["ok"] else "failed: " + str(res["error"])}', d)
        return None
    before, at_ret, after = res['before'], res['at_return'], res['after']
    scratch = decl['scratch']
    out_dirs = sorted({os.path.dirname(p) for p in decl['outputs']}) or [r for r in job['roots'] if r.endswith('/out')]

    # ---------------- (b) the property on the observation
    bad_b = []
    for i in decl['inputs']:
        if decl['obsm'] and i == decl['query']:
            continue
        if before.get(i) != after.get(i) or before.get(i) != at_ret.get(i):
            bad_b.append(('input-modified', f'input {i} changed: {before.get(i)} -> {after.get(i)}'))
    own = (lambda p: True)
    if region_only:
        # a concurrent partner is at work in the same directories: judge only names this run made
        made = {o['p'] for o in rec['ops'] if o['k'] in ('Create', 'Mkdir')} | {o['q'] for o in rec['ops'] if 'q' in o}
        tops = {p for p in made if os.path.dirname(p) == scratch}
        own = (lambda p: any(p == t or p.startswith(t + '/') for t in tops) or p in decl['outputs'])
    sc_before = {p: v for p, v in before.items() if p.startswith(scratch + '/') and own(p)}
    left = []
    for snap_name, snap in (('at return', at_ret), ('after all descendants exited', after)):
        sc_now = {p: v for p, v in snap.items() if p.startswith(scratch + '/') and own(p)}
        if sc_now != sc_before:
            new = sorted(set(sc_now) - set(sc_before))
            gone = sorted(set(sc_before) - set(sc_now))
            chg = sorted(p for p in set(sc_now) & set(sc_before) if sc_now[p] != sc_before[p])
            left.append((snap_name, new, gone, chg))
    if left and (res['ok'] or decl['strict']):
        snap_name, new, gone, chg = left[-1]
        if not res['ok'] and not gone and not chg and f9_only(new, scratch) and \
                all(f9_only(x[1], scratch) and not x[2] and not x[3] for x in left):
            bad_b.append(('F9-result-buffer-left-after-failed-mapping',
                          f'failed mapping run left {new[:4]} in the scratch directory'))
        else:
            bad_b.append(('scratch-not-restored', f'scratch differs {snap_name}: new={new[:6]} gone={gone[:6]} changed={chg[:6]}'))
    for od in out_dirs:
        ob = {p: v for p, v in before.items() if p.startswith(od + '/')}
        oa = {p: v for p, v in after.items() if p.startswith(od + '/')}
        if region_only:
            continue
        new = sorted(set(oa) - set(ob))
        extra = [p for p in new if p not in decl['outputs']]
        if extra:
            bad_b.append(('created-outside-outputs', f'files created outside the requested outputs: {extra[:6]}'))
        gone = sorted(p for p in set(ob) - set(oa) if p not in decl['outputs'])
        chg = sorted(p for p in set(ob) & set(oa) if ob[p] != oa[p] and p not in decl['outputs'])
        if gone or chg:
            bad_b.append(('bystander-files-changed', f'files of earlier runs in the output directory changed: gone={gone[:6]} changed={chg[:6]}'))
        if res['ok']:
            missing = [p for p in decl['outputs'] if os.path.dirname(p) == od and p not in oa]
            if missing:
                bad_b.append(('output-missing', f'requested outputs missing: {missing}'))
    if not region_only:
        # nothing anywhere else in the sandbox either (input directory, ...)
        for p in sorted(set(after) - set(before)):
            if not p.startswith(scratch + '/') and not any(p.startswith(od + '/') for od in out_dirs):
                bad_b.append(('created-outside-outputs', f'created outside scratch and outputs: {p}'))
    if baseline is not None and res['ok']:
        mine = rec.get('result')
        if mine.get('obsm_present') is False:
            bad_b.append(('obsm-result-missing', 'obsm_key was set but the query file has no such obsm entry'))
        for k in sorted((set(baseline) | set(mine)) - {'obsm_present'}):
            if baseline.get(k) != mine.get(k):
                sub = ''
                if isinstance(baseline.get(k), dict) and isinstance(mine.get(k), dict):
                    ks = [x for x in sorted(set(baseline[k]) | set(mine[k])) if baseline[k].get(x) != mine[k].get(x)]
                    sub = f' (entries {ks[:6]}: {str(baseline[k].get(ks[0]))[:200]} vs {str(mine[k].get(ks[0]))[:200]})'
                bad_b.append(('result-differs-from-undisturbed-run', f'{k} differs from the undisturbed run{sub}'))
    lp = job['args'].get('config', {}).get('log_path') if job['stage'] == 'mapping' else None
    if lp and lp in before and before[lp] != 'dir' and os.path.exists(lp):
        old = job.get('stale_log_text')
        if old and old in open(lp).read():
            bad_b.append(('log-appended-to-file-of-earlier-run',
                          f'log file {lp} still starts with the text an earlier run left there'))
    seen = set()
    for cls, what in bad_b:
        if cls in seen:
            continue
        seen.add(cls)
        ctx.disagreements_checked += 1
        ctx.violation(f'{history}/{label}: {what}', dict(desc, **{'class': cls, 'detail': [w for c, w in bad_b if c == cls]}))

    # ---------------- (a) correspondence with the acceptor
    nm = Namer(all_paths(rec, decl, extra=list(at_ret) + list(after)))
    fs0, ids = enc_fs(nm, before)
    case = (1901, [enc_config(nm, decl), fs0, enc_trace(nm, rec)])
    r = ctx.model([case])[0]
    desc['model'] = r if len(json.dumps(r)) < 2000 else '(long)'
    b_classes = {c for c, _ in bad_b}
    if r[0] != 0:
        ctx.violation(f'{history}/{label}: model could not decode the trace', dict(desc, **{'class': 'corr:FsModel.run_accept'}),
                      no_input=True)
        return rec
    verdict = r[1]
    if verdict[0] == 1:
        idx, code = verdict[1], verdict[2]
        desc['rejected_at'] = describe_op(rec, idx)
        desc['reject_code'] = code
        ctx.dist('acceptor', f'rejected:{code}')
        # a rejection that (b) explains is the same finding seen through the model
        explained = ((code == 7 and ('F9-result-buffer-left-after-failed-mapping' in b_classes or 'scratch-not-restored' in b_classes))
                     or (code == 11 and 'log-appended-to-file-of-earlier-run' in b_classes))
        if not explained:
            ctx.disagreements_checked += 1
            ctx.violation(f'{history}/{label}: acceptor rejects the observed trace at op {idx} ({desc["rejected_at"]}): '
                          f'{CODES.get(code, code)}',
                          dict(desc, **{'class': f'acceptor-rejects:{code}', 'ops': [describe_op(rec, i) for i in range(max(0, idx - 5), idx + 1)]}),
                          no_input=(not bad_b))
        return rec
    ctx.dist('acceptor', 'accepted')
    ctx.traces_validated += 1
    if bad_b and not (b_classes <= {'result-differs-from-undisturbed-run', 'output-missing'}):
        ctx.violation(f'{history}/{label}: acceptor accepts a trace although the observation violates the property: {sorted(b_classes)}',
                      dict(desc, **{'class': 'corr:FsModel.accept-too-permissive'}), no_input=True)
    observed = after if not rec['late'] else after
    region = None
    if region_only:
        fresh = {nm.back[n] for n in verdict[2]}
        tops = {scratch + '/' + n for n in fresh}
        region = (lambda p: any(p == t or p.startswith(t + '/') for t in tops) or p in decl['outputs'] or p in decl['inputs'])
    diffs = compare_final(nm, verdict[1], ids, observed, region)
    if diffs:
        ctx.disagreements_checked += 1
        ctx.violation(f'{history}/{label}: final file system of the model differs from the observed listing: {diffs[:5]}',
                      dict(desc, **{'class': 'corr:FsModel.final-fs', 'diffs': diffs[:20]}), no_input=True)
    return rec


# ------------------------------------------------------------------ scenario preparation
def mapping_inputs(rng, d, n_cells=None):
    sc = pipeline.gen_scenario(rng, n_cells=n_cells or rng.randrange(5, 12))
    d.mkdir(parents=True, exist_ok=True)
    pipeline.write_stats(d / 'stats.h5', sc)
    pipeline.write_markers(d / 'markers.json', sc)
    pipeline.write_query(d / 'query.h5ad', sc, encoding=rng.choice(['dense', 'csr', 'csc']))
    return sc


def sandbox(base, name):
    d = pathlib.Path(base) / name
    for s in ('in', 'out', 'tmp'):
        (d / s).mkdir(parents=True, exist_ok=True)
    return d


def roots_of(sb):
    return [str(sb / 'in'), str(sb / 'out'), str(sb / 'tmp')]


def mapping_job(label, sb, src, tag, *, same_names=False, log=True, obsm_key=None, fault=None,
                n_processors=2, chunk_size=3, seed=5, break_input=None, private_query=False, pre=None):
    """A mapping job in sandbox `sb`; inputs are copies of src/* placed in sb/in once."""
    ind = sb / 'in'
    for fn in ('stats.h5', 'markers.json', 'query.h5ad'):
        if not (ind / fn).exists():
            shutil.copy(src / fn, ind / fn)
    q = ind / 'query.h5ad'
    if private_query:
        q = ind / f'query_{tag}.h5ad'
        shutil.copy(src / 'query.h5ad', q)
    markers = ind / 'markers.json'
    if break_input == 'markers':
        markers = ind / f'markers_broken_{tag}.json'
        markers.write_text(json.dumps({'None': ['not_a_gene_1', 'not_a_gene_2']}))
    cfg = pipeline.config_for(sb, q, ind / 'stats.h5', markers, n_processors=n_processors, chunk_size=chunk_size,
                              rng_seed=seed, obsm_key=obsm_key)
    sfx = '' if same_names else f'_{tag}'
    cfg['extended_result_path'] = str(sb / 'out' / f'result{sfx}.json')
    cfg['csv_result_path'] = str(sb / 'out' / f'result{sfx}.csv')
    cfg['hdf5_result_path'] = str(sb / 'out' / f'result{sfx}.h5')
    cfg['log_path'] = str(sb / 'out' / f'log{sfx}.txt') if log else None
    if break_input == 'stats':
        bad = ind / f'stats_broken_{tag}.h5'
        with h5py.File(bad, 'w') as f_:
            f_.create_dataset('not_a_stats_file', data=np.arange(3))
        cfg['precomputed_stats']['path'] = str(bad)
    return {'label': label, 'stage': 'mapping', 'args': {'config': cfg}, 'fault': fault, 'pre': pre,
            'roots': roots_of(sb)}


def run_batches(ctx, batches, name):
    wd = ctx.scratch / 'trace' / name
    recs = fstrace.run_children(batches, wd)
    for b in recs:
        for rec in b:
            rec['result'] = rec['res'].get('collected')
    return recs


STALE_LOG = 'LOG LINE OF AN EARLIER RUN -- ctm-verif stale marker\n'


# ------------------------------------------------------------------ histories of the mapping stage
def history_mapping(ctx, k):
    rng = ctx.rng
    base = ctx.scratch / f'm{k}'
    src = base / 'src'
    sc = mapping_inputs(rng, src)
    fresh = sandbox(base, 'fresh')
    shared = sandbox(base, 'shared')
    kw = dict(n_processors=rng.choice([1, 2, 3]), chunk_size=rng.choice([2, 3, 4]), seed=rng.randrange(10 ** 6))
    # election.run_type_assignment_on_h5ad_cpu: chunk_size = min(ceil(n_rows / n_processors), chunk_size)
    n_rows = len(sc.cell_ids)
    eff = min(max(1, -(-n_rows // kw['n_processors'])), kw['chunk_size'])
    bad_r0 = eff * rng.randrange(-(-n_rows // eff))
    plant = {'plant': {'dirs': [str(shared / 'tmp'), str(shared / 'out')], 'seed': rng.randrange(10 ** 6)}}
    log_r4 = str(shared / 'out' / 'log_r4.txt')
    fail_kinds = ['markers', 'stats']
    jobs = [
        (mapping_job('baseline', fresh, src, 'b', **kw), 'undisturbed', True),
        (mapping_job('first', shared, src, 'r1', **kw), 'first-in-shared-dirs', True),
        (mapping_job('again-same-names', shared, src, 'r1', **kw, log=False), 'success-after-success', True),
        (mapping_job('fail-invalid-input', shared, src, 'f1', break_input=rng.choice(fail_kinds), **kw), 'failing-run', False),
        (mapping_job('after-failure', shared, src, 'r2', **kw), 'success-after-failure', True),
        (mapping_job('fail-worker-exit', shared, src, 'f2',
                     fault={'how': rng.choice(['exit', 'raise']), 'code': 3, 'r0': bad_r0}, **kw), 'failing-run-worker', False),
        (mapping_job('after-worker-failure', shared, src, 'r3', **kw), 'success-after-failure', True),
        (mapping_job('stale-planted', shared, src, 'r1', pre=plant, **kw, log=False), 'stale-files-planted', True),
        (mapping_job('obsm', shared, src, 'o1', obsm_key='ctm_verif', private_query=True, **kw), 'obsm-key-set', True),
        (mapping_job('log-exists', shared, src, 'r4', pre={'write': {log_r4: STALE_LOG}}, **kw), 'log-file-of-earlier-run', True),
    ]
    jobs[-1][0]['stale_log_text'] = STALE_LOG.strip()
    recs = run_batches(ctx, [[j for j, _, _ in jobs]], f'seq{k}')[0]
    baseline = recs[0]['result']
    for rec, (_, hist, exp) in zip(recs, jobs):
        check_run(ctx, rec, hist, None if hist == 'undisturbed' else baseline, expect_ok=exp)
    if k == 0:
        for rec in recs[:2]:
            ctx.sample({'label': rec['job']['label'],
                        'ops': [describe_op(rec, i) for i in range(min(14, len(rec['ops'])))]}, limit=2)
    return base, src, kw, baseline


def history_concurrent(ctx, k, base, src, kw, baseline):
    """Two mapping runs at the same time, same scratch and output directories."""
    rng = ctx.rng
    sb = sandbox(base, f'conc{k}')
    wd = ctx.scratch / 'trace' / f'conc{k}'
    wd.mkdir(parents=True, exist_ok=True)
    obsm = rng.random() < 0.5
    ja = mapping_job('concurrent-A', sb, src, 'A', obsm_key='ctm_verif' if obsm else None, private_query=obsm, **kw)
    jb = mapping_job('concurrent-B', sb, src, 'B', **kw)
    ja['wait_for'] = {'mine': str(wd / 'readyA'), 'other': str(wd / 'readyB')}
    jb['wait_for'] = {'mine': str(wd / 'readyB'), 'other': str(wd / 'readyA')}
    before = fstrace.snapshot(roots_of(sb))
    (ra,), (rb,) = run_batches(ctx, [[ja], [jb]], f'conc{k}')
    after = fstrace.snapshot(roots_of(sb))
    overlap = ra['t0'] < rb['t1'] and rb['t0'] < ra['t1']
    ctx.dist('concurrent-overlap', 'overlapping' if overlap else 'not-overlapping')
    for rec in (ra, rb):
        check_run(ctx, rec, 'concurrent', baseline, region_only=True, expect_ok=True)
    # the pair as ONE interleaving through the two-run acceptor
    da, db = declare(ja), declare(jb)
    paths = set(before) | set(after) | all_paths(ra, da) | all_paths(rb, db)
    nm = Namer(paths)
    fs0, ids = enc_fs(nm, before)
    tagged = []
    for who, rec in ((1, ra), (0, rb)):
        for i, o in enumerate(rec['ops']):
            tagged.append((o['t'], len(tagged), [who, enc_op(nm, o, (1000 if who else 3000) + i)]))
        tagged.append((rec['t1'], len(tagged), [who, [8, 1 if rec['res']['ok'] else 0]]))
    tagged.sort(key=lambda x: (x[0], x[1]))
    il = [x[2] for x in tagged]
    switches = sum(1 for i in range(1, len(il)) if il[i][0] != il[i - 1][0])
    ctx.dist('interleaving-switches', 'none' if switches <= 1 else ('<10' if switches < 10 else '>=10'))
    r = ctx.model([(1902, [enc_config(nm, da), enc_config(nm, db), fs0, il])])[0]
    desc = {'history': 'concurrent-pair', 'jobs': [ja, jb], 'n_ops': len(il), 'switches': switches,
            'model': r if len(json.dumps(r)) < 1500 else '(long)'}
    ctx.count(('concurrent-pair', k), nontrivial=overlap and switches >= 2)
    if r[0] != 0 or r[1][0] != 0:
        ctx.disagreements_checked += 1
        ctx.violation(f'concurrent pair {k}: the two-run acceptor rejects the observed interleaving: {r}',
                      dict(desc, **{'class': 'acceptor2-rejects'}), no_input=True)
        return
    if r[1][2] != 1:
        ctx.violation(f'concurrent pair {k}: the runs are not compatible in the sense of the theorem (shared fresh names or '
                      'overlapping declared files)', dict(desc, **{'class': 'concurrent-not-compatible'}))
    ctx.traces_validated += 1
    diffs = compare_final(nm, r[1][1], ids, after)
    if diffs:
        ctx.disagreements_checked += 1
        ctx.violation(f'concurrent pair {k}: final file system of the two-run model differs from the listing: {diffs[:5]}',
                      dict(desc, **{'class': 'corr:FsModel.final-fs-2', 'diffs': diffs[:20]}), no_input=True)


# ------------------------------------------------------------------ the other three stages
def quiet():
    return contextlib.redirect_stdout(io.StringIO())


def reference_inputs(rng, d):
    """Generated reference h5ad + (untraced) statistics and reference markers for later stages."""
    from cell_type_mapper.diff_exp.precompute_from_anndata import precompute_summary_stats_from_h5ad
    from cell_type_mapper.diff_exp.markers import find_markers_for_all_taxonomy_pairs
    from cell_type_mapper.taxonomy.taxonomy_tree import TaxonomyTree
    from harness import mapcheck
    d.mkdir(parents=True, exist_ok=True)
    gt = trees.random_tree(rng, max_levels=rng.choice([2, 3]), max_leaves=5, p_single=0.2)
    leaves = [n for n, _ in gt.model[-1]]
    ng = rng.randrange(14, 24)
    prof = {lf: [rng.choice([0, 0, 0, 20, 50, 200]) for _ in range(ng)] for lf in leaves}
    rows, labels = [], []
    L = len(gt.levels)
    for lf in leaves:
        for _ in range(rng.randrange(4, 7)):
            rows.append([max(0, p + rng.randrange(-2, 3)) if p > 0 else rng.choice([0, 0, 0, 1]) for p in prof[lf]])
            lab = [None] * L
            lab[L - 1] = gt.name(lf)
            cur = lf
            for li in range(L - 1, 0, -1):
                cur = mapcheck.parent_of(gt.model, li, cur)
                lab[li - 1] = gt.name(cur)
            labels.append(lab)
    order = list(range(len(rows)))
    rng.shuffle(order)
    M = np.array([rows[i] for i in order], dtype=np.float32)
    obs = {gt.levels[i]: [labels[j][i] for j in order] for i in range(L)}
    genes = [pipeline.gname(g) for g in range(ng)]
    enc = rng.choice(['csr', 'csc', 'dense'])
    gen.write_h5ad(d / 'ref.h5ad', M, [f'r{i}' for i in range(len(rows))], genes, encoding=enc, obs_cols=obs)
    (d / 'ptmp').mkdir(exist_ok=True)
    buf = io.StringIO()
    with contextlib.redirect_stdout(buf), contextlib.redirect_stderr(buf):
        precompute_summary_stats_from_h5ad(d / 'ref.h5ad', gt.levels, None, d / 'stats.h5', rows_at_a_time=5,
                                           normalization='raw', tmp_dir=str(d / 'ptmp'), n_processors=2)
        tree = TaxonomyTree.from_precomputed_stats(d / 'stats.h5')
        find_markers_for_all_taxonomy_pairs(d / 'stats.h5', tree, d / 'refm.h5', n_processors=2,
                                            tmp_dir=str(d / 'ptmp'), max_gb=1)
    qgenes = list(genes)
    rng.shuffle(qgenes)
    return {'levels': gt.levels, 'genes': genes, 'qgenes': qgenes, 'encoding': enc}


def stage_jobs(sb, src, info, tag, params, pre=None):
    ind = sb / 'in'
    for fn in ('ref.h5ad', 'stats.h5'):
        if not (ind / fn).exists():
            shutil.copy(src / fn, ind / fn)
    if not (ind / 'refm.h5').exists():
        shutil.copy(src / 'refm.h5', ind / 'refm.h5')
        # what cli/reference_markers.py adds to the file it writes
        with h5py.File(ind / 'refm.h5', 'a') as f:
            if 'metadata' in f:
                del f['metadata']
            f.create_dataset('metadata', data=json.dumps({'precomputed_path': str(ind / 'stats.h5')}).encode('utf-8'))
    roots = roots_of(sb)
    tmp = str(sb / 'tmp')
    return [
        {'label': f'stats-{tag}', 'stage': 'stats', 'roots': roots, 'pre': pre,
         'args': {'h5ad': str(ind / 'ref.h5ad'), 'levels': info['levels'], 'out': str(sb / 'out' / 'stats_out.h5'),
                  'rows_at_a_time': params['rows'], 'tmp_dir': tmp, 'n_processors': params['np']}},
        {'label': f'refmarkers-{tag}', 'stage': 'refmarkers', 'roots': roots,
         'args': {'stats': str(ind / 'stats.h5'), 'out': str(sb / 'out' / 'refm_out.h5'), 'tmp_dir': tmp,
                  'n_processors': params['np']}},
        {'label': f'qmarkers-{tag}', 'stage': 'qmarkers', 'roots': roots,
         'args': {'refm': str(ind / 'refm.h5'), 'stats': str(ind / 'stats.h5'), 'query_genes': info['qgenes'],
                  'n_per_utility': params['npu'], 'n_processors': params['np'], 'behemoth_cutoff': params['behemoth'],
                  'tmp_dir': tmp}},
    ]


def history_stages(ctx, k):
    rng = ctx.rng
    base = ctx.scratch / f's{k}'
    src = base / 'src'
    info = None
    for attempt in range(6):
        try:
            info = reference_inputs(rng, src)
            break
        except Exception as e:     # noqa
            # the UNTRACED preparation (statistics + reference markers of a generated reference) raised:
            # a matter of C11/C13/C18 (e.g. a reference without any marker for some pair), not of C19
            ctx.dist('reference-preparation', f'regenerated after {type(e).__name__}')
            shutil.rmtree(src, ignore_errors=True)
    if info is None:
        raise RuntimeError('could not generate a reference the preparatory stages accept')
    ctx.dist('reference-preparation', 'ok')
    shutil.rmtree(src / 'ptmp', ignore_errors=True)
    fresh = sandbox(base, 'fresh')
    shared = sandbox(base, 'shared')
    params = {'rows': rng.randrange(3, 12), 'np': rng.randrange(1, 4), 'npu': rng.randrange(2, 6),
              'behemoth': rng.choice([0, 1000])}
    plant = {'plant': {'dirs': [str(shared / 'tmp'), str(shared / 'out')], 'seed': rng.randrange(10 ** 6)}}
    j0 = stage_jobs(fresh, src, info, 'undisturbed', params)
    j1 = stage_jobs(shared, src, info, 'stale', params, pre=plant)
    j2 = stage_jobs(shared, src, info, 'again', params)
    recs = run_batches(ctx, [j0 + j1 + j2], f'stages{k}')[0]
    for i, rec in enumerate(recs):
        hist = ['undisturbed', 'stale-files-planted', 'success-after-success'][i // 3]
        check_run(ctx, rec, hist, None if i < 3 else recs[i % 3]['result'], expect_ok=True)


def run(ctx):
    ctx.rule = ('one traced run of a real stage (strace of a child interpreter); non-trivial = the trace has >= 10 '
                'operations on the sandbox directories including a Mkdir and an Unlink; a concurrent pair is '
                'non-trivial when the two runs overlap in time and the merged trace switches between them')
    ctx.assumptions += [
        'observed through strace -f on openat/open/creat/mkdir(at)/unlink(at)/rmdir/rename(at)(2)/getdents64: stat-like '
        'probes (exists(), is_file()) are not operations of the model',
        'HDF5 H5Fcreate probes an existing file with open(O_RDWR) before truncating it: the probe is dropped when the next '
        'operation of that process on that path is the truncating create (fstrace.to_ops)',
        'gc.collect() runs before a run counts as returned (destructor-time cleanup of FileTracker / AnnDataRowIterator)',
        'a scratch directory is always given (tmp_dir is not None); concurrent runs use distinct output file names and a '
        'private copy of the query when obsm_key is set',
        'tempfile uniqueness under concurrency is assumed (the two-run acceptor checks the observed names are distinct)',
        'generated references on which the untraced preparation (statistics, reference markers) itself raises are '
        'regenerated (counted in distribution.reference-preparation); such failures belong to C11/C13/C18',
    ]
    n_map = ctx.n(2, 14)
    n_conc = ctx.n(3, 14)
    n_stage = ctx.n(1, 5)
    state = None
    for k in range(n_map):
        state = history_mapping(ctx, k)
        per = max(1, n_conc // n_map) if k < n_map - 1 else n_conc - (max(1, n_conc // n_map)) * (n_map - 1)
        for c in range(max(0, per)):
            history_concurrent(ctx, f'{k}_{c}', *state)
        shutil.rmtree(state[0], ignore_errors=True)
    for k in range(n_stage):
        history_stages(ctx, k)
        shutil.rmtree(ctx.scratch / f's{k}', ignore_errors=True)


def replay(ctx, rec):
    print(json.dumps(rec, indent=1, default=str)[:8000])
    return 0
