"""C19 — runs leave inputs untouched, scratch space empty, and do not interfere.

Histories: mapping runs (run_mapping) sharing scratch and output directories (success after success, after
failure -- invalid input, a worker that exits or raises while its siblings are still at work --, stale files
under every temporary-name pattern, obsm, log of an earlier run), the same WITHOUT a scratch
directory (tmp_dir=None: result buffer in extended_result_dir = the output directory / another directory / the
system temporary directory; TMPDIR and the working directory are inside the sandbox and observed), concurrent
pairs, the three preparatory stages, and the type-assignment stage called DIRECTLY with a results_output_path
that is shared (chunk files of an earlier run under every plausible buffer name, after a run that was killed,
after a successful run, two calls at the same time).

Every run of a real stage happens in a child interpreter under strace
(harness/fstrace.py); the trace contains the run's effects AND its observations (stat / exists / access /
opening a directory / calls that failed: `Stat p answer`).  Per traced run:
 (a) correspondence: the observed operation trace is accepted by the extracted acceptor
     (coq/Model/FsModel.v, tag 1901) and the model's final file system equals the observed
     directory listing (names, kinds, and unchanged content where the model says unchanged);
 (b) the property itself on the observation: sha256 of every input before == after, listing of the
     scratch directory before == after, output directory = what was there + exactly the requested
     outputs, results equal to those of an undisturbed run in fresh directories.
Concurrent pairs are additionally replayed as ONE interleaving (merged by strace time stamps)
through the two-run acceptor (tag 1902)."""
import contextlib
import io
import json
import os
import pathlib
import shutil

import h5py
import numpy as np

from harness import gen, trees, pipeline, fstrace
from harness.props import c19_tracker

CODES = {1: 'read of a path that is neither an input nor made by this run',
         2: 'write to an existing path not made by this run',
         3: 'creation outside the declared outputs / not at a fresh location',
         4: 'operation impossible in the model file system (snapshot or parser wrong)',
         5: 'listing of a directory not made by this run',
         6: 'removal of a path not made by this run',
         7: 'something made under scratch is left at Return',
         8: 'operation after Return', 9: 'no Return', 10: 'directory renamed',
         11: 'non-truncating write to a declared output left by an earlier run',
         12: 'look (stat / exists / access / failed call) at a path that is neither declared, an ancestor of a declared '
             'path, nor below a name this run made: an entry -- or its absence -- of the shared directories',
         13: 'removal (or renaming away) of a declared output that existed before this run'}
PROBE = {'absent': 0, 'file': 1, 'dir': 2, 'exists': 3}

# ------------------------------------------------------------------ model glue
class Namer:
    """path components -> integers, order preserving (rank in Python's string order)."""

    def __init__(self, paths):
        comps = set()
        for p in paths:
            comps.update(x for x in p.split('/') if x)
        self.rank = {c: i + 1 for i, c in enumerate(sorted(comps))}
        self.back = {v: k for k, v in self.rank.items()}

    def enc(self, p):
        return [self.rank[x] for x in p.split('/') if x]

    def dec(self, l):
        return '/' + '/'.join(self.back[i] for i in l)


def all_paths(rec, decl, extra=()):
    ps = set(rec['res']['before'])
    for o in rec['ops'] + rec['late']:
        ps.add(o['p'])
        if 'q' in o:
            ps.add(o['q'])
    ps.update(decl['inputs'] + decl['outputs'] + [decl['scratch'], decl['query']])
    ps.update(extra)
    return ps


def enc_config(nm, decl):
    return [[nm.enc(p) for p in decl['inputs']], [nm.enc(p) for p in decl['outputs']], nm.enc(decl['scratch']),
            nm.enc(decl['query']), 1 if decl['obsm'] else 0, 1 if decl['strict'] else 0]


def enc_fs(nm, snap):
    ids = {}
    out = []
    for p in sorted(snap):
        v = snap[p]
        if v == 'dir':
            out.append([nm.enc(p), 1, 0])
        else:
            out.append([nm.enc(p), 0, ids.setdefault(v, len(ids) + 1)])
    return out, ids


def enc_op(nm, o, cid):
    k = o['k']
    p = nm.enc(o['p'])
    if k == 'OpenR':
        return [0, p]
    if k == 'OpenW':
        # O_TRUNC without O_CREAT on a path the run did not make is as forbidden as without O_TRUNC
        return [1, p, cid]
    if k == 'Create':
        return [2, p, 1 if o['trunc'] else 0, cid]
    if k == 'Rename':
        return [6, p, nm.enc(o['q'])]
    if k == 'Stat':
        return [9, p, PROBE[o['r']]]
    return [{'Mkdir': 3, 'Unlink': 4, 'Rmdir': 5, 'ListDir': 7}[k], p]


def enc_trace(nm, rec, with_late=True):
    ops = [enc_op(nm, o, 1000 + i) for i, o in enumerate(rec['ops'])]
    ops.append([8, 1 if rec['res']['ok'] else 0])
    if with_late:
        ops += [enc_op(nm, o, 5000 + i) for i, o in enumerate(rec['late'])]
    return ops


def describe_op(rec, i):
    seq = rec['ops'] + [{'k': 'Return', 'p': 'ok' if rec['res']['ok'] else 'err'}] + rec['late']
    if i >= len(seq):
        return 'end of trace'
    o = seq[i]
    s = f"{o['k']} {o['p']}"
    if 'q' in o:
        s += f" -> {o['q']}"
    if o['k'] in ('Create', 'OpenW'):
        s += f" trunc={o.get('trunc')}"
    if o['k'] == 'Stat':
        s += f" -> {o.get('r')} (via {o.get('via')})"
    return s


def compare_final(nm, model_fs, ids, observed, region=None):
    """model's final fs vs. observed snapshot.  Returns list of differences."""
    diffs = []
    back = {v: k for k, v in ids.items()}
    m = {}
    for p, kind, cid in model_fs:
        m[nm.dec(p)] = (kind, cid)
    keys = set(m) | set(observed)
    for p in sorted(keys):
        if region is not None and not region(p):
            continue
        if p not in m:
            diffs.append(f'observed but not in the model: {p}')
        elif p not in observed:
            diffs.append(f'in the model but not observed: {p}')
        else:
            kind, cid = m[p]
            o = observed[p]
            if (kind == 1) != (o == 'dir'):
                diffs.append(f'kind differs: {p}')
            elif kind == 0 and cid in back and back[cid] != o:
                diffs.append(f'model says content unchanged but digest differs: {p}')
            elif kind == 0 and cid not in back and cid < 1000:
                diffs.append(f'unknown content id {cid}: {p}')
    return diffs


# ------------------------------------------------------------------ declarations per stage
def declare(job):
    """What the run was given.  `scratch`: the scratch root of the model; `scratch2`: further directories the
    stage was given for temporary data (modelled as part of the one scratch root, see overlay_path)."""
    a = job['args']
    st = job['stage']
    if st == 'mapping':
        cfg = a['config']
        outs = [cfg[k] for k in ('extended_result_path', 'csv_result_path', 'hdf5_result_path', 'log_path',
                                 'summary_metadata_path') if cfg.get(k)]
        scratch, scratch2 = cfg['tmp_dir'], []
        if scratch is None:
            # no scratch directory given: temporary files go to the system temporary directory (tempfile's
            # default, TMPDIR of the run) and the per-process result buffer to extended_result_dir (schema:
            # "Optional temporary directory into which assignment results will be saved from each process")
            scratch = job['systmp']
            erd = cfg.get('extended_result_dir')
            if erd and erd != scratch:
                scratch2 = [erd]
        return {'inputs': [cfg['query_path'], cfg['precomputed_stats']['path'], cfg['query_markers']['serialized_lookup']],
                'outputs': outs, 'scratch': scratch, 'scratch2': scratch2, 'query': cfg['query_path'],
                # storing in the query file is requested by a non-empty obsm_key; None AND '' request nothing
                'obsm': bool(cfg.get('obsm_key')), 'strict': True}
    if st == 'assign':
        # the type-assignment stage called directly: results_output_path is where it buffers the per-chunk
        # results, tmp_dir (or, without one, the system temporary directory) where the query is rewritten
        other = a['tmp_dir'] or job['systmp']
        return {'inputs': [a['query'], a['stats'], a['marker_cache']], 'outputs': [],
                'scratch': a['results_output_path'], 'scratch2': [other] if other != a['results_output_path'] else [],
                'query': a['query'], 'obsm': False, 'strict': False}
    if st == 'stats':
        return {'inputs': [a['h5ad']], 'outputs': [a['out']], 'scratch': a['tmp_dir'], 'query': a['h5ad'],
                'obsm': False, 'strict': False}
    if st == 'refmarkers':
        return {'inputs': [a['stats']], 'outputs': [a['out']], 'scratch': a['tmp_dir'], 'query': a['stats'],
                'obsm': False, 'strict': False}
    if st == 'qmarkers':
        return {'inputs': [a['refm'], a['stats']], 'outputs': [], 'scratch': a['tmp_dir'], 'query': a['refm'],
                'obsm': False, 'strict': False}
    raise ValueError(st)


# ------------------------------------------------------------------ more than one directory for temporary data
OVERLAY = '~second-scratch-%d~'


def overlay_path(p, decl):
    """The model has ONE scratch root.  A run that was given a second directory for temporary data (S2) is
    modelled with S2's entries as entries of the scratch root under names no real entry can have:
    S2/x/rest -> scratch/~second-scratch-i~x/rest.  Declared outputs keep their place; S2 itself too (so that
    listing it, like listing the scratch root, stays refused).  The rules applied to S2 are thereby exactly the
    rules of the scratch root: new names only, gone at Return, nothing older read, changed, listed or removed."""
    for i, s2 in enumerate(decl.get('scratch2') or []):
        if p.startswith(s2 + '/') and p not in decl['outputs']:
            return decl['scratch'] + '/' + (OVERLAY % i) + p[len(s2) + 1:]
    return p


def overlay_rec(rec, decl):
    if not decl.get('scratch2'):
        return rec

    def f(p):
        return overlay_path(p, decl)

    def fop(o):
        o = dict(o, p=f(o['p']))
        if 'q' in o:
            o['q'] = f(o['q'])
        return o

    def fsnap(snap):
        out = {f(p): v for p, v in snap.items()}
        if len(out) != len(snap):
            raise RuntimeError('overlay of the second scratch directory is not injective')
        return out
    res = dict(rec['res'])
    for k in ('before', 'at_return', 'after'):
        res[k] = fsnap(res[k])
    return dict(rec, res=res, ops=[fop(o) for o in rec['ops']], late=[fop(o) for o in rec['late']])


def drop_cwd_probes(ctx, rec, job, tmp_dirs, out_dirs, decl):
    """Looks (Stat) at paths below the WORKING directory of the run, when that directory is none of the directories
    the property speaks about (scratch, outputs, inputs): the interpreter resolving a relative file name -- observed:
    linecache looking for the source 'h5py/_objects.pyx' of a Cython frame while run_mapping formats the traceback of
    a failing run.  They are counted and not given to the acceptor (whose rule 12 is about the shared scratch/output
    directories).  Anything else than a look there (a file made, read, listed) stays in the trace."""
    cwd = job.get('cwd')
    if not cwd:
        return rec
    special = tmp_dirs + out_dirs + [os.path.dirname(p) for p in decl['inputs']]
    if any(cwd == d or cwd.startswith(d + '/') or d.startswith(cwd + '/') for d in special):
        return rec

    def is_cwd_probe(o):
        return o['k'] == 'Stat' and (o['p'] == cwd or o['p'].startswith(cwd + '/'))
    n = sum(1 for o in rec['ops'] + rec['late'] if is_cwd_probe(o))
    if n:
        ctx.dist('looks-into-working-directory-dropped', sorted({os.path.relpath(o['p'], cwd) for o in rec['ops'] + rec['late']
                                                                  if is_cwd_probe(o)})[0])
    return dict(rec, ops=[o for o in rec['ops'] if not is_cwd_probe(o)], late=[o for o in rec['late'] if not is_cwd_probe(o)])


# ------------------------------------------------------------------ the checks on one traced run
def f9_only(new_in_scratch, scratch):
    """True iff everything left under scratch sits in top-level result_buffer_* directories.
    (The classes F9 / F9c / F9d name what run_mapping left behind before it was repaired -- known_findings.json,
    kind "fixed": nothing is suppressed; a failing mapping run is held to the same rule as a successful one.)"""
    if not new_in_scratch:
        return False
    for p in new_in_scratch:
        rel = os.path.relpath(p, scratch).split('/')
        if not rel[0].startswith('result_buffer_'):
            return False
    return True


RESULT_CLASSES = {'result-differs-from-undisturbed-run', 'c19-stale-buffer-consumed', 'c19-concurrent-result-differs',
                  'c19-result-depends-on-scratch-configuration'}
LEFT_CLASSES = {'F9-result-buffer-left-after-failed-mapping', 'scratch-not-restored', 'c19-shared-dir-not-restored',
                'c19-system-tmp-not-restored', 'c19-buffer-dir-not-restored', 'c19-output-dir-has-extra-entries',
                'F9c-result-buffer-left-in-extended-result-dir-after-failed-mapping',
                'F9d-query-marker-file-left-in-system-tmp-without-scratch-dir'}


def no_scratch_given(job):
    return job['stage'] == 'mapping' and job['args']['config']['tmp_dir'] is None


def scratch_class(job, sdir, older_touched):
    """Class of 'a directory given for temporary data is not as it was', by what the history is about."""
    if job['stage'] == 'assign':
        return 'c19-stale-buffer-files-touched' if older_touched else 'c19-shared-dir-not-restored'
    if no_scratch_given(job):
        return 'c19-system-tmp-not-restored' if sdir == job.get('systmp') else 'c19-buffer-dir-not-restored'
    return 'scratch-not-restored'


def under_any(p, dirs):
    return any(p.startswith(d + '/') for d in dirs)


def check_run(ctx, rec, history, baseline=None, region_only=False, expect_ok=None,
              result_class='result-differs-from-undisturbed-run'):
    """(a) + (b) for one traced run.  `baseline`: result_of() of the undisturbed run."""
    job, res = rec['job'], rec['res']
    decl = declare(job)
    label = job['label']
    desc = {'history': history, 'label': label, 'stage': job['stage'], 'ok': res['ok'], 'error': res['error'],
            'n_ops': len(rec['ops']), 'n_late': len(rec['late']), 'notes': rec['notes'], 'job': job}
    ctx.dist('stage', job['stage'])
    ctx.dist('history', history)
    ctx.dist('returned', 'ok' if res['ok'] else 'error')
    ctx.dist('operations-by-descendants-after-return', 'some' if rec['late'] else 'none')
    if res.get('all_descendants_exited') is False:
        ctx.dist('descendants', 'still-alive-after-30s')
    kinds = {}
    for o in rec['ops']:
        kinds[o['k']] = kinds.get(o['k'], 0) + 1
    desc['op_kinds'] = kinds
    nontrivial = len(rec['ops']) >= 10 and kinds.get('Mkdir', 0) >= 1 and kinds.get('Unlink', 0) >= 1
    ctx.count((history, label, ctx.evaluations), nontrivial=nontrivial)
    if expect_ok is not None and res['ok'] != expect_ok:
        d = dict(desc, **{'class': 'c19-run-outcome-unexpected', 'traceback': res.get('traceback')})
        ctx.violation(f'{history}/{label}: run was expected to {"succeed" if expect_ok else "fail"} but '
                      f'{"succeeded" if res["ok"] else "failed: " + str(res["error"])}', d)
        # the run is judged all the same: whatever its outcome it must not have touched its inputs
    before, at_ret, after = res['before'], res['at_return'], res['after']
    scratch = decl['scratch']
    # every directory the run was given for temporary data
    tmp_dirs = [scratch] + [d for d in decl.get('scratch2') or [] if d != scratch]
    out_dirs = sorted({os.path.dirname(p) for p in decl['outputs']}) or [r for r in job['roots'] if r.endswith('/out')]
    no_scratch = no_scratch_given(job)

    # ---------------- (b) the property on the observation
    bad_b = []
    for i in decl['inputs']:
        if decl['obsm'] and i == decl['query']:
            continue
        if before.get(i) != after.get(i) or before.get(i) != at_ret.get(i):
            bad_b.append(('input-modified', f'input {i} changed: {before.get(i)} -> {after.get(i)}'))
    # a directory given for temporary data that also holds the requested outputs is judged as an output directory
    for sdir in [d for d in tmp_dirs if d not in out_dirs]:
        own = (lambda p: True)
        if region_only:
            # a concurrent partner is at work in the same directories: judge only names this run made
            made = {o['p'] for o in rec['ops'] if o['k'] in ('Create', 'Mkdir')} | {o['q'] for o in rec['ops'] if 'q' in o}
            tops = {p for p in made if os.path.dirname(p) == sdir}
            own = (lambda p, tops=tops: any(p == t or p.startswith(t + '/') for t in tops) or p in decl['outputs'])
        sc_before = {p: v for p, v in before.items() if p.startswith(sdir + '/') and own(p)}
        left = []
        for snap_name, snap in (('at return', at_ret), ('after all descendants exited', after)):
            sc_now = {p: v for p, v in snap.items() if p.startswith(sdir + '/') and own(p)}
            if sc_now != sc_before:
                new = sorted(set(sc_now) - set(sc_before))
                gone = sorted(set(sc_before) - set(sc_now))
                chg = sorted(p for p in set(sc_now) & set(sc_before) if sc_now[p] != sc_before[p])
                left.append((snap_name, new, gone, chg))
        if left and (res['ok'] or decl['strict']):
            snap_name, _, gone, chg = left[-1]
            new = sorted({p for x in left for p in x[1]})
            gone_any = sorted({p for x in left for p in x[2]})
            chg_any = sorted({p for x in left for p in x[3]})
            what = f'{sdir} differs {snap_name}: new={new[:6]} gone={gone_any[:6]} changed={chg_any[:6]}'
            if gone_any or chg_any:
                bad_b.append((scratch_class(job, sdir, True), 'entries of earlier runs removed or changed: ' + what))
            # every new entry is classed by the top-level name it sits under
            for p in new:
                top = os.path.relpath(p, sdir).split('/')[0]
                if not res['ok'] and job['stage'] == 'mapping' and top.startswith('result_buffer_'):
                    bad_b.append(('F9-result-buffer-left-after-failed-mapping',
                                  f'failed mapping run left {p} in the scratch directory'))
                elif no_scratch and sdir == job.get('systmp') and p == sdir + '/' + top and \
                        top.startswith('query_marker_') and top.endswith('.h5') and after.get(p, at_ret.get(p)) != 'dir':
                    bad_b.append(('F9d-query-marker-file-left-in-system-tmp-without-scratch-dir',
                                  f'mapping run without a scratch directory left {p} in the system temporary directory'))
                else:
                    bad_b.append((scratch_class(job, sdir, False), f'scratch not restored ({p}): ' + what))
    for od in out_dirs:
        ob = {p: v for p, v in before.items() if p.startswith(od + '/')}
        oa = {p: v for p, v in after.items() if p.startswith(od + '/')}
        if region_only:
            continue
        new = sorted(set(oa) - set(ob))
        extra = [p for p in new if p not in decl['outputs']]
        if extra:
            if no_scratch and not res['ok'] and od in tmp_dirs and f9_only(extra, od):
                bad_b.append(('F9c-result-buffer-left-in-extended-result-dir-after-failed-mapping',
                              f'failed mapping run without a scratch directory left {extra[:4]} in extended_result_dir, '
                              'next to the outputs'))
            elif no_scratch:
                bad_b.append(('c19-output-dir-has-extra-entries',
                              f'run without a scratch directory: the output directory {od} holds entries that are neither '
                              f'older than the run nor requested outputs: {extra[:6]}'))
            else:
                bad_b.append(('created-outside-outputs', f'files created outside the requested outputs: {extra[:6]}'))
        gone = sorted(p for p in set(ob) - set(oa) if p not in decl['outputs'])
        chg = sorted(p for p in set(ob) & set(oa) if ob[p] != oa[p] and p not in decl['outputs'])
        if gone or chg:
            bad_b.append(('bystander-files-changed', f'files of earlier runs in the output directory changed: gone={gone[:6]} changed={chg[:6]}'))
        if res['ok']:
            missing = [p for p in decl['outputs'] if os.path.dirname(p) == od and p not in oa]
            if missing:
                bad_b.append(('output-missing', f'requested outputs missing: {missing}'))
    if not region_only:
        # nothing anywhere else in the sandbox either (input directory, working directory, system temporary
        # directory, directories of other runs ...)
        for p in sorted(set(after) - set(before)):
            if not under_any(p, tmp_dirs) and not under_any(p, out_dirs):
                if job.get('cwd') and p.startswith(job['cwd'] + '/'):
                    bad_b.append(('c19-working-dir-has-new-entries', f'left in the working directory: {p}'))
                elif job.get('systmp') and p.startswith(job['systmp'] + '/'):
                    bad_b.append(('c19-system-tmp-not-restored', f'left in the system temporary directory: {p}'))
                else:
                    bad_b.append(('created-outside-outputs', f'created outside scratch and outputs: {p}'))
        for p in sorted(set(before) - set(after)):
            if not under_any(p, tmp_dirs) and not under_any(p, out_dirs) and p not in decl['inputs']:
                bad_b.append(('bystander-files-changed', f'removed outside scratch and outputs: {p}'))
    if baseline is not None and res['ok']:
        mine = rec.get('result')
        if mine.get('obsm_present') is False:
            bad_b.append(('obsm-result-missing', 'obsm_key was set but the query file has no such obsm entry'))
        for k in sorted((set(baseline) | set(mine)) - {'obsm_present'}):
            if baseline.get(k) != mine.get(k):
                sub = ''
                if isinstance(baseline.get(k), dict) and isinstance(mine.get(k), dict):
                    ks = [x for x in sorted(set(baseline[k]) | set(mine[k])) if baseline[k].get(x) != mine[k].get(x)]
                    sub = f' (entries {ks[:6]}: {str(baseline[k].get(ks[0]))[:200]} vs {str(mine[k].get(ks[0]))[:200]})'
                elif isinstance(baseline.get(k), list) and isinstance(mine.get(k), list):
                    ix = [i for i in range(max(len(baseline[k]), len(mine[k])))
                          if i >= len(baseline[k]) or i >= len(mine[k]) or baseline[k][i] != mine[k][i]]
                    sub = (f' (lengths {len(baseline[k])} vs {len(mine[k])}, entries {ix[:8]} differ: '
                           f'{str(baseline[k][ix[0]] if ix[0] < len(baseline[k]) else None)[:200]} vs '
                           f'{str(mine[k][ix[0]] if ix[0] < len(mine[k]) else None)[:200]})')
                bad_b.append((result_class, f'{k} differs from the undisturbed run{sub}'))
    lp = job['args'].get('config', {}).get('log_path') if job['stage'] == 'mapping' else None
    if lp and lp in before and before[lp] != 'dir' and os.path.exists(lp):
        old = job.get('stale_log_text')
        if old and old in open(lp).read():
            bad_b.append(('log-appended-to-file-of-earlier-run',
                          f'log file {lp} still starts with the text an earlier run left there'))
    if job['stage'] == 'assign':
        # report the dependence of the result first (order of reporting only)
        bad_b.sort(key=lambda x: 0 if x[0] in RESULT_CLASSES else 1)
    seen = set()
    for cls, what in bad_b:
        if cls in seen:
            continue
        seen.add(cls)
        ctx.disagreements_checked += 1
        ctx.violation(f'{history}/{label}: {what}', dict(desc, **{'class': cls, 'detail': [w for c, w in bad_b if c == cls]}))

    # ---------------- (a) correspondence with the acceptor
    if rec['notes'].get('failed_unmapped'):
        ctx.violation(f'{history}/{label}: failed system calls the harness has no reading for: {rec["notes"]["failed_unmapped"][:5]}',
                      dict(desc, **{'class': 'corr:fstrace.failed-call-unmapped'}), no_input=True)
    if rec['notes'].get('reordered'):
        ctx.dist('trace-causally-reordered', 'some')
    rec = drop_cwd_probes(ctx, rec, job, tmp_dirs, out_dirs, decl)
    rec_a = overlay_rec(rec, decl)
    res_a = rec_a['res']
    nm = Namer(all_paths(rec_a, decl, extra=list(res_a['at_return']) + list(res_a['after'])))
    fs0, ids = enc_fs(nm, res_a['before'])
    case = (1901, [enc_config(nm, decl), fs0, enc_trace(nm, rec_a)])
    r = ctx.model([case])[0]
    desc['model'] = r if len(json.dumps(r)) < 2000 else '(long)'
    b_classes = {c for c, _ in bad_b}
    if r[0] != 0:
        ctx.violation(f'{history}/{label}: model could not decode the trace', dict(desc, **{'class': 'corr:FsModel.run_accept'}),
                      no_input=True)
        return rec
    verdict = r[1]
    if verdict[0] == 1:
        idx, code = verdict[1], verdict[2]
        desc['rejected_at'] = describe_op(rec, idx)
        desc['reject_code'] = code
        ctx.dist('acceptor', f'rejected:{code}')
        # a rejection that (b) explains is the same finding seen through the model
        explained = ((code == 7 and (b_classes & LEFT_CLASSES))
                     or (code == 11 and 'log-appended-to-file-of-earlier-run' in b_classes))
        if not explained:
            ctx.disagreements_checked += 1
            ctx.violation(f'{history}/{label}: acceptor rejects the observed trace at op {idx} ({desc["rejected_at"]}): '
                          f'{CODES.get(code, code)}',
                          dict(desc, **{'class': f'acceptor-rejects:{code}', 'ops': [describe_op(rec, i) for i in range(max(0, idx - 5), idx + 1)]}),
                          # the acceptor's codes ARE the clauses of the property (an input written, something made outside
                          # the run's own scratch names and the declared outputs, a stale entry looked at, ...): the job and
                          # the operation it refuses are the failing history
                          no_input=False)
        return rec
    ctx.dist('acceptor', 'accepted')
    ctx.traces_validated += 1
    if bad_b and not (b_classes <= (RESULT_CLASSES | {'output-missing'})):
        ctx.violation(f'{history}/{label}: acceptor accepts a trace although the observation violates the property: {sorted(b_classes)}',
                      dict(desc, **{'class': 'corr:FsModel.accept-too-permissive'}), no_input=True)
    observed = res_a['after']
    region = None
    if region_only:
        fresh = {nm.back[n] for n in verdict[2]}
        tops = {scratch + '/' + n for n in fresh}
        region = (lambda p: any(p == t or p.startswith(t + '/') for t in tops) or p in decl['outputs'] or p in decl['inputs'])
    diffs = compare_final(nm, verdict[1], ids, observed, region)
    if diffs:
        ctx.disagreements_checked += 1
        ctx.violation(f'{history}/{label}: final file system of the model differs from the observed listing: {diffs[:5]}',
                      dict(desc, **{'class': 'corr:FsModel.final-fs', 'diffs': diffs[:20]}), no_input=True)
    return rec


# ------------------------------------------------------------------ scenario preparation
def mapping_inputs(rng, d, n_cells=None):
    sc = pipeline.gen_scenario(rng, n_cells=n_cells or rng.randrange(5, 12))
    d.mkdir(parents=True, exist_ok=True)
    pipeline.write_stats(d / 'stats.h5', sc)
    pipeline.write_markers(d / 'markers.json', sc)
    pipeline.write_query(d / 'query.h5ad', sc, encoding=rng.choice(['dense', 'csr', 'csc']))
    return sc


def sandbox(base, name):
    d = pathlib.Path(base) / name
    for s in ('in', 'out', 'tmp'):
        (d / s).mkdir(parents=True, exist_ok=True)
    return d


def roots_of(sb):
    return [str(sb / 'in'), str(sb / 'out'), str(sb / 'tmp')]


def with_process_dirs(job, sb):
    """Give the run a system temporary directory (TMPDIR) and a working directory of its own inside the
    sandbox, so that what it does there is traced and listed like everything else."""
    for s in ('systmp', 'cwd', 'tmp2'):
        (sb / s).mkdir(parents=True, exist_ok=True)
    job['systmp'] = str(sb / 'systmp')
    job['cwd'] = str(sb / 'cwd')
    job['roots'] = roots_of(sb) + [str(sb / 'systmp'), str(sb / 'cwd'), str(sb / 'tmp2')]
    return job


def mapping_job(label, sb, src, tag, *, same_names=False, log=True, obsm_key=None, fault=None,
                n_processors=2, chunk_size=3, seed=5, break_input=None, private_query=False, pre=None,
                no_scratch=None, query_of=None):
    """A mapping job in sandbox `sb`; inputs are copies of src/* placed in sb/in once."""
    ind = sb / 'in'
    for fn in ('stats.h5', 'markers.json', 'query.h5ad'):
        if not (ind / fn).exists():
            shutil.copy(src / fn, ind / fn)
    q = ind / 'query.h5ad'
    if private_query:
        q = ind / f'query_{tag}.h5ad'
        shutil.copy(src / 'query.h5ad', q)
    if query_of is not None:
        q = ind / f'query_{query_of}.h5ad'          # the private query an earlier job of this history wrote into
    markers = ind / 'markers.json'
    if break_input == 'markers':
        markers = ind / f'markers_broken_{tag}.json'
        markers.write_text(json.dumps({'None': ['not_a_gene_1', 'not_a_gene_2']}))
    cfg = pipeline.config_for(sb, q, ind / 'stats.h5', markers, n_processors=n_processors, chunk_size=chunk_size,
                              rng_seed=seed, obsm_key=obsm_key)
    sfx = '' if same_names else f'_{tag}'
    cfg['extended_result_path'] = str(sb / 'out' / f'result{sfx}.json')
    cfg['csv_result_path'] = str(sb / 'out' / f'result{sfx}.csv')
    cfg['hdf5_result_path'] = str(sb / 'out' / f'result{sfx}.h5')
    cfg['log_path'] = str(sb / 'out' / f'log{sfx}.txt') if log else None
    if break_input == 'stats':
        bad = ind / f'stats_broken_{tag}.h5'
        with h5py.File(bad, 'w') as f_:
            f_.create_dataset('not_a_stats_file', data=np.arange(3))
        cfg['precomputed_stats']['path'] = str(bad)
    job = {'label': label, 'stage': 'mapping', 'args': {'config': cfg}, 'fault': fault, 'pre': pre,
           'roots': roots_of(sb)}
    with_process_dirs(job, sb)
    if no_scratch is not None:
        # tmp_dir=None (the schema allows it): temporary files in the system temporary directory, the result
        # buffer in extended_result_dir: the output directory ('out'), another directory ('tmp'), or (None) the
        # system temporary directory as well
        cfg['tmp_dir'] = None
        cfg['extended_result_dir'] = {'out': str(sb / 'out'), 'tmp': str(sb / 'tmp'), 'none': None}[no_scratch]
    return job


def run_batches(ctx, batches, name):
    wd = ctx.scratch / 'trace' / name
    recs = fstrace.run_children(batches, wd)
    for b in recs:
        for rec in b:
            rec['result'] = rec['res'].get('collected')
    return recs


STALE_LOG = 'LOG LINE OF AN EARLIER RUN -- ctm-verif stale marker\n'


# ------------------------------------------------------------------ histories of the mapping stage
def history_mapping(ctx, k):
    rng = ctx.rng
    base = ctx.scratch / f'm{k}'
    src = base / 'src'
    sc = mapping_inputs(rng, src)
    fresh = sandbox(base, 'fresh')
    shared = sandbox(base, 'shared')
    kw = dict(n_processors=rng.choice([1, 2, 3]), chunk_size=rng.choice([2, 3, 4]), seed=rng.randrange(10 ** 6))
    # election.run_type_assignment_on_h5ad_cpu: chunk_size = min(ceil(n_rows / n_processors), chunk_size)
    n_rows = len(sc.cell_ids)
    eff = min(max(1, -(-n_rows // kw['n_processors'])), kw['chunk_size'])
    bad_r0 = eff * rng.randrange(-(-n_rows // eff))
    plant = {'plant': {'dirs': [str(shared / 'tmp'), str(shared / 'out')], 'seed': rng.randrange(10 ** 6)}}
    log_r4 = str(shared / 'out' / 'log_r4.txt')
    fail_kinds = ['markers', 'stats']
    jobs = [
        (mapping_job('baseline', fresh, src, 'b', **kw), 'undisturbed', True),
        (mapping_job('first', shared, src, 'r1', **kw), 'first-in-shared-dirs', True),
        (mapping_job('again-same-names', shared, src, 'r1', **kw, log=False), 'success-after-success', True),
        (mapping_job('fail-invalid-input', shared, src, 'f1', break_input=rng.choice(fail_kinds), **kw), 'failing-run', False),
        (mapping_job('after-failure', shared, src, 'r2', **kw), 'success-after-failure', True),
        (mapping_job('fail-worker-exit', shared, src, 'f2',
                     fault={'how': rng.choice(['exit', 'raise']), 'code': 3, 'r0': bad_r0}, **kw), 'failing-run-worker', False),
        (mapping_job('after-worker-failure', shared, src, 'r3', **kw), 'success-after-failure', True),
        (mapping_job('stale-planted', shared, src, 'r1', pre=plant, **kw, log=False), 'stale-files-planted', True),
        (mapping_job('obsm', shared, src, 'o1', obsm_key='ctm_verif', private_query=True, **kw), 'obsm-key-set', True),
        # the boundary value of obsm_key that requests nothing ('' besides None), on the query all runs share:
        # before and after a run that does store (private copy), so that an obsm group exists or not
        (mapping_job('obsm-key-empty', shared, src, 'e1', obsm_key='', **kw), 'obsm-key-empty-string', True),
        (mapping_job('obsm-then-empty-key', shared, src, 'o1', obsm_key='', query_of='o1', log=False, **kw),
         'obsm-key-empty-string-after-obsm-run', True),
        (mapping_job('log-exists', shared, src, 'r4', pre={'write': {log_r4: STALE_LOG}}, **kw), 'log-file-of-earlier-run', True),
    ]
    jobs[-1][0]['stale_log_text'] = STALE_LOG.strip()
    # ---- the same mapping without a scratch directory (tmp_dir=None): first in fresh directories, then in the
    # shared ones (stale files under every temporary-name pattern also in the system temporary directory)
    fresh_ns = sandbox(base, 'fresh_ns')
    plant_sys = {'plant': {'dirs': [str(shared / 'systmp')], 'seed': rng.randrange(10 ** 6)}}
    H = 'no-scratch-dir:'
    jobs += [
        (mapping_job('noscratch-fresh', fresh_ns, src, 'n0', no_scratch='out', **kw), H + 'first-in-fresh-dirs', True),
        # (no draw from the PRNG here: the other jobs of the history keep the parameters they had before this one existed)
        (mapping_job('noscratch-obsm-key-empty', fresh_ns, src, 'n0e', no_scratch=['out', 'none', 'tmp'][k % 3],
                     obsm_key='', **kw), H + 'obsm-key-empty-string', True),
        (mapping_job('noscratch-buffer-in-output-dir', shared, src, 'n1', no_scratch='out', pre=plant_sys, **kw),
         H + 'buffer-in-output-dir', True),
        (mapping_job('noscratch-again-same-names', shared, src, 'n1', no_scratch='out', log=False, **kw),
         H + 'success-after-success', True),
        (mapping_job('noscratch-buffer-in-system-tmp', shared, src, 'n2', no_scratch='none', **kw),
         H + 'buffer-in-system-tmp', True),
        (mapping_job('noscratch-buffer-in-other-dir', shared, src, 'n3', no_scratch='tmp', **kw),
         H + 'buffer-in-other-dir', True),
        (mapping_job('noscratch-fail-invalid-input', shared, src, 'n4', no_scratch='out',
                     break_input=rng.choice(fail_kinds), **kw), H + 'failing-run', False),
        (mapping_job('noscratch-after-failure', shared, src, 'n5', no_scratch=rng.choice(['out', 'none', 'tmp']), **kw),
         H + 'success-after-failure', True),
        # a worker dies at once (no delay: its siblings may still be writing into the result buffer -- which then
        # also holds the query-marker cache -- while run_mapping's finally block removes it)
        (mapping_job('noscratch-fail-worker-exit', shared, src, 'n6', no_scratch=rng.choice(['out', 'none', 'tmp']),
                     fault={'how': rng.choice(['exit', 'raise']), 'code': 3, 'r0': bad_r0}, **kw),
         H + 'failing-run-worker', False),
        (mapping_job('noscratch-after-worker-failure', shared, src, 'n7', no_scratch=rng.choice(['out', 'none', 'tmp']), **kw),
         H + 'success-after-failure', True),
    ]
    recs = run_batches(ctx, [[j for j, _, _ in jobs]], f'seq{k}')[0]
    baseline = recs[0]['result']
    for rec, (_, hist, exp) in zip(recs, jobs):
        check_run(ctx, rec, hist, None if hist == 'undisturbed' else baseline, expect_ok=exp)
    if k == 0:
        for rec in recs[:2]:
            ctx.sample({'label': rec['job']['label'],
                        'ops': [describe_op(rec, i) for i in range(min(14, len(rec['ops'])))]}, limit=2)
    return base, src, kw, baseline


def history_concurrent(ctx, k, base, src, kw, baseline):
    """Two mapping runs at the same time, same scratch and output directories."""
    rng = ctx.rng
    sb = sandbox(base, f'conc{k}')
    obsm = rng.random() < 0.5
    ja = mapping_job('concurrent-A', sb, src, 'A', obsm_key='ctm_verif' if obsm else None, private_query=obsm, **kw)
    jb = mapping_job('concurrent-B', sb, src, 'B', **kw)
    concurrent_pair(ctx, k, sb, ja, jb, baseline, baseline, 'concurrent')


def concurrent_pair(ctx, k, sb, ja, jb, baseline_a, baseline_b, history,
                    result_class='result-differs-from-undisturbed-run'):
    """Two runs at the same time in the same directories: each judged on its own (region), then the pair as ONE
    interleaving through the two-run acceptor."""
    wd = ctx.scratch / 'trace' / f'conc{k}'
    wd.mkdir(parents=True, exist_ok=True)
    ja['wait_for'] = {'mine': str(wd / 'readyA'), 'other': str(wd / 'readyB')}
    jb['wait_for'] = {'mine': str(wd / 'readyB'), 'other': str(wd / 'readyA')}
    roots = sorted(set(ja['roots']) | set(jb['roots']))
    before = fstrace.snapshot(roots)
    (ra,), (rb,) = run_batches(ctx, [[ja], [jb]], f'conc{k}')
    after = fstrace.snapshot(roots)
    overlap = ra['t0'] < rb['t1'] and rb['t0'] < ra['t1']
    ctx.dist('concurrent-overlap', 'overlapping' if overlap else 'not-overlapping')
    for rec, bl in ((ra, baseline_a), (rb, baseline_b)):
        check_run(ctx, rec, history, bl, region_only=True, expect_ok=True, result_class=result_class)
    # what the pair leaves together: nothing but the requested outputs (each run alone is judged on the names it made)
    da, db = declare(ja), declare(jb)
    wanted = set(da['outputs']) | set(db['outputs'])
    wr = {da['query']} if da['obsm'] else set()
    wr |= {db['query']} if db['obsm'] else set()
    new = sorted(p for p in set(after) - set(before) if p not in wanted)
    gone = sorted(set(before) - set(after))
    chg = sorted(p for p in set(before) & set(after) if before[p] != after[p] and p not in wanted and p not in wr)
    if (new or gone or chg) and ra['res']['ok'] and rb['res']['ok']:
        ctx.violation(f'{history} pair {k}: after both runs returned the shared directories are not what they were plus the '
                      f'requested outputs: new={new[:6]} gone={gone[:6]} changed={chg[:6]}',
                      {'class': 'c19-concurrent-pair-left-something', 'history': history, 'jobs': [ja, jb],
                       'new': new[:20], 'gone': gone[:20], 'changed': chg[:20]})
    if da.get('scratch2') or db.get('scratch2'):
        raise RuntimeError('concurrent pairs are run with ONE directory for temporary data (the two-run model has one scratch root)')
    # the pair as ONE interleaving through the two-run acceptor
    def _dirs(job, decl):
        return ([decl['scratch']] + list(decl.get('scratch2') or []),
                sorted({os.path.dirname(p) for p in decl['outputs']}) or [r for r in job['roots'] if r.endswith('/out')])
    ra = drop_cwd_probes(ctx, ra, ja, *_dirs(ja, da), da)
    rb = drop_cwd_probes(ctx, rb, jb, *_dirs(jb, db), db)
    paths = set(before) | set(after) | all_paths(ra, da) | all_paths(rb, db)
    nm = Namer(paths)
    fs0, ids = enc_fs(nm, before)
    tagged = []
    for who, rec in ((1, ra), (0, rb)):
        for i, o in enumerate(rec['ops']):
            tagged.append((o['t'], len(tagged), [who, enc_op(nm, o, (1000 if who else 3000) + i)]))
        tagged.append((rec['t1'], len(tagged), [who, [8, 1 if rec['res']['ok'] else 0]]))
    tagged.sort(key=lambda x: (x[0], x[1]))
    il = [x[2] for x in tagged]
    switches = sum(1 for i in range(1, len(il)) if il[i][0] != il[i - 1][0])
    ctx.dist('interleaving-switches', 'none' if switches <= 1 else ('<10' if switches < 10 else '>=10'))
    r = ctx.model([(1902, [enc_config(nm, da), enc_config(nm, db), fs0, il])])[0]
    desc = {'history': history + '-pair', 'jobs': [ja, jb], 'n_ops': len(il), 'switches': switches,
            'model': r if len(json.dumps(r)) < 1500 else '(long)'}
    ctx.count((history + '-pair', k), nontrivial=overlap and switches >= 2)
    if r[0] != 0 or r[1][0] != 0:
        ctx.disagreements_checked += 1
        ctx.violation(f'concurrent pair {k}: the two-run acceptor rejects the observed interleaving: {r}',
                      dict(desc, **{'class': 'acceptor2-rejects'}), no_input=True)
        return
    if r[1][2] != 1:
        ctx.violation(f'concurrent pair {k}: the runs are not compatible in the sense of the theorem (shared fresh names or '
                      'overlapping declared files)', dict(desc, **{'class': 'concurrent-not-compatible'}))
    ctx.traces_validated += 1
    diffs = compare_final(nm, r[1][1], ids, after)
    if diffs:
        ctx.disagreements_checked += 1
        ctx.violation(f'concurrent pair {k}: final file system of the two-run model differs from the listing: {diffs[:5]}',
                      dict(desc, **{'class': 'corr:FsModel.final-fs-2', 'diffs': diffs[:20]}), no_input=True)


# ------------------------------------------------------------------ the type-assignment stage called directly
BUFFER_ALPHABET = 'abcdefghijklmnopqrstuvwxyz0123456789_'      # tempfile._RandomNameSequence.characters


def random_suffix(rng):
    return ''.join(rng.choice(BUFFER_ALPHABET) for _ in range(8))


def buffer_names(rng):
    """Every plausible name of the stage's per-chunk buffer directory below results_output_path: the mkdtemp
    pattern election.py uses (results_buffer_<8 random characters>), the pattern run_mapping uses for the
    directory it hands in (result_buffer_<...>), the bare names, and a buffer inside run_mapping's buffer."""
    return ['results_buffer_' + random_suffix(rng), 'results_buffer_' + random_suffix(rng), 'results_buffer',
            'result_buffer', 'result_buffer_' + random_suffix(rng), 'results_buffer_', 'results_buffer_stale',
            'result_buffer_' + random_suffix(rng) + '/results_buffer']


def effective_chunk(n_rows, n_processors, chunk_size):
    # election.run_type_assignment_on_h5ad_cpu: chunk_size = min(ceil(n_rows / n_processors), chunk_size)
    return min(max(1, -(-n_rows // n_processors)), chunk_size)


def chunk_names(n_rows, c):
    return {(r0, min(n_rows, r0 + c)): f'{r0}_{min(n_rows, r0 + c)}_assignment.json' for r0 in range(0, n_rows, c)}


def stale_wins_somewhere(n_rows, c_stale, c_now):
    """Would a stage that collected EVERY *.json of a buffer directory (sorted by name, later entries replacing
    earlier ones per cell) hand back a stale cell?  True iff some stale chunk file sorts after the current
    run's file for one of its rows."""
    now = chunk_names(n_rows, c_now)
    for (s0, s1), sn in chunk_names(n_rows, c_stale).items():
        for (r0, r1), rn in now.items():
            if max(s0, r0) < min(s1, r1) and sn > rn:
                return True
    return False


def assign_inputs(ctx, rng, d):
    """A mapping scenario, a second query with the SAME cell ids (other cells), and the query-marker cache built
    (untraced) exactly as cli/from_specified_markers.py:_run_mapping builds it before it calls the stage."""
    from cell_type_mapper.taxonomy.taxonomy_tree import TaxonomyTree
    from cell_type_mapper.type_assignment.marker_cache_v2 import create_marker_cache_from_specified_markers
    for attempt in range(8):
        shutil.rmtree(d, ignore_errors=True)
        sc = mapping_inputs(rng, d, n_cells=rng.randrange(6, 14))
        # the earlier run's query: same obs index, every cell replaced by another one
        shift = rng.randrange(1, len(sc.cell_ids))
        earlier = np.roll(np.asarray(sc.query), shift, axis=0)
        pipeline.write_query(d / 'query_earlier.h5ad', sc, encoding=rng.choice(['dense', 'csr', 'csc']), query=earlier)
        with h5py.File(d / 'stats.h5', 'r') as f:
            tree = TaxonomyTree.from_str(serialized_dict=f['taxonomy_tree'][()].decode('utf-8'))
            ref_genes = json.loads(f['col_names'][()].decode('utf-8'))
        try:
            with quiet():
                create_marker_cache_from_specified_markers(
                    marker_lookup=json.load(open(d / 'markers.json')), reference_gene_names=ref_genes,
                    query_gene_names=[pipeline.gname(g) for g in sc.query_genes],
                    output_cache_path=d / 'marker_cache.h5', taxonomy_tree=tree, min_markers=2)
        except Exception as e:    # noqa
            ctx.dist('assign-input-preparation', f'regenerated after {type(e).__name__}')
            continue
        ctx.dist('assign-input-preparation', 'ok')
        return sc
    raise RuntimeError('could not generate a scenario whose marker cache can be built')


def assign_job(label, sb, src, which, *, n_processors, chunk_size, seed, tmp='same', fault=None, pre=None):
    ind = sb / 'in'
    for fn in ('stats.h5', 'marker_cache.h5', 'query.h5ad', 'query_earlier.h5ad'):
        if not (ind / fn).exists():
            shutil.copy(src / fn, ind / fn)
    job = {'label': label, 'stage': 'assign', 'fault': fault, 'pre': pre,
           'args': {'query': str(ind / ('query.h5ad' if which == 'now' else 'query_earlier.h5ad')),
                    'stats': str(ind / 'stats.h5'), 'marker_cache': str(ind / 'marker_cache.h5'),
                    'n_processors': n_processors, 'chunk_size': chunk_size, 'bootstrap_factor': 0.5,
                    'bootstrap_iteration': 5, 'rng_seed': seed, 'n_assignments': 3, 'normalization': 'log2CPM',
                    'results_output_path': str(sb / 'tmp')}}
    with_process_dirs(job, sb)
    # where the stage may rewrite the query: the shared directory itself, another shared directory, or (no
    # tmp_dir) the system temporary directory
    job['args']['tmp_dir'] = {'same': str(sb / 'tmp'), 'other': str(sb / 'tmp2'), 'none': None}[tmp]
    return job


def history_assign(ctx, k):
    """run_type_assignment_on_h5ad (what run_mapping calls) called directly with a results_output_path that is
    shared: with what a killed earlier run left there (under every plausible buffer name), after a run that
    really was killed, after a successful run, and by two runs at the same time."""
    rng = ctx.rng
    base = ctx.scratch / f'a{k}'
    src = base / 'src'
    sc = assign_inputs(ctx, rng, src)
    n_rows = len(sc.cell_ids)
    now = dict(n_processors=rng.choice([1, 2, 3]), chunk_size=rng.randrange(2, 6), seed=rng.randrange(10 ** 6))
    c_now = effective_chunk(n_rows, now['n_processors'], now['chunk_size'])
    # the earlier run: another chunk size; preferably one whose left-over files would win over the current ones
    np_e = rng.choice([1, 2, 3])
    cands = [c for c in range(1, n_rows + 1) if effective_chunk(n_rows, np_e, c) == c and c != c_now]
    good = [c for c in cands if stale_wins_somewhere(n_rows, c, c_now)]
    c_e = rng.choice(good or cands)
    ctx.dist('assign-stale-chunk-files-sort-after-current', bool(good))
    earlier = dict(n_processors=np_e, chunk_size=c_e, seed=rng.randrange(10 ** 6))
    fresh_now, fresh_e, shared = sandbox(base, 'fresh_now'), sandbox(base, 'fresh_earlier'), sandbox(base, 'shared')
    names = buffer_names(rng)
    dirs = [str(shared / 'tmp' / n) for n in names]
    plant = {'plant': {'dirs': [str(shared / 'tmp'), str(shared / 'out'), str(shared / 'systmp'), str(shared / 'tmp2')],
                       'seed': rng.randrange(10 ** 6)}}
    stale1 = dict(plant, stale_chunks={'from': 'assign-earlier', 'chunk_size': c_e, 'dirs': dirs})
    stale2 = {'stale_chunks': {'from': 'assign-earlier', 'chunk_size': c_now, 'dirs': dirs}}
    bad_r0 = c_e * rng.randrange(1, -(-n_rows // c_e)) if n_rows > c_e else 0
    fault = {'how': rng.choice(['exit', 'raise']), 'code': 3, 'r0': bad_r0, 'delay': 0.3}
    tmps = ['same', 'other', 'none']
    H = 'assign-stage:'
    jobs = [
        (assign_job('assign-undisturbed', fresh_now, src, 'now', tmp=rng.choice(tmps), **now), H + 'undisturbed', True, None),
        (assign_job('assign-earlier', fresh_e, src, 'earlier', tmp=rng.choice(tmps), **earlier), H + 'undisturbed', True, None),
        (assign_job('assign-stale-buffers', shared, src, 'now', tmp='same', pre=stale1, **now),
         H + 'stale-chunk-files-under-every-buffer-name', True, 'now'),
        (assign_job('assign-stale-buffers-same-file-names', shared, src, 'now', tmp=rng.choice(tmps), pre=stale2, **now),
         H + 'stale-chunk-files-named-like-this-runs', True, 'now'),
        (assign_job('assign-killed', shared, src, 'earlier', tmp='same', fault=fault, **earlier), H + 'failing-run-worker', False, None),
        (assign_job('assign-after-killed', shared, src, 'now', tmp=rng.choice(tmps), **now), H + 'success-after-failure', True, 'now'),
        (assign_job('assign-again', shared, src, 'earlier', tmp=rng.choice(tmps), **earlier), H + 'success-after-success', True, 'earlier'),
    ]
    recs = run_batches(ctx, [[j for j, _, _, _ in jobs]], f'assign{k}')[0]
    base_now, base_e = recs[0]['result'], recs[1]['result']
    differs = base_now != base_e
    ctx.dist('assign-earlier-result-differs-from-current', differs)
    for rec, (job, hist, exp, cmp_to) in zip(recs, jobs):
        bl = {'now': base_now, 'earlier': base_e, None: None}[cmp_to]
        stale_hist = 'stale' in hist or hist.endswith('success-after-failure')
        check_run(ctx, rec, hist, bl, expect_ok=exp,
                  result_class='c19-stale-buffer-consumed' if stale_hist else 'result-differs-from-undisturbed-run')
    if k == 0:
        ctx.sample({'label': recs[2]['job']['label'], 'buffer_names_planted': names, 'chunk_now': c_now, 'chunk_earlier': c_e,
                    'ops': [describe_op(recs[2], i) for i in range(min(14, len(recs[2]['ops'])))]}, limit=3)
    # ---- two direct calls at the same time, one directory for everything temporary
    sb = sandbox(base, 'conc')
    ja = assign_job('assign-concurrent-A', sb, src, 'earlier', tmp='same', **earlier)
    jb = assign_job('assign-concurrent-B', sb, src, 'now', tmp='same', **now)
    concurrent_pair(ctx, f'a{k}', sb, ja, jb, base_e, base_now, 'assign-stage:concurrent',
                    result_class='c19-concurrent-result-differs')
    shutil.rmtree(base, ignore_errors=True)


# ------------------------------------------------------------------ the other three stages
def quiet():
    return contextlib.redirect_stdout(io.StringIO())


def reference_inputs(rng, d):
    """Generated reference h5ad + (untraced) statistics and reference markers for later stages."""
    from cell_type_mapper.diff_exp.precompute_from_anndata import precompute_summary_stats_from_h5ad
    from cell_type_mapper.diff_exp.markers import find_markers_for_all_taxonomy_pairs
    from cell_type_mapper.taxonomy.taxonomy_tree import TaxonomyTree
    from harness import mapcheck
    d.mkdir(parents=True, exist_ok=True)
    gt = trees.random_tree(rng, max_levels=rng.choice([2, 3]), max_leaves=5, p_single=0.2)
    leaves = [n for n, _ in gt.model[-1]]
    ng = rng.randrange(14, 24)
    prof = {lf: [rng.choice([0, 0, 0, 20, 50, 200]) for _ in range(ng)] for lf in leaves}
    rows, labels = [], []
    L = len(gt.levels)
    for lf in leaves:
        for _ in range(rng.randrange(4, 7)):
            rows.append([max(0, p + rng.randrange(-2, 3)) if p > 0 else rng.choice([0, 0, 0, 1]) for p in prof[lf]])
            lab = [None] * L
            lab[L - 1] = gt.name(lf)
            cur = lf
            for li in range(L - 1, 0, -1):
                cur = mapcheck.parent_of(gt.model, li, cur)
                lab[li - 1] = gt.name(cur)
            labels.append(lab)
    order = list(range(len(rows)))
    rng.shuffle(order)
    M = np.array([rows[i] for i in order], dtype=np.float32)
    obs = {gt.levels[i]: [labels[j][i] for j in order] for i in range(L)}
    genes = [pipeline.gname(g) for g in range(ng)]
    enc = rng.choice(['csr', 'csc', 'dense'])
    gen.write_h5ad(d / 'ref.h5ad', M, [f'r{i}' for i in range(len(rows))], genes, encoding=enc, obs_cols=obs)
    (d / 'ptmp').mkdir(exist_ok=True)
    buf = io.StringIO()
    with contextlib.redirect_stdout(buf), contextlib.redirect_stderr(buf):
        precompute_summary_stats_from_h5ad(d / 'ref.h5ad', gt.levels, None, d / 'stats.h5', rows_at_a_time=5,
                                           normalization='raw', tmp_dir=str(d / 'ptmp'), n_processors=2)
        tree = TaxonomyTree.from_precomputed_stats(d / 'stats.h5')
        find_markers_for_all_taxonomy_pairs(d / 'stats.h5', tree, d / 'refm.h5', n_processors=2,
                                            tmp_dir=str(d / 'ptmp'), max_gb=1)
    qgenes = list(genes)
    rng.shuffle(qgenes)
    return {'levels': gt.levels, 'genes': genes, 'qgenes': qgenes, 'encoding': enc}


def stage_jobs(sb, src, info, tag, params, pre=None, copy_data_over=False):
    ind = sb / 'in'
    for fn in ('ref.h5ad', 'stats.h5'):
        if not (ind / fn).exists():
            shutil.copy(src / fn, ind / fn)
    if not (ind / 'refm.h5').exists():
        shutil.copy(src / 'refm.h5', ind / 'refm.h5')
        # what cli/reference_markers.py adds to the file it writes
        with h5py.File(ind / 'refm.h5', 'a') as f:
            if 'metadata' in f:
                del f['metadata']
            f.create_dataset('metadata', data=json.dumps({'precomputed_path': str(ind / 'stats.h5')}).encode('utf-8'))
    roots = roots_of(sb)
    tmp = str(sb / 'tmp')
    jobs = [
        {'label': f'stats-{tag}', 'stage': 'stats', 'roots': roots, 'pre': pre,
         'args': {'h5ad': str(ind / 'ref.h5ad'), 'levels': info['levels'], 'out': str(sb / 'out' / 'stats_out.h5'),
                  'rows_at_a_time': params['rows'], 'tmp_dir': tmp, 'n_processors': params['np'],
                  'copy_data_over': copy_data_over}},
        {'label': f'refmarkers-{tag}', 'stage': 'refmarkers', 'roots': roots,
         'args': {'stats': str(ind / 'stats.h5'), 'out': str(sb / 'out' / 'refm_out.h5'), 'tmp_dir': tmp,
                  'n_processors': params['np']}},
        {'label': f'qmarkers-{tag}', 'stage': 'qmarkers', 'roots': roots,
         'args': {'refm': str(ind / 'refm.h5'), 'stats': str(ind / 'stats.h5'), 'query_genes': info['qgenes'],
                  'n_per_utility': params['npu'], 'n_processors': params['np'], 'behemoth_cutoff': params['behemoth'],
                  'tmp_dir': tmp}},
    ]
    # (not given a system temporary / working directory of their own: these stages use multiprocessing.Manager,
    # whose pymp-* directory in the system temporary directory lives until the interpreter exits)
    return jobs


def history_stages(ctx, k):
    rng = ctx.rng
    base = ctx.scratch / f's{k}'
    src = base / 'src'
    info = None
    for attempt in range(6):
        try:
            info = reference_inputs(rng, src)
            break
        except Exception as e:     # noqa
            # the UNTRACED preparation (statistics + reference markers of a generated reference) raised:
            # a matter of C11/C13/C18 (e.g. a reference without any marker for some pair), not of C19
            ctx.dist('reference-preparation', f'regenerated after {type(e).__name__}')
            shutil.rmtree(src, ignore_errors=True)
    if info is None:
        raise RuntimeError('could not generate a reference the preparatory stages accept')
    ctx.dist('reference-preparation', 'ok')
    shutil.rmtree(src / 'ptmp', ignore_errors=True)
    fresh = sandbox(base, 'fresh')
    shared = sandbox(base, 'shared')
    params = {'rows': rng.randrange(3, 12), 'np': rng.randrange(1, 4), 'npu': rng.randrange(2, 6),
              'behemoth': rng.choice([0, 1000])}
    plant = {'plant': {'dirs': [str(shared / 'tmp'), str(shared / 'out')], 'seed': rng.randrange(10 ** 6)}}
    j0 = stage_jobs(fresh, src, info, 'undisturbed', params)
    j1 = stage_jobs(shared, src, info, 'stale', params, pre=plant)
    # the third round runs the statistics stage with copy_data_over=True (the reference is copied into a buffer
    # directory inside the stage's own scratch sub-directory first): same statistics, nothing left behind
    j2 = stage_jobs(shared, src, info, 'again', params, copy_data_over=True)
    ctx.dist('stats-stage.copy_data_over', 'False x2, True x1')
    recs = run_batches(ctx, [j0 + j1 + j2], f'stages{k}')[0]
    for i, rec in enumerate(recs):
        hist = ['undisturbed', 'stale-files-planted', 'success-after-success'][i // 3]
        check_run(ctx, rec, hist, None if i < 3 else recs[i % 3]['result'], expect_ok=True)


# ------------------------------------------------------------------ an output path that is a dangling symbolic link
F30 = 'F30-probe-writes-junk-through-dangling-symlink-output'


def history_symlink(ctx, k):
    """The models of C19 speak about resolved paths without symbolic links (FsModel.v header).  One real boundary case
    is checked on the observation alone: a requested output path (JSON result or log) that is a DANGLING symbolic link
    into another directory.  run_mapping's probe `if not pth.exists(): open(pth, 'w').write('junk'); pth.unlink()`
    follows the link when it writes and removes the link itself: a file holding 'junk' is left at the link target --
    a file created outside the requested output locations (finding F30)."""
    rng = ctx.rng
    base = ctx.scratch / f'sl{k}'
    src = base / 'src'
    mapping_inputs(rng, src)
    sb = sandbox(base, 'box')
    other = sb / 'elsewhere'
    other.mkdir()
    which = ['extended_result_path', 'log_path'][k % 2]
    job = mapping_job('dangling-symlink-output', sb, src, 'sl', n_processors=rng.choice([1, 2]),
                      chunk_size=rng.choice([2, 3, 4]), seed=rng.randrange(10 ** 6))
    cfg = job['args']['config']
    link, target = cfg[which], str(other / 'target_of_link.txt')
    job['pre'] = {'symlinks': {link: target}}
    job['roots'] = job['roots'] + [str(other)]
    rec = run_batches(ctx, [[job]], f'symlink{k}')[0][0]
    res = rec['res']
    before, after = res['before'], res['after']
    ctx.dist('history', 'output-path-is-dangling-symlink:' + which)
    declared = {cfg[x] for x in ('extended_result_path', 'csv_result_path', 'hdf5_result_path', 'log_path') if cfg.get(x)}
    # the requested location IS the link: what is written through it lands at its target, which is therefore a
    # requested output location too -- provided it holds the output (not the probe's 'junk') and the link is still
    # a link afterwards
    try:
        target_is_junk = pathlib.Path(target).read_bytes() == b'junk'
    except OSError:
        target_is_junk = False
    link_kept = os.path.islink(link)
    if not target_is_junk and link_kept:
        declared.add(target)
    ctx.dist('dangling-symlink-output', 'written through the link' if (not target_is_junk and link_kept) else
             ('junk left at the target' if target_is_junk else 'link replaced'))
    stray = sorted(p for p in after if p not in before and p not in declared and not p.startswith(str(sb / 'out') + '/')
                   and not under_any(p, [str(sb / 'systmp'), str(sb / 'cwd')]))
    stray += sorted(p for p in after if p.startswith(str(sb / 'out') + '/') and p not in before and p not in declared)
    ctx.count(('symlink-output', which, bool(res.get('ok')), len(stray)), nontrivial=True)
    desc = {'history': 'output-path-is-dangling-symlink', 'which': which, 'link': os.path.relpath(link, sb),
            'link_target': os.path.relpath(target, sb), 'run_ok': res.get('ok'), 'error': res.get('error'),
            'new_outside_requested_outputs': [os.path.relpath(p, sb) for p in stray]}
    for p in stray:
        junk = False
        try:
            junk = pathlib.Path(p).read_bytes() == b'junk'
        except OSError:
            pass
        d = dict(desc)
        d['class'] = F30 if (p == target and junk) else 'file-created-outside-requested-outputs'
        ctx.violation(f"run_mapping with {which} a dangling symbolic link: {os.path.relpath(p, sb)} was created outside the "
                      f"requested output locations" + (" (it holds the probe's 'junk')" if junk else ''), d)
    shutil.rmtree(base, ignore_errors=True)


def run(ctx):
    ctx.rule = ('one traced run of a real stage (strace of a child interpreter); non-trivial = the trace has >= 10 '
                'operations on the sandbox directories including a Mkdir and an Unlink; a concurrent pair is '
                'non-trivial when the two runs overlap in time and the merged trace switches between them')
    ctx.assumptions += [
        'observed through strace -f on openat/open/creat/mkdir(at)/unlink(at)/rmdir/rename(at)(2)/getdents64 and on the '
        'observations stat/lstat/newfstatat/statx/access/faccessat(2)/readlink(at): every look at a path below the sandbox '
        'roots (exists(), is_file(), os.stat, opening a directory, a call that fails with ENOENT/ENOTDIR/EEXIST/EISDIR) is '
        'an operation `Stat p answer` of the model, refused (code 12) unless p is declared, an ancestor of a declared path, '
        'or at/below a name the run made itself in the scratch root; fstat of an open descriptor (AT_EMPTY_PATH) is not an '
        'operation (the open is); a failed call with another errno is reported (corr:fstrace.failed-call-unmapped)',
        'looks (Stat) at paths below the working directory of the run -- which is none of the directories the property '
        'speaks about -- are counted (distribution.looks-into-working-directory-dropped) and not given to the acceptor: '
        "observed is linecache resolving the relative source name 'h5py/_objects.pyx' of a Cython frame when run_mapping "
        'formats the traceback of a failing run; anything else there (a file made, read, listed) stays in the trace',
        'strace -f logs a call when it handles its exit: a call of one process that succeeded on p (or was told p exists) '
        'and is logged within 50 ms behind the removal of p by ANOTHER process, with nothing re-creating p in between, is moved '
        'in front of that removal, and a call that was told p is absent, logged while p exists just in front of its removal '
        'by another process, is moved behind it (fstrace.causal_order; orphaned workers reading while the finally block of a '
        'failing run_mapping removes; counted in distribution.trace-causally-reordered)',
        'HDF5 H5Fcreate probes an existing file with open(O_RDWR) before truncating it: the probe is dropped when the next '
        'operation of that process on that path is the truncating create (fstrace.to_ops)',
        'gc.collect() runs before a run counts as returned (destructor-time cleanup of FileTracker / AnnDataRowIterator)',
        'every mapping run and every direct call of the type-assignment stage is started with a system temporary directory '
        '(TMPDIR) and a working directory inside the sandbox, which are traced and listed like the other directories; '
        'mapping runs are made with a scratch directory and without one (tmp_dir=None: the system temporary directory is '
        'then the scratch root of the model); concurrent runs use distinct output file names and a private copy of the '
        'query when obsm_key is set',
        "storing results in the query file is requested by a non-empty obsm_key: None and '' both request nothing "
        '(the run must succeed, the query file must keep its digest and the acceptor is told obsm=0, so any write to '
        'the query file is refused)',
        'the three preparatory stages (statistics, reference markers, query markers) are NOT observed in the system '
        'temporary directory: they use multiprocessing.Manager, whose pymp-* directory there lives until the interpreter exits',
        'the model has ONE scratch root: a run that was given a second directory for temporary data (extended_result_dir of '
        'a mapping run without tmp_dir; tmp_dir -- or, without one, the system temporary directory -- of a direct call of '
        'the type-assignment stage when it differs from results_output_path) is encoded with the entries of that directory as '
        'entries of the scratch root under reserved names (overlay_path), i.e. both directories are held to the rules of '
        'the scratch root; concurrent pairs are run with one such directory only',
        'the type-assignment stage (election_runner.run_type_assignment_on_h5ad) is called directly with the query-marker '
        'cache built untraced the way _run_mapping builds it; stale chunk files are what the workers of an earlier run over '
        'the same cell ids (other cells, other chunk size) write: the list that run returned, cut into its row chunks, '
        'without the directly_assigned flag the stage adds after collecting; a direct call that FAILS is not required to '
        'clean up (the property promises that for mapping runs only)',
        'tempfile uniqueness under concurrency is assumed (the two-run acceptor checks the observed names are distinct)',
        'an observation `Stat p answer` carries the KIND of the entry only (absent / file / directory / exists): the size, '
        'times and inode a real stat() also returns (of a stale output, say) are not in the trace alphabet; the mapper does '
        'not use them, and output digests are compared across histories',
        'paths are resolved paths without symbolic links (Model/FsModel.v header); the only symbolic-link case run is a '
        'requested output path that is a dangling link into another directory (history_symlink), checked on the snapshots '
        'alone (known finding F30)',
        'generated references on which the untraced preparation (statistics, reference markers) itself raises are '
        'regenerated (counted in distribution.reference-preparation); such failures belong to C11/C13/C18',
    ]
    n_map = ctx.n(2, 14)
    n_conc = ctx.n(3, 14)
    n_stage = ctx.n(1, 5)
    state = None
    for k in range(n_map):
        state = history_mapping(ctx, k)
        per = max(1, n_conc // n_map) if k < n_map - 1 else n_conc - (max(1, n_conc // n_map)) * (n_map - 1)
        for c in range(max(0, per)):
            history_concurrent(ctx, f'{k}_{c}', *state)
        shutil.rmtree(state[0], ignore_errors=True)
    for k in range(n_stage):
        history_stages(ctx, k)
        shutil.rmtree(ctx.scratch / f's{k}', ignore_errors=True)
    for k in range(ctx.n(2, 10)):
        history_assign(ctx, k)
    for k in range(ctx.n(1, 2)):
        history_symlink(ctx, k)
    c19_tracker.run_part(ctx)


def replay(ctx, rec):
    print(json.dumps(rec, indent=1, default=str)[:8000])
    return 0
