"""C02 — assignments are the plurality of bootstrapped nearest-centroid votes."""
import json
from fractions import Fraction

import numpy as np

from harness import mapcheck, instrument


def choose_node_part(ctx):
    from cell_type_mapper.type_assignment import election
    rng = ctx.rng
    n_cases = ctx.n(150, 4000)
    cases, meta = [], []
    for k in range(n_cases):
        n_q = rng.randrange(1, 5)
        n_ref = rng.randrange(1, 7)
        n_g = rng.choice([1, 2, 3, 4, 5, 6, 6, 7, 8, 8, 10, 12])
        wide = rng.random() < 0.7
        hi = 97 if wide else 3
        q = np.array([[rng.randrange(0, hi) / 8.0 for _ in range(n_g)] for _ in range(n_q)])
        refs = np.array([[rng.randrange(0, hi) / 8.0 for _ in range(n_g)] for _ in range(n_ref)])
        n_types = rng.randrange(1, n_ref + 1)
        owners = [rng.randrange(0, n_types) for _ in range(n_ref)]
        types = [f't{o:02d}' for o in owners]
        factor = rng.choice([Fraction(1, 4), Fraction(1, 2), Fraction(3, 4), Fraction(1), Fraction(1, 8), Fraction(7, 8)])
        iters = rng.choice([1, 2, 3, 7, 10])
        n_assign = rng.choice([1, 2, 3, 10])
        log = []
        out = election.choose_node(query_gene_data=q, reference_gene_data=refs, reference_types=list(types),
                                   bootstrap_factor=float(factor), bootstrap_iteration=iters,
                                   rng=instrument._RngProxy(np.random.default_rng(rng.randrange(10 ** 6)), log),
                                   n_assignments=n_assign)
        result, prob, corr, runners = out
        for i in range(n_q):
            w = int(str(result[i])[1:])
            rs = [[int(str(t[0])[1:]), int(round(float(t[3]) * iters))] for t in runners[i] if t[1]]
            cases.append((201, [[int(round(v * 8)) for v in q[i]], [[int(round(v * 8)) for v in row] for row in refs],
                                owners, log, [factor.numerator, factor.denominator], n_assign,
                                [w, int(round(float(prob[i]) * iters)), rs]]))
            meta.append({'kind': 'choose_node', 'q': q[i].tolist(), 'refs': refs.tolist(), 'owners': owners,
                         'subsets': log, 'factor': str(factor), 'iters': iters, 'n_assign': n_assign,
                         'winner': w, 'prob': float(prob[i]), 'corr': float(corr[i]),
                         'runners': [[str(t[0]), bool(t[1]), float(t[2]), float(t[3])] for t in runners[i]]})
    res = ctx.model(cases)
    for (tag, case), m, d in zip(cases, res, meta):
        ctx.count(('cn', json.dumps(case)), nontrivial=len(set(d['owners'])) > 1 and len(d['q']) > 1)
        ctx.dist('choose_node_subset_size', len(d['subsets'][0]) if d['subsets'] else 0)
        if m[0] != 0:
            d['class'] = 'corr:Vote.tally'
            ctx.violation(f'model could not evaluate choose_node case: {m}', d, no_input=True)
            continue
        subsets_ok, votes, winners, accepted = m[1]
        d['model_votes'] = votes
        d['model_winners'] = winners
        if not subsets_ok:
            ctx.disagreements_checked += 1
            d['class'] = 'c02-subset'
            ctx.violation('a drawn subset is not duplicate-free / in range / of size max(1, round(factor*n))', d)
            continue
        near, corr_sum = mapcheck.vote_margins(case[0], case[1], d['owners'], d['subsets'], winners)
        if near:
            ctx.extra['near_ties_skipped'] = ctx.extra.get('near_ties_skipped', 0) + 1
            continue
        ctx.traces_validated += 1
        if not accepted:
            ctx.disagreements_checked += 1
            d['class'] = 'c02-votes'
            ctx.violation(f'choose_node output is not a plurality outcome of the recomputed votes {votes}', d)
            continue
        exp = sum(corr_sum[d['winner']]) / len(corr_sum[d['winner']])
        if abs(exp - d['corr']) > 1e-9:
            ctx.disagreements_checked += 1
            d['class'] = 'c02-avg-corr'
            ctx.violation(f'avg correlation {d["corr"]} but mean winning correlation over own votes is {exp}', d)


def avg_corr_part(ctx):
    """tally_votes / aggregate_votes / choose_node against Model.AvgCorr (tag 203): the REAL nearest neighbours and
    correlations of every bootstrap iteration are recorded through a wrapper of correlation_nearest_neighbors that
    rounds each correlation to a multiple of 2^-20 (so the binary64 sums of the implementation are exact and the
    reported quotient is the correctly rounded quotient of two exact numbers); votes, bootstrapping probability and
    average correlation of the winner AND of every runner-up slot are then compared for equality, not within a
    tolerance."""
    from cell_type_mapper.type_assignment import election
    rng = ctx.rng
    D = 1 << 20
    real = election.distance_utils.correlation_nearest_neighbors
    rec = []

    def wrapper(*a, **kw):
        nn, corr = real(*a, **kw)
        corr = np.round(np.asarray(corr, dtype=float) * D) / D
        rec.append((np.asarray(nn).copy(), corr.copy()))
        return nn, corr

    cases, meta = [], []
    election.distance_utils.correlation_nearest_neighbors = wrapper
    try:
        for k in range(ctx.n(60, 1500)):
            n_q = rng.randrange(1, 4)
            n_ref = rng.randrange(1, 8)
            n_g = rng.choice([1, 2, 3, 4, 6, 8, 12])
            hi = rng.choice([3, 97])
            q = np.array([[rng.randrange(0, hi) / 8.0 for _ in range(n_g)] for _ in range(n_q)])
            refs = np.array([[rng.randrange(0, hi) / 8.0 for _ in range(n_g)] for _ in range(n_ref)])
            if rng.random() < 0.3:
                owners = rng.sample(range(n_ref + 3), n_ref)      # all distinct: aggregate_votes is skipped, columns unsorted
            else:
                n_types = rng.randrange(1, n_ref + 1)
                owners = [rng.randrange(0, n_types) for _ in range(n_ref)]
            pad = rng.choice([1, 2])                               # 't10' < 't2' when unpadded
            types = [f't{o:0{pad}d}' for o in owners]
            factor = rng.choice([0.25, 0.5, 0.75, 1.0])
            iters = rng.choice([1, 2, 3, 7, 10, 10, 40, 300])
            n_assign = rng.choice([1, 2, 3, 10])
            del rec[:]
            try:
                result, prob, corr, runners = election.choose_node(
                    query_gene_data=q, reference_gene_data=refs, reference_types=list(types), bootstrap_factor=factor,
                    bootstrap_iteration=iters, rng=np.random.default_rng(rng.randrange(10 ** 6)), n_assignments=n_assign)
            except Exception as e:                                 # noqa
                ctx.disagreements_checked += 1
                ctx.violation(f'choose_node raised {type(e).__name__}: {e}',
                              {'class': 'c02-choose-node-raises', 'kind': 'avg_corr', 'q': q.tolist(), 'refs': refs.tolist(),
                               'types': types, 'factor': factor, 'iters': iters, 'n_assign': n_assign})
                continue
            tnames = sorted(set(owners))
            for i in range(n_q):
                its = [[int(nn[i]), int(round(float(c[i]) * D))] for nn, c in rec]
                slots = [[int(str(result[i])[1:]), float(prob[i]), float(corr[i])]] + \
                        [[int(str(t[0])[1:]), float(t[3]), float(t[2])] for t in runners[i]]
                cases.append((203, [owners, its, tnames]))
                meta.append({'kind': 'avg_corr', 'q': q[i].tolist(), 'refs': refs.tolist(), 'types': types, 'owners': owners,
                             'factor': factor, 'iters': iters, 'n_assign': n_assign, 'iterations': its, 'D': D,
                             'slots': slots, 'n_recorded': len(rec)})
    finally:
        election.distance_utils.correlation_nearest_neighbors = real
    res = ctx.model(cases)
    for (tag, case), m, d in zip(cases, res, meta):
        owners, its, tnames = case
        ctx.count(('ac', json.dumps(case)), nontrivial=len(set(owners)) < len(owners) and d['iters'] > 1)
        ctx.dist('avg_corr_iterations', d['iters'])
        ctx.dist('avg_corr_types_leaves', f'{len(tnames)}/{len(owners)}')
        if d['n_recorded'] != d['iters']:
            # the implementation no longer calls the neighbour search once per iteration: the recorded history is
            # not the one the model is about -- a broken tie, not by itself a wrong output
            d['class'] = 'corr:AvgCorr.iterations'
            ctx.violation(f'{d["n_recorded"]} neighbour searches were recorded for {d["iters"]} bootstrap iterations: '
                          f'the tie to Model.AvgCorr (one search per iteration) no longer holds', d, no_input=True)
            continue
        # the property's own statement, recomputed here from the recorded iterations
        votes = {t: 0 for t in tnames}
        csum = {t: Fraction(0) for t in tnames}
        for leaf, c in its:
            votes[owners[leaf]] += 1
            csum[owners[leaf]] += Fraction(c, D)
        bad = None
        for t, p, c in d['slots']:
            exp_p = votes[t] / d['iters']
            exp_c = float(csum[t] / max(1, votes[t]))
            if p != exp_p or c != exp_c:
                bad = (t, p, c, exp_p, exp_c)
                break
        if bad:
            ctx.disagreements_checked += 1
            d['class'] = 'c02-avg-corr'
            ctx.violation(f'type t{bad[0]}: reported probability {bad[1]} / average correlation {bad[2]!r}, but its own votes give '
                          f'{bad[3]} / {bad[4]!r} (mean winning correlation over the iterations that voted for it)', d)
            continue
        # correspondence with the extracted model
        ok = m[0] == 0 and [r[0] for r in m[1]] == tnames and \
            all(r[1] == votes[r[0]] and Fraction(r[2], D) == csum[r[0]] for r in m[1])
        ctx.traces_validated += 1
        if not ok:
            d['class'] = 'corr:AvgCorr.tally_corr'
            d['model'] = m
            ctx.violation(f'model votes / correlation sums {m} differ from the direct recomputation', d, no_input=True)


def raw_profile_part(ctx):
    """The vote is cast on the cell's log2(CPM+1) profile: a run on RAW counts (several chunks, several workers,
    cells whose total lies in (0,1), all-zero cells) must give what a run on the same cells normalised here
    (numpy, float64: log2(1 + 1e6 x / sum x)) and declared log2CPM gives -- at bootstrap factor 1, where the
    subsets do not depend on the generator.  Votes and assignments exactly, correlations within 1e-9; cells with
    a near-tie vote are excused and counted."""
    import numpy as np
    from harness import pipeline, paired
    rng = ctx.rng
    for k in range(ctx.n(5, 60)):
        sc = pipeline.gen_scenario(rng, max_levels=4, max_leaves=8, n_cells=rng.randrange(5, 14))
        ncell, ng = len(sc.cell_ids), len(sc.query_genes)
        raw = np.array([[float(rng.randrange(0, 40)) for _ in range(ng)] for _ in range(ncell)])
        for i in range(ncell):
            r = rng.random()
            if r < 0.25:
                raw[i] *= 2.0 ** -rng.randrange(8, 14)      # "counts" in other units: total strictly between 0 and 1
            elif r < 0.35:
                raw[i, :] = 0.0
        tot = raw.sum(axis=1, keepdims=True)
        norm = np.log2(1.0 + raw * 1.0e6 / np.where(tot > 0, tot, 1.0))
        var = paired.base_var(rng, sc, factor=1.0)
        va = dict(var, chunk_size=rng.randrange(1, 5), n_processors=rng.randrange(1, 4))
        vb = dict(var, chunk_size=ncell + 1, n_processors=1)
        ra = paired.run_once(ctx, sc, f'raw{k}', query=raw, normalization='raw', encoding=rng.choice(['dense', 'csr', 'csc']), **va)
        rb = paired.run_once(ctx, sc, f'nrm{k}', query=norm, normalization='log2CPM', **vb)
        nontrivial = any(len(c) >= 2 for lv in sc.tree.model[:-1] for _, c in lv) or len(sc.tree.model[0]) >= 2
        ctx.count(('raw-profile', k), nontrivial=nontrivial)
        ctx.dist('raw_profile_chunks', -(-ncell // va['chunk_size']))
        desc = {'kind': 'raw-vs-recomputed-profile', 'tree': sc.tree.data, 'markers': sc.markers, 'cell_ids': sc.cell_ids,
                'raw': raw.tolist(), 'query_genes': sc.query_genes, 'ref_genes': sc.ref_genes,
                'means': {str(a): b for a, b in sc.means.items()}, 'config_raw': va, 'config_normalised': vb}
        if not ra['ok'] or not rb['ok']:
            desc['class'] = 'c02-raw-run-raises'
            desc['error'] = ra['error'] or rb['error']
            ctx.violation(f'a run raised: {desc["error"]}', desc)
            continue
        a, b = paired.by_cell(ra), paired.by_cell(rb)
        for j, cid in enumerate(sc.cell_ids):
            diff = paired.compare_records(a[cid], b[cid], sc.tree.levels)
            if diff:
                if paired.near_tie_cell(sc, ra['output'], raw[j], sc.query_genes, 'raw'):
                    ctx.extra['near_ties_skipped'] = ctx.extra.get('near_ties_skipped', 0) + 1
                    continue
                ctx.disagreements_checked += 1
                desc['class'] = 'c02-raw-profile'
                desc['cell'] = cid
                ctx.violation(f'cell {cid} (row {j}, raw total {float(tot[j][0])}): mapping of the raw counts differs from the mapping '
                              f'of its log2(CPM+1) profile: {diff}', desc)
                break


def run(ctx):
    ctx.rule = ('(i) choose_node on random dyadic matrices with a recording generator: every vote of every query row '
                'recomputed exactly by the extracted model; (ii) real run_mapping on generated scenarios (trees, marker '
                'tables with fall-back, gene orders, flatten/drop, chunking, workers, factors, iterations, runners-up) with '
                'every (cell, node) vote recomputed from the input files and the recorded subsets; non-trivial = a vote '
                'among >= 2 children; (iii) raw-count runs (several chunks / workers, totals in (0,1), all-zero cells) against runs on the '
                'log2(CPM+1) profile computed here; near ties (relative margin <= 1e-9 between leaves of different children) are skipped '
                'and counted; (iv) choose_node with the real per-iteration neighbours and correlations recorded (correlations '
                'rounded to multiples of 2^-20): votes, probability and average correlation of the winner and of every '
                'runner-up slot equal to the extracted Model.AvgCorr and to the mean over the own votes, exactly')
    ctx.assumptions += ['float rounding inside np.dot / np.mean is not modelled: decisions are compared, near ties excused; '
                        'correlation values compared within 1e-9',
                        'bootstrap factors are dyadic so that factor*n is exact in binary64',
                        'a parent with >= 2 children always lists at least one query gene (an entry without any is the rejection studied by C08); single-child parents may list reference genes that the query lacks']
    choose_node_part(ctx)
    avg_corr_part(ctx)
    raw_profile_part(ctx)
    mapcheck.run_batch(ctx, ctx.n(25, 400), ('c02-', 'c08-reported', 'corr:Vote', 'corr:trace'), 'map')


def replay(ctx, rec):
    print(json.dumps(rec, indent=1)[:6000])
    return 0
